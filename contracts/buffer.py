"""
Sidecar contracts for BufferAsyncCalls (C03, C07, C08): per-function contracts whose conjunction carries
the safety kernels of the three properties (DESIGN section 4 / 7):

  _run_func        success <=> flag set <=> returns True; failure keeps the inputs and returns False; the
                   wrapped function is called at ONE site, inline, with the round's set, never with an empty one;
                   a pending cancellation of the task is re-raised
  _process_queue   (pointwise for an arbitrary producer p0 dequeued in the round and an arbitrary element x0 of
                   what it produced) loop invariant "p0 is pending in input_gens or loaded with x0 in inputs";
                   the flag is cleared before the first task_done with no suspension in between; every
                   iteration re-arms the timed read BEFORE loading; the round ends only after a successful
                   call; only wait()'s flush request or the time-out mean "flush now"
  _load_inputs     adds every element produced before a producer fails, swallows the producer's failure,
                   re-raises a pending cancellation
  _put / __call__ / await_ / map / amap / _empty_queue / _schedule_with_timeout / wait / _waiter
"""
import z3

from pyvc.values import *  # noqa: F401,F403
from pyvc.engine import PyExc, PathEnd, Unsupported, Frame, _Return, _Break, _Continue
from pyvc.spec import Spec, Args
from pyvc import stubs, aio
from pyvc.aio import LoopS, EvS, VS, is_exc, cls_of, val_of_exc, suspend, VStar
from pyvc.stubs import wget, now, _real

MOD = 'aiuti.asyncio'
CLS = 'BufferAsyncCalls'
B = z3.BoolSort()
I = z3.IntSort()
PRODUCES = z3.Function('producer_yields', ValS, ValS, B)      # element x is among what producer p yields before failing


def method(E, name):
    mod = E.modules[MOD]
    ci = mod.classes.get(CLS)
    if ci is None:
        raise Unsupported('%s no longer exists' % CLS)
    c, m = ci.find(name)
    if m is None:
        raise Unsupported('method %s.%s no longer exists' % (CLS, name))
    return VFunc(m, None, c.module, '%s.%s.%s' % (MOD, c.name, name), cls=c)


def engine(E, props):
    stubs.install_all(E)
    aio.install(E)
    aio.install_objects(E)
    E.props_default = frozenset(props)
    E.inline.add(MOD + '._being_cancelled')
    E.need_hier = True


def mk_self(E, st):
    mod = E.modules[MOD]
    o = Obj(mod.classes[CLS])
    ev = Obj('AEvent', dict(ident=E.fresh('event', EvS)))
    q = Obj('AQueue', dict(maxsize=VInt(0)))
    o.fields.update(func=Obj('callable', tag='wrapped'), timeout=E.fresh_real('timeout'),
                    loop=E.fresh_val('loop', LoopS), q=q, event=ev, _getting=NONE, _flush_requested=E.fresh_bool('flush'),
                    _waiting=Obj('ATask', dict(daemon=True)))
    E.w['ev_set'] = E.fresh('ev_set', z3.ArraySort(EvS, B))
    st.update(o=o, ev=ev.fields['ident'], q=q)
    E.w['cancel_req'] = E.fresh('cancel_req', B)          # a cancellation of the current task is pending
    E.w['in_set'] = E.fresh('in_set', z3.ArraySort(ValS, B))
    return o


def ev_is_set(E, st):
    return z3.Select(E.w['ev_set'], st['ev'])


def install_common(E, st, Qn):
    Bn = E.builtins
    ns = Bn[('import', 'asyncio')]
    ns.attrs['current_task'] = VStub('asyncio.current_task', lambda E_, a, k: Obj('CurrentTask'))
    prev = Bn.get('__getattr_ext__')

    def attr(E_, o, name, node):
        if isinstance(o, Obj) and o.cls == 'CurrentTask' and name == 'cancelling':
            return VStub('Task.cancelling', lambda E_, a, k: VInt(z3.If(E.w['cancel_req'], 1, 0)))
        if isinstance(o, Obj) and o.cls == 'AQueue' and name in ('empty', 'qsize'):
            # what other tasks and threads have queued is not known to this round
            if name == 'empty':
                return VStub('Queue.empty', lambda E_, a, k: VBool(E.fresh('q_empty', B)))

            def qsize(E_, a, k):
                n = E.fresh('qsize', z3.IntSort())
                E.assume(n >= 0)
                return VInt(n)
            return VStub('Queue.qsize', qsize)
        if isinstance(o, Obj) and o.cls == 'InputSet':
            if name == 'add':
                def add(E_, a, k):
                    x = a[0]
                    if not isinstance(x, VVal):
                        raise Unsupported('inputs.add(%r)' % (x,), node)
                    E.w['in_set'] = z3.Store(E.w['in_set'], x.t, True)
                    st['adds'] = st.get('adds', 0) + 1
                    return NONE
                return VStub('set.add', add)
            if name in ('clear', 'discard', 'remove', 'pop', 'difference_update'):
                def shrink(E_, a, k):
                    st['inputs_shrunk'] = True
                    E.w['in_set'] = E.fresh('in_set', z3.ArraySort(ValS, B))
                    return NONE
                return VStub('set.' + name, shrink)
        return prev(E_, o, name, node) if prev else None
    Bn['__getattr_ext__'] = attr
    Bn['__getattr_default__'] = lambda E_, o, name, default: default
    Bn['__truth__'] = lambda E_, v: (z3.Not(st['inputs_empty']) if isinstance(v, Obj) and v.cls == 'InputSet' else None)


def install_any(E, st):
    """any()/all() of the set of buffered arguments: about the ARGUMENTS' truthiness, not about emptiness (a set
    holding only 0, None, '' is not empty)"""
    def _any(E_, a, k):
        if a and isinstance(a[0], Obj) and a[0].cls == 'InputSet':
            r = E.fresh('some_argument_is_truthy', B)
            E.assume(z3.Implies(r, z3.Not(st['inputs_empty'])))
            return VBool(r)
        raise Unsupported('any(%r)' % (a,))
    E.builtins['any'] = VStub('any', _any)


def cancel_may_arrive(E):
    """at a suspension the task may be asked to cancel (loop shutdown): once requested it stays requested"""
    old = E.w['cancel_req']
    new = E.fresh('cancel_req', B)
    E.assume(z3.Implies(old, new))
    E.w['cancel_req'] = new


# ------------------------------------------------------------------ _run_func
def spec_run_func_outcomes(E, st, Qn, inputs_obj, node=None):
    """Call-site use of _run_func's contract (proved by t_run_func)."""
    suspend(E, '_run_func', node)
    cancel_may_arrive(E)
    tag = E.choose([('ok', None), ('failed', None), ('cancelled', E.w['cancel_req'])], '_run_func')
    if tag == 'ok':
        E.w['ev_set'] = z3.Store(E.w['ev_set'], st['ev'], True)
        st['delivered_round'] = True
        return VBool(True)
    if tag == 'failed':
        return VBool(False)
    E.throw('CancelledError', origin='own-cancel')


def t_run_func(E):
    engine(E, {'C03', 'C07', 'C08'})
    f = method(E, '_run_func')
    Qn = f.qualname
    E.cur_func = Qn
    st = {}

    def body():
        st.clear()
        o = mk_self(E, st)
        install_common(E, st, Qn)
        install_any(E, st)
        inputs = Obj('InputSet')
        st['inputs_empty'] = E.fresh('inputs_empty', B)
        pre_set = E.w['in_set']
        pre_ev = ev_is_set(E, st)
        Bn = E.builtins

        def call_user(E_, fobj, args, kwargs, node):
            if fobj is o.fields['func']:
                st['calls'] = st.get('calls', 0) + 1
                st['call_args'] = args
                return aio.mk_awaitable('user_func')
            return None
        Bn['__call__'] = call_user

        def aw_user(E_, v, node):
            """the wrapped function: runs (suspends), then returns, raises anything, or is cancelled with the task"""
            st['awaited_inline'] = True
            E.oblige(Qn + '/pre(func).never_called_with_an_empty_set', z3.Not(st['inputs_empty']), props={'C08'})
            suspend(E, 'wrapped function', node)
            cancel_may_arrive(E)
            tag = E.choose([('return', None), ('raise', None), ('cancelled', E.w['cancel_req'])], 'wrapped function')
            st['func_outcome'] = tag
            if tag == 'return':
                return NONE
            if tag == 'raise':
                c = E.fresh('func_exc', ClsS)
                E.need_hierarchy()
                E.assume(sub(c, EXC['BaseException'].term))
                raise PyExc(VExc(c, (), info={'origin': 'wrapped-function'}))
            E.throw('CancelledError', origin='own-cancel')
        aio.AWAIT['user_func'] = aw_user
        prev_sleep = aio.AWAIT.get('sleep')

        def aw_sleep(E_, v, node):
            E.oblige(Qn + '/ensures.waits_for_nothing_but_the_wrapped_function', z3.BoolVal(False), props={'C08'},
                     detail='a sleep (back-off) inside _run_func: meanwhile the queue is not read and no quiet-period '
                            'timer is armed, the retry and later bursts are delivered late')
            return prev_sleep(E_, v, node) if prev_sleep else NONE
        aio.AWAIT['sleep'] = aw_sleep

        def deadline_of_its_own(what):
            def fn(E_, a, k):
                inner = a[0] if a else None
                around_user = isinstance(inner, Obj) and inner.cls == 'Awaitable' and \
                    inner.fields.get('kind') in ('user_func', 'wrapped_in_run_func')
                if not around_user:
                    raise Unsupported('asyncio.%s(%r) in _run_func' % (what, inner), None)
                if what == 'wait_for':
                    E.oblige(Qn + '/call.the_wrapped_function_is_awaited_without_a_deadline_of_the_buffers_own',
                             z3.BoolVal(False), props={'C08', 'C03', 'C07'},
                             detail='wait_for around the call: a call that merely takes longer is cancelled (its arguments are '
                                    'retried, a slow function never succeeds) or, shielded, keeps running while the retry '
                                    'calls the function a second time -- two calls at once')
                    raise PathEnd()
                return aio.mk_awaitable('wrapped_in_run_func', inner=inner)
            return VStub('asyncio.' + what, fn)
        prev_attr = Bn.get('__getattr_ext__')

        def loop_attr(E_, obj, name, node):
            if isinstance(obj, VVal) and obj.t.sort() == LoopS and name in ('call_soon_threadsafe', 'call_soon', 'call_later'):
                # something handed to the loop to be done LATER: not done when _run_func returns (the next round may start,
                # clear the flag and mark its first producer done before the deferred set() lands)
                return VStub('loop.' + name, lambda E_, a, k: (st.setdefault('deferred', []).append(a), NONE)[1])
            return prev_attr(E_, obj, name, node) if prev_attr else None
        Bn['__getattr_ext__'] = loop_attr

        class _SchedInRunFunc:
            """_schedule_with_timeout(coro) = create_task(wait_for(coro, self.timeout)): around the wrapped call it is a
            deadline of the buffer's own (and a spawned task)"""
            def apply(self, E_, args, kwargs, node=None):
                return deadline_of_its_own('wait_for').fn(E_, [args[1] if len(args) > 1 else None], {})
        E.specs[MOD + '.' + CLS + '._schedule_with_timeout'] = _SchedInRunFunc()
        ns_ = Bn[('import', 'asyncio')]
        ns_.attrs['wait_for'] = deadline_of_its_own('wait_for')
        ns_.attrs['shield'] = deadline_of_its_own('shield')
        aio.AWAIT['wrapped_in_run_func'] = lambda E_, v, node: E.await_(v.fields['inner'], node)
        E.cover(Qn + '/requires')
        E.canary(Qn + '/canary@entry')
        try:
            r = E.await_(E.call(f, [o, inputs], {}), None)
            kind = 'return'
        except PyExc as pe:
            kind = 'raise'
            exc = pe.exc
        E.cover('%s/exit[%s]' % (Qn, kind))
        calls = st.get('calls', 0)
        E.oblige(Qn + '/ensures.wrapped_function_called_at_most_once_per_attempt', z3.BoolVal(calls <= 1), props={'C08'})
        if calls:
            a = st['call_args']
            E.oblige(Qn + '/ensures.called_with_exactly_the_rounds_set', z3.BoolVal(len(a) == 1 and a[0] is inputs),
                     props={'C03', 'C08'})
            E.oblige(Qn + '/ensures.called_inline_not_as_a_background_task', z3.BoolVal(bool(st.get('awaited_inline'))),
                     props={'C08'}, detail='a spawned call could overlap the next one')
        E.oblige(Qn + '/ensures.inputs_never_shrink_here', z3.BoolVal(not st.get('inputs_shrunk')), props={'C03'})
        E.oblige(Qn + '/ensures.inputs_unchanged', E.w['in_set'] == pre_set, props={'C03'})
        outcome = st.get('func_outcome')
        succeeded = (calls == 0) or outcome == 'return'
        if kind == 'return':
            okb = isinstance(r, VBool) and r.concrete() is not None
            E.oblige(Qn + '/ensures.reports_its_outcome_as_a_bool', z3.BoolVal(okb), props={'C03'})
            if okb:
                E.oblige(Qn + '/ensures.returns_True_exactly_when_the_call_succeeded',
                         z3.BoolVal(r.concrete() == succeeded), props={'C03', 'C07'})
            E.oblige(Qn + '/ensures.flag_set_exactly_on_success',
                     ev_is_set(E, st) if succeeded else ev_is_set(E, st) == pre_ev, props={'C03', 'C07'},
                     detail='a failed call must leave the completion flag alone so the inputs are offered again')
            if calls == 0:
                E.oblige(Qn + '/ensures.skips_the_call_only_for_an_empty_set', st['inputs_empty'], props={'C03', 'C08'})
        else:
            E.oblige(Qn + '/signals.only_the_tasks_own_cancellation_propagates',
                     z3.And(z3.BoolVal(outcome in ('cancelled', 'raise')), E.w['cancel_req']), props={'C07', 'C03', 'C08'},
                     detail='origin %s: anything else the wrapped function raises (a CancelledError of its own '
                            'included) is a failed call: logged, inputs kept, retried; if it escapes, the background '
                            'task dies and nothing is ever delivered again' % exc.info.get('origin'))
        if outcome == 'cancelled':
            E.oblige(Qn + '/signals.own_cancellation_is_never_swallowed', z3.BoolVal(kind == 'raise'), props={'C07'})
        if outcome == 'raise' and kind == 'return':
            # the wrapped function failed with SOME exception while a cancellation of the task is pending (it may have
            # been resumed with the CancelledError and reported the abort in its own way): the task must end, not
            # treat it as one more failed attempt
            E.oblige(Qn + '/signals.a_call_failing_while_the_task_is_being_cancelled_ends_the_task',
                     z3.Not(E.w['cancel_req']), props={'C07'},
                     detail='cancelling the background task always terminates it')
    E.run_paths(body)


# ------------------------------------------------------------------ _process_queue
def t_process_queue(E):
    engine(E, {'C03', 'C07', 'C08'})
    f = method(E, '_process_queue')
    Qn = f.qualname
    E.cur_func = Qn
    st = {}
    LI = Qn + '.<locals>._load_inputs'

    def new_producer(tag):
        p = E.fresh('producer_' + tag, ValS)
        return p

    def maybe_choose_p0(p, where):
        """p0 = an arbitrary producer dequeued in this round (chosen at most once)"""
        if st.get('p0') is None and E.choose([('this', None), ('other', None)], 'p0?') == 'this':
            st['p0'] = p
            st['p0_state'] = 'pending'
            E.assume(PRODUCES(p, st['x0']))
            return True
        return False

    def body():
        st.clear()
        o = mk_self(E, st)
        install_common(E, st, Qn)
        Bn = E.builtins
        st['x0'] = E.fresh('x0', ValS)
        st['p0'] = None
        st['inputs_empty'] = E.fresh('inputs_empty', B)
        st['unfinished_balance'] = 0      # gets minus task_dones performed by this round
        st['events'] = []

        def set_ctor(E_, a, k):
            if a:
                raise Unsupported('set(iterable)')
            s_ = Obj('InputSet')
            st.setdefault('sets', []).append(s_)
            E.w['in_set'] = z3.K(ValS, False)
            return s_
        Bn['set'] = VClass('set', ctor=set_ctor)

        # ---- queue -----------------------------------------------------------------------------
        prev = Bn['__getattr_ext__']

        def attr(E_, obj, name, node):
            if obj is st['q']:
                if name == 'get':
                    return VStub('Queue.get', lambda E_, a, k: aio.mk_awaitable('q_get'))
                if name == 'task_done':
                    def td(E_, a, k):
                        st['unfinished_balance'] -= 1
                        st['events'].append('task_done')
                        return NONE
                    return VStub('Queue.task_done', td)
                if name == 'get_nowait':
                    return VStub('Queue.get_nowait', lambda E_, a, k: _unsupp('get_nowait outside _empty_queue'))
            if isinstance(obj, Obj) and obj.cls == 'AEvent' and obj is o.fields['event']:
                if name == 'clear':
                    def clear(E_, a, k):
                        E.w['ev_set'] = z3.Store(E.w['ev_set'], st['ev'], False)
                        st['events'].append('clear')
                        return NONE
                    return VStub('Event.clear', clear)
                if name == 'is_set':
                    def is_set(E_, a, k):
                        # a foreign thread may clear the flag at any moment (its _put): what is read is unstable
                        st['flag_read'] = True
                        return VBool(E.fresh('flag_as_read', B))
                    return VStub('Event.is_set', is_set)
                if name == 'set':
                    def set_(E_, a, k):
                        st['events'].append('set')
                        E.w['ev_set'] = z3.Store(E.w['ev_set'], st['ev'], True)
                        return NONE
                    return VStub('Event.set', set_)
            if isinstance(obj, Obj) and obj.cls == 'GenList':
                if name == 'extend':
                    def extend(E_, a, k):
                        src = a[0]
                        if not (isinstance(src, Obj) and src.cls == 'MappedGens'):
                            raise Unsupported('input_gens.extend(%r)' % (src,), node)
                        # the drained producers (any number, possibly p0 among them) become pending loads
                        st['unfinished_balance'] += 0      # _empty_queue: one task_done per item it yielded
                        p = new_producer('drained')
                        if maybe_choose_p0(p, 'drain'):
                            obj.fields['has_p0'] = True
                        obj.fields['nonempty'] = z3.Or(obj.fields['nonempty'], E.fresh('drained_some', B),
                                                       z3.BoolVal(bool(obj.fields.get('has_p0'))))
                        st['drained'] = True
                        return NONE
                    return VStub('list.extend', extend)
                if name == 'clear':
                    def clear(E_, a, k):
                        if obj.fields.get('has_p0') and st.get('p0_state') == 'pending':
                            st['p0_dropped'] = True
                        obj.fields['has_p0'] = False
                        obj.fields['nonempty'] = z3.BoolVal(False)
                        return NONE
                    return VStub('list.clear', clear)
                if name == 'append':
                    raise Unsupported('input_gens.append', node)
            if isinstance(obj, Obj) and obj.cls == 'TimedGet' and name in ('cancel', 'done', 'cancelled'):
                raise Unsupported('_getting.%s inside _process_queue' % name, node)
            return prev(E_, obj, name, node)
        Bn['__getattr_ext__'] = attr
        Bn['__truth__'] = lambda E_, v: (v.fields['nonempty'] if isinstance(v, Obj) and v.cls == 'GenList' else
                                         z3.Not(st['inputs_empty']) if isinstance(v, Obj) and v.cls == 'InputSet' else None)

        def q_get(E_, v, node):
            """await q.get(): suspends until a producer is queued; RuntimeError when the loop shuts down"""
            suspend(E, 'q.get', node)
            cancel_may_arrive(E)
            tag = E.choose([('item', None), ('shutdown', None), ('cancelled', E.w['cancel_req'])], 'q.get')
            if tag == 'shutdown':
                E.throw('RuntimeError', origin='loop-shutdown')
            if tag == 'cancelled':
                E.throw('CancelledError', origin='own-cancel')
            p = new_producer('first')
            st['unfinished_balance'] += 1
            st['events'].append('get')
            st['first'] = p
            return VVal(p)
        aio.AWAIT['q_get'] = q_get

        # ---- _load_inputs(p): coroutine objects --------------------------------------------------
        def list_literal(E_, e, fr):
            items = [E.eval(x, fr) for x in e.elts]
            if len(items) == 1 and isinstance(items[0], VCoro) and items[0].func.qualname == LI:
                c = items[0]
                p = c.args[0]
                has = False
                if isinstance(p, VVal) and maybe_choose_p0(p.t, 'first'):
                    has = True
                return Obj('GenList', dict(has_p0=has, nonempty=z3.BoolVal(True)))
            if not items:
                return Obj('GenList', dict(has_p0=False, nonempty=z3.BoolVal(False)))
            return VList(items)
        Bn['__list_literal__'] = list_literal

        class _EmptyQ:
            """_empty_queue(): yields every immediately available producer, task_done for each (own contract)"""
            def apply(self, E_, args, kwargs, node=None):
                return Obj('Drained')
        E.specs[MOD + '.' + CLS + '._empty_queue'] = _EmptyQ()

        def map_(E_, a, k):
            fn_, src = a[0], a[1]
            if isinstance(fn_, VFunc) and fn_.qualname == LI and isinstance(src, Obj) and src.cls == 'Drained':
                return Obj('MappedGens')
            raise Unsupported('map(%r, %r)' % (fn_, src))
        Bn['map'] = VStub('map', map_)

        class _Sched:
            """_schedule_with_timeout(coro): a task running wait_for(coro, self.timeout) (own contract)"""
            def apply(self, E_, args, kwargs, node=None):
                coro = args[1]
                ok = isinstance(coro, Obj) and coro.cls == 'Awaitable' and coro.fields['kind'] == 'q_get'
                E.oblige(Qn + '/timer.timed_read_is_a_read_of_the_queue', z3.BoolVal(ok), props={'C08', 'C03'},
                         detail='the time-out may only ever cut the wait for further arguments short, never a load')
                st['armed'] = st.get('armed', 0) + 1
                st['armed_this_iteration'] = True
                st['events'].append('arm')
                return Obj('TimedGet', dict(n=st['armed']))
        E.specs[MOD + '.' + CLS + '._schedule_with_timeout'] = _Sched()

        def load_p0_if_pending(via):
            """running the pending _load_inputs coroutines: every pending producer gets loaded (by _load_inputs'
            contract: everything it produced before failing is added; the set only grows)"""
            old = E.w['in_set']
            new = E.fresh('in_set', z3.ArraySort(ValS, B))
            x = E.fresh('y', ValS)
            E.assume(z3.Implies(z3.Select(old, st['x0']), z3.Select(new, st['x0'])))     # only grows (instance)
            E.w['in_set'] = new
            return new

        def unpack(E_, v, node):
            if isinstance(v, Obj) and v.cls == 'GenList':
                return [VStar(v)]
            if isinstance(v, Obj) and v.cls == 'islice' and isinstance(v.fields.get('it'), Obj) and \
                    v.fields['it'].cls == 'GenList':
                E.oblige(Qn + '/load.every_pending_producer_of_the_pass_is_loaded', z3.BoolVal(False), props={'C03', 'C07', 'C08'},
                         detail='gather(*islice(input_gens, n)): a pass holding more than n producers loads the first n only; '
                                'the others were taken off the queue (and marked done) already and are dropped with the list')
                raise PathEnd()
            return None
        Bn['__unpack_ext__'] = unpack

        def gather(E_, a, k):
            if len(a) == 1 and isinstance(a[0], VStar) and isinstance(a[0].seq, Obj) and a[0].seq.cls == 'GenList':
                return aio.mk_awaitable('gather_gens', gens=a[0].seq)
            raise Unsupported('gather(%r)' % (a,))
        Bn[('import', 'asyncio')].attrs['gather'] = VStub('asyncio.gather', gather)

        def aw_gather(E_, v, node):
            """await gather(*input_gens): every pending load runs to completion (loads never raise except on the
            task's own cancellation, which cancels the gather)"""
            gens = v.fields['gens']
            suspend(E, 'gather', node)
            cancel_may_arrive(E)
            if E.choose([('done', None), ('cancelled', E.w['cancel_req'])], 'gather') == 'cancelled':
                E.throw('CancelledError', origin='own-cancel')
            new = load_p0_if_pending('gather')
            if gens.fields.get('has_p0') and st.get('p0_state') == 'pending':
                st['p0_state'] = 'loaded'
                E.assume(z3.Select(new, st['x0']))       # contract of _load_inputs for p0: its elements are added
            st['events'].append('gather')
            return NONE
        aio.AWAIT['gather_gens'] = aw_gather

        def aw_ext(E_, v, node, fr):
            if isinstance(v, Obj) and v.cls == 'TimedGet':
                """await self._getting: the next producer, TimeoutError after `timeout`, or CancelledError (flush
                requested by wait(), or the task's own cancellation)"""
                E.oblige(Qn + '/timer.awaits_the_read_armed_in_this_iteration',
                         z3.BoolVal(v.fields['n'] == st.get('armed')), props={'C08'})
                suspend(E, 'await _getting', node)
                cancel_may_arrive(E)
                # wait() may have requested a flush meanwhile
                o.fields['_flush_requested'] = E.fresh_bool('flush')
                tag = E.choose([('item', None), ('timeout', None),
                                ('flush', E.truth(o.fields['_flush_requested'])),
                                ('own_cancel', E.w['cancel_req'])], '_getting')
                st['events'].append('getting:' + tag)
                if tag == 'item':
                    p = new_producer('late')
                    st['unfinished_balance'] += 1
                    st['late'] = p
                    if maybe_choose_p0(p, 'late'):
                        st['p0_via_late'] = True
                    return (VVal(p),)
                if tag == 'timeout':
                    E.throw('TimeoutError', origin='timer')
                if tag == 'own_cancel':
                    st['own_cancel_delivered'] = True
                E.throw('CancelledError', origin=('flush' if tag == 'flush' else 'own-cancel'))
            return None
        Bn['__await_ext__'] = aw_ext

        class _RunFunc:
            def on_call(self, E_, fobj, args, kwargs, node):
                return aio.mk_awaitable('run_func', inputs=args[1] if len(args) > 1 else None)

            def apply(self, E_, args, kwargs, node=None):
                return self.on_call(E_, None, args, kwargs, node)
        E.specs[MOD + '.' + CLS + '._run_func'] = _RunFunc()

        def aw_run_func(E_, v, node):
            inp = v.fields['inputs']
            sets = st.get('sets', [])
            E.oblige(Qn + '/call.function_gets_the_rounds_own_set', z3.BoolVal(len(sets) == 1 and inp is sets[0]),
                     props={'C03', 'C08'})
            if st.get('p0') is not None:
                E.oblige(Qn + '/call.every_dequeued_producer_is_loaded_before_the_function_runs',
                         z3.BoolVal(st.get('p0_state') == 'loaded'), props={'C03', 'C07', 'C08'},
                         detail='C08 too: an argument taken off the queue and not loaded before the call is in no call -- not in '
                                'this one and, the round ending with its success, in no later one')
                E.oblige(Qn + '/call.loaded_elements_are_offered', z3.Select(E.w['in_set'], st['x0']), props={'C03', 'C07', 'C08'})
            E.oblige(Qn + '/call.function_runs_only_right_after_its_own_quiet_period_or_flush',
                     z3.BoolVal(bool(st['events']) and st['events'][-1] in ('getting:timeout', 'getting:flush')),
                     props={'C08'}, detail='every call (a retry too) is preceded by a timed read that expired or was '
                                           'flushed; observed %r' % (st['events'][-3:],))
            st['events'].append('run_func')
            st['run_func_calls'] = st.get('run_func_calls', 0) + 1
            r = spec_run_func_outcomes(E, st, Qn, inp, node)
            st['last_run_ok'] = r.concrete()
            return r
        aio.AWAIT['run_func'] = aw_run_func

        # ---- the producer stream inside _load_inputs -------------------------------------------------
        def load_loop(E_, stn, fr, kind, it):
            """`async for i in iterable: inputs.add(i)`: an arbitrary producer: yields elements, then ends or fails"""
            if not (isinstance(it, VVal) and it.t.sort() == ValS):
                raise Unsupported('_load_inputs over %r' % (it,), stn)
            is_p0 = st.get('p0') is not None and z3.eq(it.t, st['p0'])
            pre_has = z3.Select(E.w['in_set'], st['x0'])

            def inv(tag):
                return [('inputs_only_grow', z3.Implies(pre_has, z3.Select(E.w['in_set'], st['x0']))),
                        ('every_element_yielded_so_far_was_added',
                         z3.Implies(st['x0_yielded'], z3.Select(E.w['in_set'], st['x0'])) if is_p0 else z3.BoolVal(True))]

            def havoc():
                E.w['in_set'] = E.fresh('in_set', z3.ArraySort(ValS, B))
                st['x0_yielded'] = E.fresh('x0_yielded', B)

            def test():
                suspend(E, 'producer step', stn)
                cancel_may_arrive(E)
                # A-propagate: user code (a producer) that is resumed with the task's cancellation propagates it
                nc = z3.Not(E.w['cancel_req'])
                tag = E.choose([('yield', nc), ('end', nc), ('fail', nc), ('cancelled', E.w['cancel_req'])],
                               'producer')
                E.used('assume: a producer resumed with the cancellation of the task propagates it (A-propagate)')
                if tag == 'fail':
                    c = E.fresh('producer_exc', ClsS)
                    E.need_hierarchy()
                    E.assume(sub(c, EXC['BaseException'].term))
                    st['producer_failed'] = True
                    raise PyExc(VExc(c, (), info={'origin': 'producer'}))
                if tag == 'cancelled':
                    E.throw('CancelledError', origin='own-cancel')
                if tag == 'end' and is_p0:
                    # x0 is one of the elements p0 produces before ending/failing
                    E.assume(st['x0_yielded'])
                return tag == 'yield'

            def bind():
                el = E.fresh('elem', ValS)
                if is_p0:
                    st['x0_yielded'] = z3.Or(st['x0_yielded'], el == st['x0'])
                E.assign(stn.target, VVal(el), fr)
            st['x0_yielded'] = z3.BoolVal(False)

            def mark_loaded():
                if is_p0:
                    E.oblige(Qn + '/load.every_element_produced_before_the_end_or_failure_is_in_the_set',
                             z3.Select(E.w['in_set'], st['x0']), props={'C03', 'C07'})
                    st['p0_state'] = 'loaded'
            try:
                E.cut_loop(stn, fr, inv, havoc, test=test, bind=bind, label='load')
                mark_loaded()
            except PyExc as pe:
                if pe.exc.info.get('origin') == 'producer' and is_p0:
                    # the producer failed: everything it yielded BEFORE failing counts as produced
                    E.assume(st['x0_yielded'])
                    mark_loaded()
                raise
        E.hooks[(LI, 'loop', 0)] = load_loop

        # ---- the round's main loop ----------------------------------------------------------------
        def main_loop(E_, stn, fr, kind, it):
            sets = st.get('sets', [])

            def gens():
                g = fr.lookup('input_gens')
                if not (isinstance(g, Obj) and g.cls == 'GenList'):
                    raise Unsupported('input_gens is not the list of pending loads', stn)
                return g

            def inv(tag):
                g = gens()
                p0 = st.get('p0') is not None
                if tag == 'entry':
                    E.oblige(Qn + '/barrier.flag_cleared_before_the_first_producer_is_marked_done',
                             z3.BoolVal(st['events'][:3] == ['get', 'clear', 'task_done']), props={'C07'},
                             detail='between q.get() returning and task_done() there is no suspension and the flag '
                                    'is cleared first; observed %r' % (st['events'][:4],))
                out = [('round_keeps_one_set', z3.BoolVal(len(st.get('sets', [])) == 1 and fr.lookup('inputs') is st['sets'][0])),
                       ('no_producer_of_the_round_is_dropped', z3.BoolVal(not st.get('p0_dropped'))),
                       ('flag_stays_clear_until_a_successful_call', z3.Not(ev_is_set(E, st)))]
                if p0:
                    out.append(('dequeued_producer_is_pending_or_loaded',
                                z3.BoolVal((st['p0_state'] == 'pending' and bool(g.fields.get('has_p0'))) or
                                           st['p0_state'] == 'loaded')))
                    if st['p0_state'] == 'loaded':
                        out.append(('loaded_element_is_kept', z3.Select(E.w['in_set'], st['x0'])))
                return out

            def havoc():
                # everything the body changes: the set's content (kept as the pointwise fact about x0), the timed
                # read, the flush flag, the flag (others may only CLEAR it)
                if st.get('p0') is not None and st['p0_state'] == 'loaded':
                    new = E.fresh('in_set', z3.ArraySort(ValS, B))
                    E.assume(z3.Select(new, st['x0']))
                    E.w['in_set'] = new
                else:
                    E.w['in_set'] = E.fresh('in_set', z3.ArraySort(ValS, B))
                g = gens()
                if not g.fields.get('has_p0'):
                    g.fields['nonempty'] = E.fresh('gens_nonempty', B)
                o.fields['_getting'] = NONE
                o.fields['_flush_requested'] = E.fresh_bool('flush')
                nev = E.fresh('ev_set', z3.ArraySort(EvS, B))
                E.assume(z3.Not(z3.Select(nev, st['ev'])))
                E.w['ev_set'] = nev
                st['armed_this_iteration'] = False
                st['events'] = []
                st['iter_balance0'] = st['unfinished_balance']

            def test():
                if isinstance(stn.test, __import__('ast').Constant) and stn.test.value is True:
                    return True
                return E.is_true(E.eval(stn.test, fr))

            def step():
                ev = st['events']
                E.oblige(Qn + '/cancellation.delivered_to_the_task_is_never_taken_for_a_flush_request',
                         z3.BoolVal(not st.get('own_cancel_delivered')), props={'C07'},
                         detail='the CancelledError raised at the timed read was the task\'s own cancellation, yet the round goes on')
                E.oblige(Qn + '/timer.re_armed_in_every_iteration_before_loading',
                         z3.BoolVal(st.get('armed_this_iteration') and 'arm' in ev and
                                    ('gather' not in ev or ev.index('arm') < ev.index('gather'))), props={'C08', 'C15'},
                         detail='the quiet period restarts with every arrival; arming after the loads would shift it')
                E.oblige(Qn + '/round.continues_only_after_a_new_producer_or_a_failed_call',
                         z3.BoolVal('getting:item' in ev or st.get('last_run_ok') is False), props={'C03', 'C08'})
                E.oblige(Qn + '/counter.each_received_producer_is_marked_done_exactly_once',
                         z3.BoolVal(st['unfinished_balance'] == st['iter_balance0']), props={'C07'},
                         detail='join() must neither return early nor block forever')

            def on_exit(how):
                st['exit_how'] = how
            E.cut_loop(stn, fr, inv, havoc, test=test, label='round', step=step, on_exit=on_exit)
        E.hooks[(Qn, 'loop', 0)] = main_loop

        def sequential_loads(E_, stn, fr, kind, it):
            if isinstance(it, Obj) and it.cls == 'GenList':
                E.oblige(Qn + '/load.pending_producers_are_loaded_concurrently', z3.BoolVal(False), props={'C03', 'C07'},
                         detail='a loop that awaits the pending loads one after the other: a producer that can only '
                                'finish once a LATER producer of the same round is being iterated blocks the round for '
                                'ever (gather() runs them together)')
                raise PathEnd()
            raise Unsupported('loop #1 of _process_queue over %r' % (it,), stn)
        E.hooks[(Qn, 'loop', 1)] = sequential_loads

        E.cover(Qn + '/requires')
        E.canary(Qn + '/canary@entry')
        try:
            E.await_(E.call(f, [o], {}), None)
            kind = 'return'
        except PyExc as pe:
            kind = 'raise'
            exc = pe.exc
        E.cover('%s/exit[%s]' % (Qn, kind))
        ev = st['events']
        if kind == 'return':
            E.oblige(Qn + '/cancellation.delivered_to_the_task_is_never_taken_for_a_flush_request',
                     z3.BoolVal(not st.get('own_cancel_delivered')), props={'C07'})
            if st.get('exit_how') is None and 'get' not in ev and st.get('first') is None:
                # shutdown before anything was dequeued
                E.oblige(Qn + '/ensures.returns_without_a_round_only_on_loop_shutdown', z3.BoolVal(True), props={'C07'})
            else:
                E.oblige(Qn + '/ensures.round_ends_only_after_a_successful_call',
                         z3.BoolVal(st.get('last_run_ok') is True), props={'C03', 'C07', 'C08'},
                         detail='arguments of a call that raised are kept and offered again; a round left any other way '
                                '(an early exit for "nothing to do") sets the flag without a call and leaves the armed '
                                'timed read behind: it swallows the next argument of the burst')
                if st.get('p0') is not None:
                    E.oblige(Qn + '/ensures.every_element_of_every_dequeued_producer_was_in_the_successful_call',
                             z3.BoolVal(st.get('p0_state') == 'loaded' and bool(st.get('delivered_round'))), props={'C03', 'C07'})
        else:
            E.oblige(Qn + '/signals.the_round_is_left_exceptionally_only_when_the_task_is_being_cancelled',
                     E.w['cancel_req'], props={'C07', 'C03'}, detail='origin %s' % exc.info.get('origin'))
        # C07 ordering at the start of a round: get -> clear -> task_done, nothing in between
        full = st.get('all_events')
    E.run_paths(body)


def _unsupp(m):
    raise Unsupported(m)


TASKS = {
    'buffer._run_func': (t_run_func, {'C03', 'C07', 'C08'}),
    'buffer._process_queue': (t_process_queue, {'C03', 'C07', 'C08', 'C15'}),
}


# ------------------------------------------------------------------ the small functions
def t_small(E):
    """_put, __call__/await_/map/amap, _obj_to_aiter, _awaitable_to_aiter, _empty_queue, _schedule_with_timeout,
    _waiter."""
    engine(E, {'C03', 'C07', 'C08'})
    E.cur_func = MOD + '.' + CLS
    st = {}
    mod = E.modules[MOD]

    def body():
        st.clear()
        o = mk_self(E, st)
        install_common(E, st, MOD + '.' + CLS)
        Bn = E.builtins
        log = []
        prev = Bn['__getattr_ext__']

        def attr(E_, obj, name, node):
            if obj is o.fields['event']:
                if name == 'clear':
                    return VStub('Event.clear', lambda E_, a, k: (log.append(('clear',)), NONE)[1])
                if name == 'set':
                    return VStub('Event.set', lambda E_, a, k: (log.append(('set',)), NONE)[1])
            if obj is st['q']:
                if name == 'put_nowait':
                    return VStub('Queue.put_nowait', lambda E_, a, k: (log.append(('put_nowait_direct', a[0])), NONE)[1])
                if name == 'get_nowait':
                    def gn(E_, a, k):
                        if E.choose([('item', None), ('empty', None)], 'get_nowait') == 'empty':
                            log.append(('get_nowait', None))
                            E.throw('QueueEmpty')
                        p = VVal(E.fresh('queued', ValS))
                        log.append(('get_nowait', p))
                        return p
                    return VStub('Queue.get_nowait', gn)
                if name == 'task_done':
                    return VStub('Queue.task_done', lambda E_, a, k: (log.append(('task_done',)), NONE)[1])
                if name == 'get':
                    return VStub('Queue.get', lambda E_, a, k: aio.mk_awaitable('q_get'))
            if isinstance(obj, VVal) and obj.t.sort() == LoopS:
                if name == 'call_soon_threadsafe':
                    return VStub('loop.call_soon_threadsafe', lambda E_, a, k: (log.append(('call_soon_threadsafe',) + tuple(a)), NONE)[1])
                if name == 'call_soon':
                    # NOT thread-safe: from another thread it neither wakes the loop nor is it safe
                    return VStub('loop.call_soon', lambda E_, a, k: (log.append(('call_soon',) + tuple(a)), NONE)[1])
                if name == 'create_task':
                    return VStub('loop.create_task', lambda E_, a, k: Obj('ATask', dict(coro=a[0], loop=obj)))
            return prev(E_, obj, name, node)
        Bn['__getattr_ext__'] = attr
        ns = Bn[('import', 'asyncio')]
        ns.attrs['wait_for'] = VStub('asyncio.wait_for', lambda E_, a, k: aio.mk_awaitable('wait_for', inner=a[0], timeout=a[1]))
        ns.attrs['ensure_future'] = VStub('asyncio.ensure_future', lambda E_, a, k: Obj('ATask', dict(
            coro=a[0], loop=k.get('loop', o.fields['loop']))))
        # an ARGUMENT may be anything hashable -- a Future, a Task, a coroutine object included (a job handle to be
        # collected by the function): what kind of object it is, is the caller's business
        for pn in ('isfuture', 'iscoroutine', 'isawaitable'):
            ns.attrs[pn] = VStub('asyncio.' + pn, (lambda n: lambda E_, a, k: VBool(
                z3.Function('argument_' + n, ValS, B)(a[0].t)) if isinstance(a[0], VVal) else VBool(False))(pn))
        insp = Bn.get(('import', 'inspect'))
        if isinstance(insp, VNamespace):
            insp.attrs['isawaitable'] = ns.attrs['isawaitable']

        # ---- _put: the flag is cleared BEFORE the put is handed to the loop (barrier), thread-safely
        f = method(E, '_put')
        E.cur_func = f.qualname
        it = VVal(E.fresh('producer', ValS))
        del log[:]
        E.call(f, [o, it], {})
        kinds = [x[0] for x in log]
        E.oblige(f.qualname + '/ensures.clears_the_flag_then_schedules_exactly_one_thread_safe_put',
                 z3.BoolVal(kinds == ['clear', 'call_soon_threadsafe']), props={'C03', 'C07', 'C08'},
                 detail='observed: %r' % kinds)
        if kinds == ['clear', 'call_soon_threadsafe']:
            cs = log[1]
            ok = len(cs) == 3 and isinstance(cs[1], VStub) and cs[1].name == 'Queue.put_nowait' and cs[2] is it
            E.oblige(f.qualname + '/ensures.the_scheduled_callback_puts_exactly_this_producer_on_the_queue',
                     z3.BoolVal(bool(ok)), props={'C03'})

        # ---- submitters: exactly one producer per call, built from the argument
        class _PutSpec:
            def apply(self, E_, args, kwargs, node=None):
                st.setdefault('puts', []).append(args[1])
                return NONE
        E.specs[MOD + '.' + CLS + '._put'] = _PutSpec()
        for mname in ('__call__', 'await_', 'map', 'amap'):
            E.inline.add(MOD + '.' + CLS + '.' + mname)      # one submitter delegating to another is judged by what is put
        arg = VVal(E.fresh('arg', ValS))
        for mname, kind in (('__call__', 'obj'), ('await_', 'awaitable'), ('map', 'sync'), ('amap', 'async')):
            fm = method(E, mname)
            E.cur_func = fm.qualname
            st['puts'] = []
            E.call(fm, [o, arg], {})
            ps = st['puts']
            E.oblige(fm.qualname + '/ensures.hands_exactly_one_producer_to__put', z3.BoolVal(len(ps) == 1), props={'C03'})
            if len(ps) != 1:
                continue
            p = ps[0]
            if kind == 'async':
                E.oblige(fm.qualname + '/ensures.producer_is_the_given_async_iterable', z3.BoolVal(p is arg), props={'C03'})
            else:
                want = {'obj': '_obj_to_aiter', 'awaitable': '_awaitable_to_aiter', 'sync': 'to_async_iter'}[kind]
                ok = isinstance(p, VCoro) and p.func.qualname == MOD + '.' + want and len(p.args) == 1 and p.args[0] is arg
                if not ok and isinstance(p, Obj) and p.cls == 'AsyncGenCall':
                    ok = p.fields['func'] == MOD + '.' + want and p.fields['args'][0] is arg
                E.oblige(fm.qualname + '/ensures.producer_is_%s_of_the_argument' % want, z3.BoolVal(bool(ok)), props={'C03'})

        # ---- the one-element producers
        for fname, awaited in (('_obj_to_aiter', False), ('_awaitable_to_aiter', True)):
            fn = mod.functions.get(fname)
            if fn is None:
                raise Unsupported('%s no longer exists' % fname)
            ff = VFunc(fn, None, mod, MOD + '.' + fname)
            E.cur_func = ff.qualname
            out = []
            E.hooks[(ff.qualname, 'yield')] = lambda E_, fr, v, node: (out.append(v), NONE)[1]
            x = VVal(E.fresh('x', ValS))
            Bn['__await_ext__'] = lambda E_, v, node, fr: ((VVal(aio.aw_outcome(v.t)),) if v is x else None)

            def timed(E_, v, node, ff=ff, x=x):
                if v.fields.get('inner') is x:
                    E.oblige(ff.qualname + '/ensures.waits_for_the_awaitable_however_long_it_takes', z3.BoolVal(False),
                             props={'C03'}, detail='wait_for(o, T): an awaitable that needs longer is CANCELLED by the buffer '
                                                   'and its value never reaches the function')
                    raise PathEnd()
                raise Unsupported('await of wait_for', node)
            prev_wf = aio.AWAIT.get('wait_for')
            aio.AWAIT['wait_for'] = timed
            try:
                E.run_body(ff, [x], {})
            finally:
                if prev_wf is None:
                    aio.AWAIT.pop('wait_for', None)
                else:
                    aio.AWAIT['wait_for'] = prev_wf
            if awaited:
                okv = len(out) == 1 and isinstance(out[0], VVal) and z3.eq(out[0].t, aio.aw_outcome(x.t))
            else:
                okv = len(out) == 1 and out[0] is x
            E.oblige(ff.qualname + '/ensures.yields_exactly_one_element_%s' % ('the_awaited_value' if awaited else 'the_object'),
                     z3.BoolVal(bool(okv)), props={'C03'})
        Bn.pop('__await_ext__', None)

        # ---- _empty_queue: every immediately available producer, task_done after each has been taken
        fe = method(E, '_empty_queue')
        E.cur_func = fe.qualname
        del log[:]
        yielded = []
        E.hooks[(fe.qualname, 'yield')] = lambda E_, fr, v, node: (yielded.append(v), log.append(('yield', v)), NONE)[1]

        def eq_loop(E_, stn, fr, kind, it_):
            n0 = {'y': 0}

            def inv(tag):
                return [('each_taken_producer_is_yielded_and_marked_done',
                         z3.BoolVal([x[0] for x in log if x[0] in ('yield', 'task_done')] ==
                                    ['yield', 'task_done'] * len([x for x in log if x[0] == 'yield'])))]

            def havoc():
                del log[:]
                del yielded[:]
            E.cut_loop(stn, fr, inv, havoc, label='drain')
        E.hooks[(fe.qualname, 'loop', 0)] = eq_loop
        E.run_body(fe, [o], {})
        seq = [x[0] for x in log]
        E.oblige(fe.qualname + '/ensures.stops_at_the_first_QueueEmpty_without_marking_anything_done',
                 z3.BoolVal(seq[-1:] == ['get_nowait'] and log[-1][1] is None and 'task_done' not in seq[-1:]),
                 props={'C07'}, detail='%r' % seq)

        # ---- _schedule_with_timeout: wait_for(coro, self.timeout) as a task of the instance's loop
        fs = method(E, '_schedule_with_timeout')
        E.cur_func = fs.qualname
        coro = aio.mk_awaitable('q_get')
        t = E.call(fs, [o, coro], {})
        ok = isinstance(t, Obj) and t.cls == 'ATask' and isinstance(t.fields['coro'], Obj) and \
            t.fields['coro'].cls == 'Awaitable' and t.fields['coro'].fields['kind'] == 'wait_for'
        E.oblige(fs.qualname + '/ensures.task_runs_wait_for_of_the_given_coroutine', z3.BoolVal(bool(ok)),
                 props={'C08', 'C03'})
        if ok:
            wf = t.fields['coro']
            E.oblige(fs.qualname + '/ensures.the_timed_coroutine_is_the_one_given', z3.BoolVal(wf.fields['inner'] is coro),
                     props={'C08', 'C03'})
            tv = wf.fields['timeout']
            E.oblige(fs.qualname + '/ensures.deadline_is_this_objects_timeout',
                     z3.BoolVal(False) if isinstance(tv, VNone) else _real(tv) == o.fields['timeout'].t,
                     props={'C08', 'C15', 'C07', 'C03'},
                     detail='wait_for(..., None) never times out: the quiet period never ends (e.g. `self.timeout or '
                            'None` for timeout=0) -- nothing is ever delivered by itself and wait(cancel=False) never '
                            'returns')
            E.oblige(fs.qualname + '/ensures.task_belongs_to_the_instances_loop', z3.BoolVal(t.fields['loop'] is o.fields['loop']),
                     props={'C08', 'C03', 'C07'})

        # ---- wait_from_anywhere: the wait runs on the buffer's own loop, through ensure_aw (C17's contract)
        fwa = method(E, 'wait_from_anywhere')
        E.cur_func = fwa.qualname
        seen = {}

        class _Ensure:
            def on_call(self, E_, fobj, args, kwargs, node):
                seen['args'] = args
                return aio.mk_awaitable('ensured')

            def apply(self, E_, args, kwargs, node=None):
                return self.on_call(E_, None, args, kwargs, node)
        E.specs[MOD + '.ensure_aw'] = _Ensure()
        aio.AWAIT['ensured'] = lambda E_, v, node: NONE
        cflag = E.fresh_bool('cancel')
        E.await_(E.call(fwa, [o], dict(cancel=cflag)), None)
        a_ = seen.get('args') or []
        okw = len(a_) == 2 and isinstance(a_[0], VCoro) and a_[0].func.qualname.endswith('.wait') and \
            a_[0].kwargs.get('cancel') is cflag and a_[1] is o.fields['loop']
        E.oblige(fwa.qualname + '/ensures.awaits_wait(cancel)_on_the_buffers_own_loop_through_ensure_aw',
                 z3.BoolVal(bool(okw)), props={'C07', 'C08'},
                 detail='cancel=False must reach wait(): nobody asked for a flush, the quiet period runs its course')
        E.specs.pop(MOD + '.ensure_aw', None)

        # ---- _waiter: forever, one _process_queue at a time, awaited inline (serial calls)
        fw = method(E, '_waiter')
        E.cur_func = fw.qualname
        cnt = {'n': 0}

        class _PQ:
            def on_call(self, E_, fobj, args, kwargs, node):
                cnt['n'] += 1
                return aio.mk_awaitable('pq')

            def apply(self, E_, args, kwargs, node=None):
                return self.on_call(E_, None, args, kwargs, node)
        E.specs[MOD + '.' + CLS + '._process_queue'] = _PQ()
        awaited = {'n': 0}

        def aw_pq(E_, v, node):
            awaited['n'] += 1
            return NONE
        aio.AWAIT['pq'] = aw_pq

        def w_loop(E_, stn, fr, kind, it_):
            def inv(tag):
                return [('never_leaves_the_loop_normally', z3.BoolVal(True))]

            def havoc():
                cnt['n'] = awaited['n'] = 0

            def step():
                E.oblige(fw.qualname + '/iteration.exactly_one_round_awaited_inline',
                         z3.BoolVal(cnt['n'] == 1 and awaited['n'] == 1), props={'C08', 'C03'})
            E.cut_loop(stn, fr, inv, havoc, label='forever', step=step)
        E.hooks[(fw.qualname, 'loop', 0)] = w_loop
        try:
            E.await_(E.call(fw, [o], {}), None)
            E.oblige(fw.qualname + '/ensures.never_returns_normally', z3.BoolVal(False), props={'C03', 'C07'})
        except PyExc:
            pass
    E.run_paths(body)


def t_wait(E):
    """wait(cancel): join the queue, optionally request a flush of the timed read (after yielding once, only if it
    is still pending, flag set before cancel), then wait for the completion flag."""
    engine(E, {'C07'})
    f = method(E, 'wait')
    Qn = f.qualname
    E.cur_func = Qn
    st = {}

    def body():
        st.clear()
        o = mk_self(E, st)
        install_common(E, st, Qn)
        Bn = E.builtins
        log = []
        getting = E.choose([('none', None), ('task', None)], '_getting')
        g = Obj('TimedGet', dict()) if getting == 'task' else NONE
        o.fields['_getting'] = g
        gdone = {'v': E.fresh('getting_done', B)}
        prev = Bn['__getattr_ext__']

        def attr(E_, obj, name, node):
            if obj is st['q'] and name == 'join':
                return VStub('Queue.join', lambda E_, a, k: aio.mk_awaitable('join'))
            if isinstance(obj, VVal) and obj.t.sort() == LoopS and name == 'create_task':
                return VStub('loop.create_task', lambda E_, a, k: Obj('ATask', dict(coro=a[0], loop=obj)))
            if obj is g and g is not NONE:
                if name == 'done':
                    return VStub('Task.done', lambda E_, a, k: VBool(gdone['v']))
                if name == 'cancel':
                    def cancel(E_, a, k):
                        log.append(('cancel', E.truth(o.fields['_flush_requested']), gdone['v']))
                        return VBool(True)
                    return VStub('Task.cancel', cancel)
            if obj is o.fields['event'] and name == 'wait':
                return VStub('Event.wait', lambda E_, a, k: aio.mk_awaitable('event_wait', ev=st['ev']))
            return prev(E_, obj, name, node)
        Bn['__getattr_ext__'] = attr
        Bn['__truth__'] = lambda E_, v: (True if v is g and g is not NONE else None)

        def aw_ext(E_, v, node, fr):
            if isinstance(v, Obj) and v.cls == 'ATask':
                c = v.fields['coro']
                if isinstance(c, Obj) and c.cls == 'Awaitable' and c.fields['kind'] == 'join':
                    log.append(('join',))
                    suspend(E, 'join', node)
                    gdone['v'] = E.fresh('getting_done', B)
                    return (NONE,)
            if isinstance(v, Obj) and v.cls == 'Awaitable' and v.fields['kind'] == 'join':
                # q.join() awaited inline looks at the counter NOW: the put that _put() scheduled for an argument
                # submitted just before wait() has not run yet (it is a loop callback), the counter is still 0 and
                # join() returns without yielding.  As a task it starts one callback later, after that put (FIFO).
                E.oblige(Qn + '/barrier.join_runs_as_a_task_so_it_starts_after_the_pending_put', z3.BoolVal(False),
                         props={'C07'}, detail='`await self.q.join()` instead of `await loop.create_task(self.q.join())`')
                log.append(('join',))
                suspend(E, 'join', node)
                gdone['v'] = E.fresh('getting_done', B)
                return (NONE,)
            if isinstance(v, Obj) and v.cls == 'Awaitable' and v.fields['kind'] == 'wait_for_in_wait':
                inner = v.fields['inner']
                c = inner.fields.get('coro') if isinstance(inner, Obj) and inner.cls == 'ATask' else inner
                if isinstance(c, Obj) and c.cls == 'Awaitable' and c.fields.get('kind') == 'join':
                    E.oblige(Qn + '/barrier.the_join_has_no_deadline', z3.BoolVal(False), props={'C07'},
                             detail='wait_for(<join>, T): with an argument still queued behind a call in progress for longer '
                                    'than T the waiter falls through to the flag, which the PREVIOUS round\'s success sets: '
                                    'wait() returns although what was submitted before it was never passed to a call')
                    raise PathEnd()
                raise Unsupported('wait_for of %r in wait()' % (inner,), node)
            if isinstance(v, Obj) and v.cls == 'Awaitable' and v.fields['kind'] == 'sleep':
                log.append(('yield',))
                # the processing task gets a turn: it may finish the timed read meanwhile
                old = gdone['v']
                gdone['v'] = E.fresh('getting_done', B)
                E.assume(z3.Implies(old, gdone['v']))
                # ... and when it takes an element it arms a NEW timed read and lowers the flush flag again: a flag raised
                # before this yield may be down by the time the read is cancelled
                fl = E.truth(o.fields['_flush_requested'])
                fl = z3.BoolVal(fl) if isinstance(fl, bool) else fl
                o.fields['_flush_requested'] = VBool(z3.And(fl, E.fresh('processing_task_did_not_re_arm_meanwhile', B)))
                return (NONE,)
            if isinstance(v, Obj) and v.cls == 'Awaitable' and v.fields['kind'] == 'event_wait':
                log.append(('event_wait',))
                return (VBool(True),)
            return None
        Bn['__await_ext__'] = aw_ext
        Bn[('import', 'asyncio')].attrs['wait_for'] = VStub('asyncio.wait_for', lambda E_, a, k: aio.mk_awaitable(
            'wait_for_in_wait', inner=a[0], timeout=a[1] if len(a) > 1 else k.get('timeout')))

        def rewait(E_, stn, fr, kind, it):
            E.oblige(Qn + '/ensures.returns_at_the_first_wake_up_of_the_completion_flag', z3.BoolVal(False), props={'C07'},
                     detail='a loop around the wait for the flag: under a steady stream of submissions the flag is '
                            'cleared again before the waiter runs, and wait() never returns although everything '
                            'submitted before it was delivered')
            raise PathEnd()
        E.hooks[(Qn, 'loop', 0)] = rewait
        cancel = E.fresh_bool('cancel')
        E.cover(Qn + '/requires')
        E.canary(Qn + '/canary@entry')
        E.await_(E.call(f, [o], dict(cancel=cancel)), None)
        kinds = [x[0] for x in log]
        E.oblige(Qn + '/ensures.joins_the_queue_first', z3.BoolVal(kinds[:1] == ['join']), detail='%r' % kinds)
        E.oblige(Qn + '/ensures.waits_for_the_completion_flag_last', z3.BoolVal(kinds[-1:] == ['event_wait']))
        cs = [x for x in log if x[0] == 'cancel']
        E.oblige(Qn + '/ensures.at_most_one_flush_request', z3.BoolVal(len(cs) <= 1))
        if cs:
            E.oblige(Qn + '/flush.only_when_asked_to', cancel.t, props={'C07', 'C08'})
            E.oblige(Qn + '/flush.yields_once_before_cancelling_so_queued_items_join_the_round',
                     z3.BoolVal('yield' in kinds and kinds.index('yield') < kinds.index('cancel')))
            fr_, done_ = cs[0][1], cs[0][2]
            E.oblige(Qn + '/flush.flag_is_set_before_the_read_is_cancelled', fr_ if not isinstance(fr_, bool) else z3.BoolVal(fr_),
                     detail='the processing task tells a flush request from its own cancellation by this flag')
            E.oblige(Qn + '/flush.only_a_still_pending_read_is_cancelled', z3.Not(done_))
        else:
            E.oblige(Qn + '/flush.flag_left_alone_when_nothing_is_cancelled',
                     E.truth(o.fields['_flush_requested']) == st.get('flush0', E.truth(o.fields['_flush_requested'])))
    E.run_paths(body)


TASKS.update({
    'buffer.small_functions': (t_small, {'C03', 'C07', 'C08', 'C15'}),
    'buffer.wait': (t_wait, {'C07', 'C08'}),
})


# ------------------------------------------------------------------ property-level lemmas over the contracts
def t_lemmas(E):
    """InvNoLoss / InvBarrier for one arbitrary submitted value x (producer p), as an inductive invariant of the
    transition system whose actions are exactly the per-function contracts discharged above (each action names
    the obligations it rests on).  Pure SMT."""
    stubs.install_all(E)
    E.cur_func = 'buffer.lemmas'
    E.props_default = frozenset({'C03', 'C07'})
    NONE_, SCHED, INQ, PEND, INP, DONE_ = range(6)

    def body():
        def st(tag):
            return dict(place=z3.Int('place_' + tag), flag=z3.Bool('flag_' + tag), u=z3.Int('u_' + tag),
                        round=z3.Bool('round_' + tag), ok=z3.Int('ok_calls_' + tag))

        def inv(s):
            return z3.And(
                s['place'] >= NONE_, s['place'] <= DONE_, z3.Or(s['u'] == 0, s['u'] == 1), s['ok'] >= 0,
                z3.Implies(s['place'] == INQ, s['u'] == 1),                       # a queued producer blocks join()
                z3.Implies(z3.Or(s['place'] == PEND, s['place'] == INP), z3.And(z3.Not(s['flag']), s['round'])),
                z3.Implies(s['round'], z3.Not(s['flag'])),                        # flag_stays_clear_until_a_successful_call
                z3.Implies(s['place'] == DONE_, s['ok'] >= 1),
                z3.Implies(s['place'] != DONE_, s['ok'] == 0),
                z3.Implies(z3.Or(s['place'] == NONE_, s['place'] == SCHED, s['place'] == DONE_), s['u'] == 0))

        def same(s, t, but=()):
            return z3.And(*[t[k] == s[k] for k in s if k not in but])
        s, t = st('s'), st('t')
        actions = {
            # _put: clears_the_flag_then_schedules_exactly_one_thread_safe_put; submitters hand exactly one producer
            'submit(_put)': z3.And(s['place'] == NONE_, t['place'] == SCHED, z3.Not(t['flag']), same(s, t, ('place', 'flag'))),
            # the scheduled callback puts exactly this producer on the queue (FIFO per thread: stub)
            'put_callback_runs': z3.And(s['place'] == SCHED, t['place'] == INQ, t['u'] == 1, same(s, t, ('place', 'u'))),
            # _process_queue start: barrier.flag_cleared_before_the_first_producer_is_marked_done (one step)
            'round_starts_with_x': z3.And(s['place'] == INQ, z3.Not(s['round']), t['place'] == PEND, z3.Not(t['flag']),
                                          t['u'] == 0, t['round'], same(s, t, ('place', 'flag', 'u', 'round'))),
            'round_starts_with_another': z3.And(z3.Not(s['round']), t['round'], z3.Not(t['flag']),
                                                same(s, t, ('flag', 'round'))),
            # _empty_queue: each taken producer is yielded and marked done; it becomes a pending load
            'drained_into_the_round': z3.And(s['place'] == INQ, s['round'], t['place'] == PEND, t['u'] == 0,
                                             same(s, t, ('place', 'u'))),
            # the timed read returns x's producer: loaded inline, THEN marked done (counter obligation)
            'late_producer_taken': z3.And(s['place'] == INQ, s['round'], t['place'] == PEND, same(s, t, ('place',))),
            'load': z3.And(s['place'] == PEND, t['place'] == INP, z3.Or(t['u'] == s['u'], t['u'] == 0),
                           same(s, t, ('place', 'u'))),
            # call.every_dequeued_producer_is_loaded_before_the_function_runs + _run_func success <=> flag set,
            # round_ends_only_after_a_successful_call
            'successful_call': z3.And(s['round'], s['place'] != PEND,
                                      z3.Implies(s['place'] == INP, z3.And(t['place'] == DONE_, t['ok'] == s['ok'] + 1, t['u'] == 0)),
                                      z3.Implies(s['place'] != INP, z3.And(t['place'] == s['place'], t['ok'] == s['ok'], t['u'] == s['u'])),
                                      t['flag'], z3.Not(t['round'])),
            # failure keeps the inputs and the flag (inputs_unchanged, flag_set_exactly_on_success)
            'failed_call': z3.And(s['round'], same(s, t)),
            # any other submission (also from a foreign thread, at any instant) only CLEARS the flag
            'other_submission': z3.And(z3.Not(t['flag']), same(s, t, ('flag',))),
        }
        init = st('i')
        E.oblige('C03/lemma.init_establishes_InvNoLoss_InvBarrier',
                 z3.Implies(z3.And(init['place'] == NONE_, init['u'] == 0, init['flag'], z3.Not(init['round']), init['ok'] == 0),
                            inv(init)))
        for name, a in actions.items():
            E.oblige('C03/lemma.invariant_preserved_by[%s]' % name, z3.Implies(z3.And(inv(s), a), inv(t)))
            # no-loss: no action forgets a submitted value; exactly-once: a delivered value is not delivered again
            E.oblige('C03/lemma.no_action_loses_a_submitted_value[%s]' % name,
                     z3.Implies(z3.And(inv(s), a, s['place'] != NONE_), t['place'] != NONE_))
            E.oblige('C03/lemma.delivered_to_exactly_one_successful_call[%s]' % name,
                     z3.Implies(z3.And(inv(s), a, s['place'] == DONE_), z3.And(t['place'] == DONE_, t['ok'] == s['ok'])))
        # the barrier: wait() = join (nothing unfinished) then flag observed set; the put of a value submitted before
        # the wait has run by then (per-thread FIFO of loop callbacks: stub), so it is not NONE / SCHED
        E.oblige('C07/lemma.join_then_flag_set_implies_delivered',
                 z3.Implies(z3.And(inv(s), s['u'] == 0, s['flag'], s['place'] != NONE_, s['place'] != SCHED),
                            s['place'] == DONE_), props={'C07'})
    E.run_paths(body)


TASKS['buffer.lemmas'] = (t_lemmas, {'C03', 'C07'})
