"""
Sidecar contracts for aiuti/parsing.py (C19) and aiuti/itertools.py (C18).

C19  values are opaque (sort Val) with  is_str / str_of / mk_str,  is_pair / fst / snd;
     the parser is an arbitrary pure function  parse_fn : String -> Val  that raises anything
     exactly on  parse_raises(s).   Spec function  model_pair  is written from the property text.
C18  an iterator is a linear resource denoting a stream (z3 Seq of Val); tee / map / compress are
     stubs over denotations;  sel / rej  are prefix-recursive spec functions; the link
     compress(X, map(not_, C)) = rej(X, C)  is an inductive lemma (base + step) discharged here.
"""
import z3

from pyvc.values import *  # noqa: F401,F403
from pyvc.engine import PyExc, PathEnd, Unsupported, Frame, _Return
from pyvc.spec import Spec, Args, Snap
from pyvc import stubs

S = z3.StringSort()
B = z3.BoolSort()
I = z3.IntSort()
VS = z3.SeqSort(ValS)

# ------------------------------------------------------------------ C19 value model
is_str = z3.Function('is_str', ValS, B)
str_of = z3.Function('str_of', ValS, S)
mk_str = z3.Function('mk_str', S, ValS)
is_pair = z3.Function('is_pair', ValS, B)
fst = z3.Function('fst', ValS, ValS)
snd = z3.Function('snd', ValS, ValS)
mk_pair = z3.Function('mk_pair', ValS, ValS, ValS)
parse_fn = z3.Function('parse_fn', S, ValS)
parse_raises = z3.Function('parse_raises', S, B)
is_mapping = z3.Function('is_mapping', ValS, B)
is_dict = z3.Function('is_dict', ValS, B)
items_view = z3.Function('items_view', ValS, ValS)
DICT_OF_MAP = z3.Function('dict_of_mapped_pairs', ValS, S, B, ValS)   # dict(map(model_pair[sep, parse_keys], iterable))


def value_axioms():
    s = z3.Const('s!a', S)
    v = z3.Const('v!a', ValS)
    a, b = z3.Consts('a!a b!a', ValS)
    return [
        z3.ForAll([s], z3.And(is_str(mk_str(s)), str_of(mk_str(s)) == s, z3.Not(is_pair(mk_str(s))))),
        z3.ForAll([v], z3.Implies(is_str(v), mk_str(str_of(v)) == v)),
        z3.ForAll([a, b], z3.And(is_pair(mk_pair(a, b)), fst(mk_pair(a, b)) == a, snd(mk_pair(a, b)) == b,
                                 z3.Not(is_str(mk_pair(a, b))))),
    ]


def mkstr(E, t):
    """The Python string with content t (ground instances of the value axioms, no quantifiers:
    z3's sequence solver does not terminate on the quantified form)."""
    v = mk_str(t)
    E.assume(z3.And(is_str(v), str_of(v) == t, z3.Not(is_pair(v))))
    return VVal(v)


def tp(x):
    """try_parse of the property text: literal of a string that is one, else unchanged."""
    return z3.If(z3.And(is_str(x), z3.Not(parse_raises(str_of(x)))), parse_fn(str_of(x)), x)


def model_pair(item, sep, parse_keys):
    """(raises ValueError?, key, value) for one item, from the property statement."""
    s = str_of(item)
    i = z3.IndexOf(s, sep, 0)
    kraw = z3.If(is_str(item), mk_str(z3.SubString(s, 0, i)), fst(item))
    vraw = z3.If(is_str(item), mk_str(z3.SubString(s, i + z3.Length(sep), z3.Length(s) - i - z3.Length(sep))),
                 snd(item))
    raises = z3.And(is_str(item), z3.Not(z3.Contains(s, sep)))
    key = z3.If(parse_keys, tp(kraw), kraw)
    return raises, key, tp(vraw)


def install_value_model(E, ctx):
    """Hooks that give opaque Val values the behaviour the contract assumes of them."""
    B_ = E.builtins

    def _isinstance(E, o, c):
        if isinstance(o, VVal) and o.t.sort() == ValS and getattr(c, 'name', None) == 'str':
            return VBool(is_str(o.t))
        if isinstance(o, VStr) and getattr(c, 'name', None) == 'str':
            return VBool(True)
        if isinstance(o, VVal) and o.t.sort() == ValS and getattr(c, 'name', None) == 'dict':
            # a dict is a mapping; a mapping need not be a dict (MappingProxyType, ChainMap, UserDict, ...)
            E.assume(z3.Implies(is_dict(o.t), is_mapping(o.t)))
            return VBool(is_dict(o.t))
        if isinstance(o, VVal) and o.t.sort() == ValS and getattr(c, 'name', None) in (
                'typing.Mapping', 'collections.abc.Mapping', 'Mapping'):
            return VBool(is_mapping(o.t))
        return None
    B_['__isinstance__'] = _isinstance

    # type(x) is str / type(x) == str: true of exact strings only; a str SUBCLASS (an enum member with a str mixin,
    # a markup-safe string, a path-like str) is a string all the same and the property speaks of strings
    exact_str = z3.Function('type_is_exactly_str', ValS, B)

    def _type(E_, a, k):
        if len(a) == 1 and isinstance(a[0], VVal) and a[0].t.sort() == ValS:
            return Obj('type_of', dict(val=a[0].t))
        if len(a) == 1 and isinstance(a[0], VStr):
            return Obj('type_of', dict(val=None))
        raise Unsupported('type(%r)' % (a,))
    B_['type'] = VStub('type', _type)

    text_of = z3.Function('str()_of_a_non_string', ValS, S)

    def _str(E_, v):
        """str(x): x itself (same text) for a string, some text for anything else -- a different value, a string"""
        if isinstance(v, VVal) and v.t.sort() == ValS:
            if E.branch(is_str(v.t)):
                return mkstr(E, str_of(v.t))
            return mkstr(E, text_of(v.t))
        return None
    B_['__str__'] = _str

    def _type_cmp(E_, a, b):
        for x, y in ((a, b), (b, a)):
            if isinstance(x, VVal) and x.t.sort() == ValS and isinstance(y, VBool) and y.concrete() is not None:
                # `flag is True` / `flag == True` on a caller-given value: the singleton, not "any truthy value"
                tv, fv = bool_val(z3.BoolVal(True)), bool_val(z3.BoolVal(False))
                E.assume(z3.And(truthy(tv), z3.Not(truthy(fv)), tv != fv))
                return x.t == (tv if y.concrete() else fv)
            if isinstance(x, Obj) and x.cls == 'type_of':
                if not isinstance(y, (VClass, VStub)):
                    raise Unsupported('type(x) compared with %r' % (y,))
                v = x.fields['val']
                if v is None:
                    return getattr(y, 'name', None) == 'str'
                if getattr(y, 'name', None) == 'str':
                    E.assume(z3.Implies(exact_str(v), is_str(v)))
                    return exact_str(v)
                if getattr(y, 'name', None) in ('tuple', 'list'):
                    t = z3.Function('type_is_exactly_' + y.name, ValS, B)(v)
                    E.assume(z3.Implies(t, z3.And(z3.Not(is_str(v)), z3.Not(exact_str(v)))))
                    return t
                raise Unsupported('type(x) compared with %r' % (y,))
        return None
    B_['__identical__'] = _type_cmp
    B_['__eq__'] = _type_cmp

    def _call(E, f, args, kwargs, node):
        if f is ctx.get('parse'):
            # the user's parser: pure function of its text, may raise ANYTHING
            (x,) = args
            E.effect('call:parse')
            xs = x.t if isinstance(x, VStr) else str_of(x.t)
            if not isinstance(x, VStr):
                E.oblige('%s/pre(parse).argument_is_a_string' % E.cur_func, is_str(x.t), props={'C19'})
            tag = E.choose([('ret', z3.Not(parse_raises(xs))), ('raise', parse_raises(xs))], 'parse')
            if tag == 'raise':
                c = E.fresh('parse_exc', ClsS)
                E.need_hierarchy()
                E.assume(sub(c, EXC['BaseException'].term))
                raise PyExc(VExc(c, (), info={'origin': 'parse'}))
            return VVal(parse_fn(xs))
        return None
    B_['__call__'] = _call

    def _getattr(E, o, name, node):
        if isinstance(o, VVal) and o.t.sort() == ValS:
            if name == 'items':
                tag = E.choose([('mapping', is_mapping(o.t)), ('other', z3.Not(is_mapping(o.t)))], 'hasattr items')
                if tag == 'other':
                    E.throw('AttributeError')
                return VStub('Mapping.items', lambda E, a, k: VVal(items_view(o.t)))
            if name in ('split', 'rsplit', 'partition', 'rpartition'):
                if not E.branch(is_str(o.t)):
                    E.throw('AttributeError')
                return VStub('str.' + name, lambda E, a, k: str_split(E, name, str_of(o.t), a, k, node))
            if name in ('strip', 'lstrip', 'rstrip', 'lower', 'upper', 'casefold', 'title', 'capitalize'):
                if not E.branch(is_str(o.t)):
                    E.throw('AttributeError')
                # some string function of the text: uninterpreted (it MAY change the text)
                fn_ = z3.Function('str_' + name, S, S)
                return VStub('str.' + name, lambda E_, a, k: mkstr(E, fn_(str_of(o.t))))
            if name in ('isidentifier', 'isdigit', 'isalpha', 'isalnum', 'isnumeric', 'isspace', 'islower', 'isupper',
                        'isdecimal', 'istitle', 'isascii', 'isprintable'):
                if not E.branch(is_str(o.t)):
                    E.throw('AttributeError')
                pred = z3.Function('str_' + name, S, B)        # some property of the text
                return VStub('str.' + name, lambda E_, a, k: VBool(pred(str_of(o.t))))
            if name in ('find', 'index', 'rfind'):
                if not E.branch(is_str(o.t)):
                    E.throw('AttributeError')
                return VStub('str.' + name, lambda E, a, k: str_find(E, name, str_of(o.t), a, k, node))
        return None
    B_['__getattr__'] = _getattr

    def _getslice(E, o, lo, hi, node):
        if isinstance(o, VVal) and o.t.sort() == ValS and E.branch(is_str(o.t)):
            return str_slice(E, o, lo, hi, node)
        return None
    B_['__getslice__'] = _getslice

    def _len(E, o):
        if isinstance(o, VVal) and o.t.sort() == ValS and E.branch(is_str(o.t)):
            return VInt(z3.Length(str_of(o.t)))
        return None
    B_['__len__'] = _len

    def _unpack(E, v, node):
        if isinstance(v, VVal) and v.t.sort() == ValS:
            E.oblige('%s/pre(unpack).item_is_a_pair' % E.cur_func, is_pair(v.t), props={'C19'})
            return [VVal(fst(v.t)), VVal(snd(v.t))]
        return None
    B_['__unpack__'] = _unpack

    for bad in ('eval', 'exec', 'compile', '__import__'):
        B_[bad] = VStub(bad, (lambda n: lambda E, a, k: (E.effect('forbidden:' + n), E.fresh_val('evil'))[1])(bad))


def str_find(E, name, s, a, k, node):
    """str.find / index / rfind(sub): index of the first (last) occurrence, -1 (ValueError for index)."""
    if len(a) != 1 or not isinstance(a[0], VStr):
        raise Unsupported('str.%s%r' % (name, tuple(a)), node)
    sub_ = a[0].t
    if name == 'rfind':
        return VInt(z3.LastIndexOf(s, sub_))
    if name == 'index' and not E.branch(z3.Contains(s, sub_)):
        E.throw('ValueError')
    return VInt(z3.IndexOf(s, sub_, 0))


def _clamp(i, n):
    return z3.If(i < 0, z3.If(i + n < 0, z3.IntVal(0), i + n), z3.If(i > n, n, i))


def str_slice(E, o, lo, hi, node):
    """s[lo:hi] with Python's clamping of negative / out-of-range bounds."""
    s = str_of(o.t)
    n = z3.Length(s)
    lo_t = _clamp(E.unopt(lo).t, n) if lo is not None else z3.IntVal(0)
    hi_t = _clamp(E.unopt(hi).t, n) if hi is not None else n
    return mkstr(E, z3.SubString(s, lo_t, z3.If(hi_t > lo_t, hi_t - lo_t, z3.IntVal(0))))


def str_split(E, name, s, a, k, node):
    """str.split(sep, maxsplit) / rsplit / partition  (CPython facts, conformance-tested):
    split(sep, 1): [s] if sep does not occur, else the two pieces around the FIRST occurrence;
    split(sep): every piece (1, 2 or more than 2 of them); rsplit(sep, 1): around the LAST occurrence;
    partition(sep): always a 3-tuple (head, sep or '', tail).  Empty separator: ValueError."""
    if not a:
        raise Unsupported('str.%s() without separator' % name, node)
    sepv = a[0]
    if not isinstance(sepv, VStr):
        raise Unsupported('str.%s with non-string separator' % name, node)
    sep = sepv.t
    maxsplit = a[1] if len(a) > 1 else k.get('maxsplit')
    ms = maxsplit.concrete() if isinstance(maxsplit, VInt) else None
    if maxsplit is not None and ms is None:
        raise Unsupported('symbolic maxsplit', node)
    if E.branch(z3.Length(sep) == 0):
        E.throw('ValueError')
    L = z3.Length(sep)

    def piece(lo, n):
        return mkstr(E, z3.SubString(s, lo, n))
    if name == 'partition':
        if E.branch(z3.Contains(s, sep)):
            i = z3.IndexOf(s, sep, 0)
            return VTuple([piece(0, i), mkstr(E, sep), piece(i + L, z3.Length(s) - i - L)])
        return VTuple([mkstr(E, s), mkstr(E, z3.StringVal('')), mkstr(E, z3.StringVal(''))])
    if name == 'rpartition':
        raise Unsupported('rpartition', node)
    if not E.branch(z3.Contains(s, sep)):
        return VList([mkstr(E, s)])
    if name == 'split':
        i = z3.IndexOf(s, sep, 0)
        rest_lo = i + L
        rest_n = z3.Length(s) - i - L
        if ms == 1:
            return VList([piece(0, i), piece(rest_lo, rest_n)])
        if ms is None or ms < 0 or ms > 1:
            rest = z3.SubString(s, rest_lo, rest_n)
            if E.branch(z3.Contains(rest, sep)):
                return VList([piece(0, i), E.fresh_val('piece'), E.fresh_val('piece')])   # >= 3 pieces
            return VList([piece(0, i), piece(rest_lo, rest_n)])
        if ms == 0:
            return VList([mkstr(E, s)])
    if name == 'rsplit':
        i = z3.LastIndexOf(s, sep)
        if ms == 1:
            return VList([piece(0, i), piece(i + L, z3.Length(s) - i - L)])
    raise Unsupported('str.%s with maxsplit=%r' % (name, ms), node)


def t_parse_to_dict(E):
    stubs.install_all(E)
    mod = E.modules['aiuti.parsing']
    fn = mod.functions.get('parse_to_dict')
    if fn is None:
        raise Unsupported('parse_to_dict no longer exists')
    f = VFunc(fn, None, mod, 'aiuti.parsing.parse_to_dict')
    E.cur_func = f.qualname
    E.props_default = frozenset({'C19'})
    literal_eval = VStub('ast.literal_eval', lambda E, a, k: _unsupp('literal_eval is only compared by identity'))
    E.builtins[('import', 'ast')] = VNamespace('ast', dict(literal_eval=literal_eval))
    ctx = {}
    install_value_model(E, ctx)
    st = {}

    def _map(E, a, k):
        st['map_f'], st['map_it'] = a[0], a[1]
        return Obj('map', dict(f=a[0], it=a[1]))
    E.builtins['map'] = VStub('map', _map)

    def _dict(E, a, k):
        """dict(map(f, iterable)): f is applied to every element in order (here: to ONE arbitrary
        element, which is what a universally quantified postcondition needs); an exception of f
        propagates; the result is the dictionary of the produced pairs, last pair winning."""
        m = a[0]
        if not (isinstance(m, Obj) and m.cls == 'map'):
            raise Unsupported('dict() of something else than map(...)')
        st['dict_of'] = m
        it = m.fields['it']
        if isinstance(it, Obj) and it.cls == 'filtered':
            E.oblige('aiuti.parsing.parse_to_dict/map.every_item_is_handed_to_parse_pair', z3.BoolVal(False), props={'C19'},
                     detail='filter(%r, items): items are dropped before they are looked at -- an empty string is a '
                            'string item without the separator (ValueError), an empty tuple is not a pair' % (it.fields['pred'],))
            raise PathEnd()
        x = E.fresh_val('item')
        sep, pk = ctx['sep'], ctx['parse_keys']
        # contract precondition on the element domain: a string or a pair
        E.assume(z3.Or(is_str(x.t), is_pair(x.t)))
        E.assume(z3.Implies(is_str(x.t), z3.And(mk_str(str_of(x.t)) == x.t, z3.Not(is_pair(x.t)))))
        raises, mk, mv = model_pair(x.t, sep.t, pk.t)
        E.cover('aiuti.parsing.parse_to_dict/arbitrary_item')
        try:
            r = E.call(m.fields['f'], [x], {})
        except PyExc as pe:
            st['item_exc'] = pe.exc
            isval = E.exc_isinstance(pe.exc, EXC['ValueError'])
            E.oblige('aiuti.parsing.parse_pair/signals.ValueError_only_for_string_without_separator',
                     z3.And(raises, isval if not isinstance(isval, bool) else z3.BoolVal(isval)))
            raise
        E.oblige('aiuti.parsing.parse_pair/ensures.no_exception_missed', z3.Not(raises))
        ok = isinstance(r, VTuple) and len(r.items) == 2 and all(isinstance(t, VVal) for t in r.items)
        E.oblige('aiuti.parsing.parse_pair/ensures.returns_a_pair', z3.BoolVal(ok))
        if ok:
            E.oblige('aiuti.parsing.parse_pair/ensures.key_is_model_key', r.items[0].t == mk,
                     detail='string key: text before the FIRST separator, parsed iff parse_keys; else untouched')
            E.oblige('aiuti.parsing.parse_pair/ensures.value_is_model_value', r.items[1].t == mv,
                     detail='text after the FIRST separator / pair value, replaced by its literal when it is one')
        if not isinstance(it, VVal):
            raise Unsupported('map over %r' % (it,))
        return VVal(DICT_OF_MAP(it.t, sep.t, pk.t))
    E.builtins['dict'] = VClass('dict', ctor=_dict)
    E.builtins['filter'] = VStub('filter', lambda E_, a, k: Obj('filtered', dict(pred=a[0], of=a[1])))

    def body():
        st.clear()
        items = E.fresh_val('items')
        sep = E.fresh_str('sep')
        # parse_keys is whatever the caller passes: what counts is its truthiness (1, 'yes', a numpy bool are "true")
        pk_arg = E.fresh_val('parse_keys')
        pk = VBool(truthy(pk_arg.t))
        parse = Obj('callable', tag='parse')
        ctx.update(parse=parse, sep=sep, parse_keys=pk)
        E.assume(z3.Length(sep.t) >= 1)
        E.assume(z3.Length(sep.t) <= 2) if False else None
        E.cover(f.qualname + '/requires')
        E.canary(f.qualname + '/canary@entry')
        try:
            res = E.run_function(f, [items], dict(sep=sep, parse=parse, parse_keys=pk_arg))
            kind = 'return'
        except PyExc as pe:
            kind = 'raise'
            res = pe.exc
        E.cover('%s/exit[%s]' % (f.qualname, kind))
        src = z3.If(is_mapping(items.t), items_view(items.t), items.t)
        if kind == 'return':
            E.oblige(f.qualname + '/ensures.result_is_dict_of_model_pairs',
                     z3.BoolVal(isinstance(res, VVal)) if not isinstance(res, VVal) else
                     res.t == DICT_OF_MAP(src, sep.t, pk.t),
                     detail='mapping inputs go through .items(); every element through parse_pair; dict() of that')
        else:
            E.oblige(f.qualname + '/signals.only_an_item_error_propagates',
                     z3.BoolVal(res is st.get('item_exc')))
        bad = [e[0] for e in E.effects if e[0].startswith('forbidden:')]
        E.oblige(f.qualname + '/frame.no_eval_exec_compile_import', len(bad) == 0, detail=str(bad))
        E.oblige(f.qualname + '/frame.map_applies_parse_pair_to_every_item',
                 z3.BoolVal(isinstance(st.get('map_f'), VFunc) and st['map_f'].qualname.endswith('.parse_pair')))
    E.run_paths(body)

    # default parser: the default value expression of `parse` is the object ast.literal_eval
    def body_default():
        d = None
        for p, dv in zip(fn.args.kwonlyargs, fn.args.kw_defaults):
            if p.arg == 'parse':
                d = dv
        ok = False
        if d is not None:
            v = E.eval(d, Frame(None, mod, None, mod.name))
            ok = v is literal_eval
        E.oblige(f.qualname + '/default.parse_is_ast.literal_eval', z3.BoolVal(ok))
        sepd = [dv for p, dv in zip(fn.args.kwonlyargs, fn.args.kw_defaults) if p.arg == 'sep']
        pkd = [dv for p, dv in zip(fn.args.kwonlyargs, fn.args.kw_defaults) if p.arg == 'parse_keys']
        E.oblige(f.qualname + '/default.sep_is_equals_sign',
                 z3.BoolVal(bool(sepd) and isinstance(sepd[0], __import__('ast').Constant) and sepd[0].value == '='))
        E.oblige(f.qualname + '/default.parse_keys_is_True',
                 z3.BoolVal(bool(pkd) and isinstance(pkd[0], __import__('ast').Constant) and pkd[0].value is True))
    E.run_paths(body_default)


def _unsupp(m):
    raise Unsupported(m)


# ------------------------------------------------------------------ C18: split / exhaust
truthy = z3.Function('truthy_Val', ValS, B)
SEL = z3.Function('sel', VS, VS, I, VS)        # elements of X[:n] whose condition is truthy, in order
REJ = z3.Function('rej', VS, VS, I, VS)        # ... falsy
NOTS = z3.Function('map_not', VS, VS)          # elementwise operator.not_
MAPF = z3.Function('map_cond', VS, VS)         # elementwise application of the (possibly stateful) callable:
#                                                map_cond(X)[i] = result of its i-th evaluation, on X[i]
bool_val = z3.Function('bool_val', B, ValS)
NONE_VAL = z3.Const('the_None_object', ValS)


def unfold(fn, X, C, n, pred):
    """Definitional unfolding of the prefix-recursive spec functions at index n (n >= 0)."""
    return z3.And(
        fn(X, C, 0) == z3.Empty(VS),
        z3.Implies(n >= 1, fn(X, C, n) == z3.Concat(
            fn(X, C, n - 1), z3.If(pred(C[n - 1]), z3.Unit(X[n - 1]), z3.Empty(VS)))))


def zmin(a, b):
    return z3.If(a <= b, a, b)


class Iter(Obj):
    pass


def mk_iter(den, src=None, lazy=True):
    o = Obj('Iter', dict(den=den, consumed=False))
    return o


def t_split(E):
    stubs.install_all(E)
    mod = E.modules['aiuti.itertools']
    fn = mod.functions.get('split')
    if fn is None:
        raise Unsupported('split no longer exists')
    f = VFunc(fn, None, mod, 'aiuti.itertools.split')
    E.cur_func = f.qualname
    E.props_default = frozenset({'C18'})
    st = {}

    def consume(E, it, who):
        if it is st.get('cond_callable') and it is not None:
            E.oblige('%s/dispatch.a_callable_condition_is_applied_to_the_elements_not_iterated' % f.qualname,
                     z3.BoolVal(False), detail='%s(condition) although callable(condition): e.g. str, list, a class '
                                               'with __iter__ used as predicate' % who)
            raise PathEnd()
        if not (isinstance(it, Obj) and it.cls == 'Iter'):
            raise Unsupported('%s over %r' % (who, it))
        E.oblige('%s/ownership.%s_consumes_an_unconsumed_iterator' % (f.qualname, who),
                 z3.BoolVal(not it.fields['consumed']),
                 detail='each iterator (one-shot) may be handed to exactly one consumer')
        it.fields['consumed'] = True
        return it.fields['den']

    def _tee(E, a, k):
        """itertools.tee(x): consumes x; two iterators each denoting elems(x); x is pulled at most once
        per index however the two are interleaved; nothing is pulled at construction."""
        if len(a) != 1:
            raise Unsupported('tee(n)')
        den = consume(E, a[0], 'tee')
        return VTuple([mk_iter(den), mk_iter(den)])

    def _map(E, a, k):
        """map(f, x): consumes x; denotes [f(e) ...]; f is evaluated once per pull, in order; lazy."""
        fobj, it = a[0], a[1]
        den = consume(E, it, 'map')
        if fobj is st.get('not_'):
            return pointwise(E, den, NOTS(den), lambda c: z3.Not(truthy(c)),
                             'stub: operator.not_ maps a value to the negation of its truthiness')
        if isinstance(fobj, (VClass, VStub)) and getattr(fobj, 'name', '') == 'bool':
            return pointwise(E, den, E.fresh('mapped_bool', VS), lambda c: truthy(c),
                             'bool(x) is the truthiness of x')
        if fobj is st.get('cond_callable'):
            st['cond_maps'] = st.get('cond_maps', 0) + 1
            st['cond_map_src'] = den
            return mk_iter(MAPF(den))
        raise Unsupported('map of %r' % (fobj,))

    def pointwise(E, den, out, truth_of, note):
        """an iterator over `den` mapped element by element (lazily, once per pull, in order): denotation `out`
        of the same length whose j-th element is truthy exactly when truth_of(den[j])"""
        j = z3.Int('j!map')
        E.assume(z3.Length(out) == z3.Length(den))
        E.assume(z3.ForAll([j], z3.Implies(z3.And(j >= 0, j < z3.Length(den)), truthy(out[j]) == truth_of(den[j]))))
        E.used(note)
        return mk_iter(out)

    def _compress(E, a, k):
        """itertools.compress(d, s): consumes both; denotes [d_i | i < min(|d|,|s|), truthy(s_i)]; lazy."""
        d = consume(E, a[0], 'compress.data')
        s = consume(E, a[1], 'compress.selectors')
        n = zmin(z3.Length(d), z3.Length(s))
        E.assume(unfold(SEL, d, s, n, truthy))
        r = mk_iter(SEL(d, s, n))
        r.fields['compress_of'] = (d, s)
        return r

    def _genexp(E_, e, fr, kind, src):
        """(expr(c) for c in <iterator>): lazy element-by-element map; expr is evaluated on a symbolic element"""
        if kind != 'gen' or not (isinstance(src, Obj) and src.cls == 'Iter'):
            raise Unsupported('comprehension over %r' % (src,), e)
        g = e.generators[0]
        den = consume(E, src, 'generator expression')
        c0 = z3.Const('c!elem', ValS)
        f2 = Frame(fr.func, fr.module, fr, fr.qualname)
        E.assign(g.target, VVal(c0), f2)
        v = E.eval(e.elt, f2)
        if isinstance(v, VVal) and z3.eq(v.t, c0):
            return mk_iter(den)
        if isinstance(v, VBool):
            t = v.t
            out = E.fresh('mapped', VS)
            return pointwise(E, den, out, lambda c: z3.substitute(t, (c0, c)),
                             'a generator expression maps its source element by element, lazily')
        t = E.truth(v)
        if isinstance(t, bool):
            t = z3.BoolVal(t)
        out = E.fresh('mapped', VS)
        return pointwise(E, den, out, lambda c: z3.substitute(t, (c0, c)),
                         'a generator expression maps its source element by element, lazily')

    def _identical(E_, a, b):
        """`c is False` / `c is True` / `c is None` on an opaque element: identity with the singleton"""
        for x, y in ((a, b), (b, a)):
            if isinstance(x, VVal) and x.t.sort() == ValS and isinstance(y, (VBool, VNone)):
                if isinstance(y, VNone):
                    return x.t == NONE_VAL
                c = y.concrete()
                if c is None:
                    return None
                return x.t == bool_val(z3.BoolVal(c))
        return None

    def _eager(name):
        def fn_(E, a, k):
            """list()/tuple()/deque() of an iterator: pulls it dry right here (recorded: laziness is lost); what it
            yields afterwards is the same stream"""
            if a and isinstance(a[0], Obj) and a[0].cls == 'Iter':
                E.effect('eager:' + name)
                den = consume(E, a[0], name)
                return mk_iter(den)
            raise Unsupported('%s() inside split' % name)
        return VStub(name, fn_)

    def body():
        st.clear()
        not_ = VStub('operator.not_', lambda E, a, k: VBool(z3.Not(E.truth(a[0]))))
        st['not_'] = not_
        E.builtins[('import', 'operator')] = VNamespace('operator', dict(not_=not_))
        E.builtins[('import', 'itertools:tee')] = VStub('itertools.tee', _tee)
        E.builtins[('import', 'itertools:compress')] = VStub('itertools.compress', _compress)
        E.builtins[('import', 'collections:deque')] = _eager('deque')
        E.builtins['map'] = VStub('map', _map)

        def _iter(E_, a, k):
            """iter(x): x itself when x is an iterator; a NEW iterator over the same elements when x is a container
            (which can then be iterated again and again)"""
            o = a[0]
            if len(a) == 1 and isinstance(o, Obj) and o.cls == 'Iter' and not (o is src or o is cond):
                return o    # what tee/map/compress return are iterators
            if len(a) == 1 and isinstance(o, Obj) and o.cls == 'Iter':
                if E.choose([('iterator', None), ('container', None)], 'iter(argument)') == 'iterator':
                    return o
                o.fields['reiterable'] = True
                return mk_iter(o.fields['den'])
            raise Unsupported('iter(%r)' % (a,))
        E.builtins['iter'] = VStub('iter', _iter)
        E.builtins['__comprehension__'] = _genexp
        E.builtins['__identical__'] = _identical

        def _eq_singleton(E_, a, b):
            """`c == True` / `c == False` on an opaque element: equality with the singleton (1 == True, 0 == False) -- it
            implies the corresponding truthiness, but 2, 'x', [0] are truthy and not equal to True"""
            for x, y in ((a, b), (b, a)):
                if isinstance(x, VVal) and x.t.sort() == ValS and isinstance(y, VBool) and y.concrete() is not None:
                    p = z3.Function('equals_' + str(y.concrete()), ValS, B)(x.t)
                    E.assume(z3.Implies(p, truthy(x.t) if y.concrete() else z3.Not(truthy(x.t))))
                    return p
            return None
        E.builtins['__eq__'] = _eq_singleton
        # the singletons among the opaque values: True is truthy, False and None are falsy
        E.assume(z3.And(truthy(bool_val(z3.BoolVal(True))), z3.Not(truthy(bool_val(z3.BoolVal(False)))),
                        z3.Not(truthy(NONE_VAL)), bool_val(z3.BoolVal(True)) != bool_val(z3.BoolVal(False)),
                        NONE_VAL != bool_val(z3.BoolVal(False)), NONE_VAL != bool_val(z3.BoolVal(True))))
        E.builtins['list'] = _eager('list')
        E.builtins['tuple'] = _eager('tuple')
        for cn in ('set', 'frozenset', 'dict'):
            E.builtins[cn] = VClass(cn, ctor=(lambda n: lambda E_, a, k: _unsupp_split('%s() inside split' % n))(cn))

        def _sorted(E_, a, k):
            """sorted()/reversed() of an argument: pulls it dry at once and yields the elements in ANOTHER order"""
            if a and isinstance(a[0], Obj) and a[0].cls == 'Iter':
                E.effect('eager:sorted')
                den = consume(E, a[0], 'sorted')
                new = E.fresh('reordered', VS)
                E.assume(z3.Length(new) == z3.Length(den))
                return mk_iter(new)
            raise Unsupported('sorted(%r)' % (a,))
        E.builtins['sorted'] = VStub('sorted', _sorted)
        E.builtins['reversed'] = VStub('reversed', _sorted)

        def _isinst(E_, o, c):
            # the kind of container an iterable argument is: the caller's choice
            if isinstance(o, Obj) and o.cls == 'Iter' and isinstance(c, VClass) and \
                    c.name in ('set', 'frozenset', 'list', 'tuple', 'dict'):
                return VBool(E.fresh('argument_is_a_' + c.name, B))
            return None
        E.builtins['__isinstance__'] = _isinst
        X = E.fresh('X', VS)
        C = E.fresh('C', VS)
        src = mk_iter(X)
        is_call = E.fresh_bool('condition_is_callable')
        if E.branch(is_call.t):
            cond = Obj('callable', tag='condition')
            st['cond_callable'] = cond
            E.assume(z3.Length(MAPF(X)) == z3.Length(X))
            Ceff = MAPF(X)
        else:
            cond = mk_iter(C)
            Ceff = C
        E.builtins['__callable__'] = lambda E, o: VBool(o is st.get('cond_callable')) \
            if isinstance(o, Obj) and o.cls in ('callable', 'Iter') else \
            VBool(True) if isinstance(o, (VClass, VStub)) else None

        def _truth(E_, v):
            # an ARGUMENT that is an iterable may be a sized container: falsy exactly when empty (an iterator object is
            # always truthy); a callable is truthy
            if v is cond and isinstance(v, Obj) and v.cls == 'Iter':
                t = E.fresh('condition_argument_is_truthy', B)
                E.assume(z3.Implies(z3.Not(t), z3.Length(C) == 0))
                return t
            if v is src:
                t = E.fresh('source_argument_is_truthy', B)
                E.assume(z3.Implies(z3.Not(t), z3.Length(X) == 0))
                return t
            return None
        E.builtins['__truth__'] = _truth

        def _hasattr(E_, a, k):
            o, n = a[0], a[1].concrete() if isinstance(a[1], VStr) else None
            if n in ('__iter__', '__next__') and isinstance(o, Obj) and o.cls == 'Iter':
                return VBool(True)
            if n in ('__iter__', '__call__') and o is st.get('cond_callable') and o is not None:
                # a callable may well look iterable too (str, list, dict, a class with __iter__ used as predicate)
                return VBool(True) if n == '__call__' else VBool(E.fresh('callable_also_has_iter', B))
            if n == '__call__' and isinstance(o, Obj) and o.cls == 'Iter':
                return VBool(False)
            raise Unsupported('hasattr(%r, %r)' % (o, n))
        E.builtins['hasattr'] = VStub('hasattr', _hasattr)
        E.cover(f.qualname + '/requires')
        E.canary(f.qualname + '/canary@entry')
        res = E.run_function(f, [src, cond], {})
        E.cover(f.qualname + '/exit[return]')
        n = zmin(z3.Length(X), z3.Length(Ceff))
        E.assume(n >= 0)
        ok = isinstance(res, VTuple) and len(res.items) == 2 and all(
            isinstance(r, Obj) and r.cls == 'Iter' for r in res.items)
        E.oblige(f.qualname + '/ensures.returns_two_iterators', z3.BoolVal(ok))
        if not ok:
            return
        r0, r1 = res.items
        # inductive lemma (hand-instantiated): sel(X, map_not(C), k) = rej(X, C, k) for all k
        k = E.fresh('k', I)
        # the selectors of the second stream, as the code built them (map(not_, c2), a generator expression, ...):
        # the lemma is about THEM, whatever they are
        co = r1.fields.get('compress_of')
        E.oblige(f.qualname + '/ensures.second_is_a_lazy_selection_of_the_source', z3.BoolVal(
            co is not None and z3.eq(co[0], X)), detail='compress(<copy of the source>, <selectors>)')
        if co is None or not z3.eq(co[0], X):
            return
        Cn = co[1]
        falsy = lambda c: z3.Not(truthy(c))   # noqa: E731
        E.oblige(f.qualname + '/lemma.rej_is_sel_of_negation.base',
                 z3.Implies(z3.And(unfold(SEL, X, Cn, z3.IntVal(0), truthy), unfold(REJ, X, Ceff, z3.IntVal(0), falsy)),
                            SEL(X, Cn, 0) == REJ(X, Ceff, 0)))
        E.oblige(f.qualname + '/lemma.rej_is_sel_of_negation.step',
                 z3.Implies(z3.And(k >= 1, k <= n, unfold(SEL, X, Cn, k, truthy), unfold(REJ, X, Ceff, k, falsy),
                                   SEL(X, Cn, k - 1) == REJ(X, Ceff, k - 1)),
                            SEL(X, Cn, k) == REJ(X, Ceff, k)))
        # by the induction just discharged:
        E.assume(SEL(X, Cn, n) == REJ(X, Ceff, n))
        E.oblige(f.qualname + '/ensures.first_yields_exactly_the_truthy_ones_in_order',
                 r0.fields['den'] == SEL(X, Ceff, n))
        E.oblige(f.qualname + '/ensures.second_yields_exactly_the_falsy_ones_in_order',
                 r1.fields['den'] == REJ(X, Ceff, n))
        # partition: at each index exactly one of the two streams takes the element (unfold step)
        E.oblige(f.qualname + '/lemma.partition_step',
                 z3.Implies(z3.And(k >= 1, k <= n, unfold(SEL, X, Ceff, k, truthy), unfold(REJ, X, Ceff, k, falsy)),
                            z3.Length(SEL(X, Ceff, k)) + z3.Length(REJ(X, Ceff, k)) ==
                            z3.Length(SEL(X, Ceff, k - 1)) + z3.Length(REJ(X, Ceff, k - 1)) + 1))
        E.oblige(f.qualname + '/ensures.source_consumed_exactly_once', z3.BoolVal(src.fields['consumed'] is True))
        if st.get('cond_callable') is not None:
            E.oblige(f.qualname + '/ensures.callable_condition_mapped_exactly_once_over_the_source',
                     z3.And(z3.BoolVal(st.get('cond_maps', 0) == 1),
                            st['cond_map_src'] == X if st.get('cond_maps') else z3.BoolVal(False)))
        else:
            E.oblige(f.qualname + '/ensures.condition_stream_consumed_exactly_once',
                     z3.BoolVal(cond.fields['consumed'] is True))
        eager = [e[0] for e in E.effects if e[0].startswith('eager:')]
        E.oblige(f.qualname + '/frame.lazy_nothing_pulled_before_first_next', len(eager) == 0)
    E.run_paths(body)


def _unsupp_split(m):
    raise Unsupported(m)


def t_exhaust(E):
    stubs.install_all(E)
    mod = E.modules['aiuti.itertools']
    fn = mod.functions.get('exhaust')
    if fn is None:
        raise Unsupported('exhaust no longer exists')
    f = VFunc(fn, None, mod, 'aiuti.itertools.exhaust')
    E.cur_func = f.qualname
    E.props_default = frozenset({'C18'})
    st = {}

    def _deque(E, a, k):
        """collections.deque(it, maxlen=0): pulls `it` to exhaustion, keeps nothing."""
        ml = k.get('maxlen', a[1] if len(a) > 1 else None)
        it = a[0]
        if isinstance(it, Obj) and it.cls == 'Iter':
            source_may_raise()
            it.fields['pulled_all'] = True
            st['maxlen'] = ml.concrete() if isinstance(ml, VInt) else None
        return Obj('deque')

    def source_may_raise():
        """pulling the argument runs the caller's code (a generator body, a mapped function): it may raise anything,
        at any element"""
        if E.choose([('runs_dry', None), ('raises', None)], 'pulling the argument') == 'raises':
            c = E.fresh('source_exc', ClsS)
            E.need_hierarchy()
            E.assume(sub(c, EXC['BaseException'].term))
            ex = VExc(c, (), info={'origin': 'the-iterable'})
            st['src_exc'] = ex
            raise PyExc(ex)

    def _short_circuit(name):
        def fn_(E_, a, k):
            """any()/all(): stops pulling at the first truthy/falsy element"""
            it_ = a[0]
            if isinstance(it_, Obj) and it_.cls == 'Iter':
                source_may_raise()
                it_.fields['pulled_all'] = E.fresh('no_%s_element_before_the_end' % ('truthy' if name == 'any' else 'falsy'), B)
                st['maxlen'] = 0
                return VBool(E.fresh(name, B))
            raise Unsupported('%s(%r)' % (name, it_))
        return VStub(name, fn_)

    def _hasattr(E_, a, k):
        o, n = a[0], a[1].concrete() if isinstance(a[1], VStr) else None
        if isinstance(o, Obj) and o.cls == 'Iter' and n in ('__len__', '__getitem__', '__contains__', '__reversed__'):
            # a lazy iterable, even a one-shot iterator, may well be sized (a progress wrapper around map(), a view)
            return VBool(E.fresh('argument_has' + n, B))
        if isinstance(o, Obj) and o.cls == 'Iter' and n in ('__iter__', '__next__'):
            return VBool(True) if n == '__iter__' else VBool(E.fresh('argument_is_an_iterator', B))
        raise Unsupported('hasattr(%r, %r)' % (o, n))

    def body():
        st.clear()
        E.builtins[('import', 'collections:deque')] = VStub('collections.deque', _deque)
        E.builtins['hasattr'] = VStub('hasattr', _hasattr)
        E.builtins['any'] = _short_circuit('any')
        E.builtins['all'] = _short_circuit('all')

        def _collect(name):
            def fn_(E_, a, k):
                """set()/frozenset()/list()/tuple()/sorted() of the argument: pulls it dry but KEEPS every element; the
                hashing / comparing kinds fail on elements that cannot be hashed / ordered, part-way through"""
                it_ = a[0] if a else None
                if isinstance(it_, Obj) and it_.cls == 'Iter':
                    source_may_raise()
                    if name in ('set', 'frozenset', 'sorted', 'dict.fromkeys') and \
                            E.choose([('all_fine', None), ('an_element_cannot_be_hashed_or_compared', None)], name) != 'all_fine':
                        E.throw('TypeError', origin=name + '() of the elements')
                    it_.fields['pulled_all'] = True
                    st['maxlen'] = None
                    return Obj('collection')
                raise Unsupported('%s(%r)' % (name, a))
            return VStub(name, fn_)
        for cn in ('set', 'frozenset', 'list', 'tuple', 'sorted'):
            E.builtins[cn] = _collect(cn)
        it = mk_iter(E.fresh('X', VS))
        E.cover(f.qualname + '/requires')
        E.canary(f.qualname + '/canary@entry')
        try:
            r = E.run_function(f, [it], {})
        except PyExc as pe:
            E.oblige(f.qualname + '/signals.raises_only_what_pulling_the_argument_raised',
                     z3.BoolVal(pe.exc is st.get('src_exc')), detail='origin: %s' % pe.exc.info.get('origin'))
            return
        E.oblige(f.qualname + '/signals.a_failure_while_pulling_propagates', z3.BoolVal(st.get('src_exc') is None),
                 detail='returning None says "the whole argument was consumed": an exception raised by the iterable at '
                        'some element must not be swallowed (whatever its class)')
        pa = it.fields.get('pulled_all')
        E.oblige(f.qualname + '/ensures.whole_argument_consumed',
                 pa if isinstance(pa, z3.BoolRef) else z3.BoolVal(pa is True))
        E.oblige(f.qualname + '/ensures.returns_None', z3.BoolVal(isinstance(r, VNone)))
        E.oblige(f.qualname + '/ensures.keeps_nothing', z3.BoolVal(st.get('maxlen') == 0))
    E.run_paths(body)


TASKS = {
    'parsing.parse_to_dict': (t_parse_to_dict, {'C19'}),
    'itertools.split': (t_split, {'C18'}),
    'itertools.exhaust': (t_exhaust, {'C18'}),
}
