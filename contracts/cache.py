"""
Sidecar contract for threadsafe_async_cache (C01, C05, C06, C14): rely/guarantee with ghost state.

One arbitrary fixed key.  Shared state:  cache entry (c_has, c_val), in-flight marker
(m_has, m_loop, m_ev), the creation lock (lk_held, lk_owner), per loop running/closed, per event
is_set.  Ghost: every computing ATTEMPT is identified by the event it created (fresh, hence unique):
   st[e]   0 none | 1 installed | 2 invoking | 3 returned | 4 stored | 5 over
   alp[e]  the attempt's loop,  own[e] its caller,  live[e] = invoking AND its loop has been running
           ever since the invocation began (a stopped loop clears it for good: property text)
   succeeded / the_result : some invocation for the key returned normally / with that value
   cancel_req[c] : cancellation of caller c's task has been requested.
"""
import z3

from pyvc.values import *  # noqa: F401,F403
from pyvc.engine import PyExc, PathEnd, Unsupported, Frame, _Return
from pyvc import stubs, aio, rg
from pyvc.aio import LoopS, EvS, FutS, VStar, is_exc, cls_of
from pyvc.rg import St, frame

B = z3.BoolSort()
I = z3.IntSort()
CallerS = usort('Caller')
Q = 'aiuti.asyncio.threadsafe_async_cache.<locals>._wrapper'
OUTER = 'aiuti.asyncio.threadsafe_async_cache'

DECL = dict(
    c_has=B, c_val=ValS, m_has=B, m_loop=LoopS, m_ev=EvS, lk_held=B, lk_owner=CallerS,
    running=z3.ArraySort(LoopS, B), closed=z3.ArraySort(LoopS, B), ev_set=z3.ArraySort(EvS, B),
    st=z3.ArraySort(EvS, I), alp=z3.ArraySort(EvS, LoopS), own=z3.ArraySort(EvS, CallerS),
    live=z3.ArraySort(EvS, B), succeeded=B, the_result=ValS, cancel_req=z3.ArraySort(CallerS, B),
    lp=z3.ArraySort(CallerS, LoopS),          # the loop a caller runs on (fixed)
    crt_has=z3.ArraySort(EvS, B), crt=z3.ArraySort(EvS, CallerS),   # who created an event (freshness of Event())
)
FIXED = ('lp',)


def dead(s, e):
    """An attempt that can never again be (or become) live or finalising."""
    return z3.Or(z3.And(s.st[e] == 2, z3.Not(s.live[e])), s.st[e] == 5)


def mine_lock(s, me):
    return z3.And(s.lk_held, s.lk_owner == me)


SORTS = dict(ev=EvS, loop=LoopS)

INV_PARTS = [
    ('live_holds_marker', 'ev', lambda s, e: z3.Implies(
        s.live[e], z3.And(s.st[e] == 2, s.m_has, s.m_ev == e, s.running[s.alp[e]]))),
    ('midstep_holds_marker', 'ev', lambda s, e: z3.Implies(
        z3.Or(s.st[e] == 1, s.st[e] == 3, s.st[e] == 4), z3.And(s.m_has, s.m_ev == e, s.running[s.alp[e]]))),
    ('stage_range', 'ev', lambda s, e: z3.And(s.st[e] >= 0, s.st[e] <= 5)),
    ('finalising_means_succeeded', 'ev', lambda s, e: z3.Implies(z3.Or(s.st[e] == 3, s.st[e] == 4), s.succeeded)),
    ('success_is_cached_or_being_finalised', 'plain', lambda s: z3.Implies(
        z3.And(s.succeeded, z3.Not(s.c_has)), z3.And(s.m_has, s.st[s.m_ev] == 3))),
    ('cache_holds_the_result', 'plain', lambda s: z3.Implies(s.c_has, z3.And(s.succeeded, s.c_val == s.the_result))),
    ('closed_not_running', 'loop', lambda s, l: z3.Implies(s.closed[l], z3.Not(s.running[l]))),
    ('marker_is_an_attempt', 'plain', lambda s: z3.Implies(
        s.m_has, z3.And(s.st[s.m_ev] >= 1, s.alp[s.m_ev] == s.m_loop))),
    ('uncreated_event_is_blank', 'ev', lambda s, e: z3.Implies(
        z3.Not(s.crt_has[e]), z3.And(s.st[e] == 0, z3.Not(s.ev_set[e])))),
    ('attempt_owned_by_creator', 'ev', lambda s, e: z3.Implies(
        s.st[e] >= 1, z3.And(s.crt_has[e], s.crt[e] == s.own[e]))),
    ('blank_not_live', 'ev', lambda s, e: z3.Implies(s.st[e] == 0, z3.Not(s.live[e]))),
]
inv = rg.q_inv(INV_PARTS, SORTS)


def marker_dead_or_absent(s):
    return z3.Or(z3.Not(s.m_has), dead(s, s.m_ev))


# ------------------------------------------------------------------ actions (two-state), agent o
def F_(s, t, but):
    return frame(s, t, DECL, but)


def A_lock_acquire(s, t, o):
    return z3.And(z3.Not(s.lk_held), t.lk_held, t.lk_owner == o, F_(s, t, ('lk_held', 'lk_owner')))


def A_lock_release(s, t, o):
    return z3.And(mine_lock(s, o), z3.Not(t.lk_held), F_(s, t, ('lk_held', 'lk_owner')))


def A_create_event(s, t, o, e):
    return z3.And(z3.Not(s.crt_has[e]), t.crt_has == z3.Store(s.crt_has, e, True),
                  t.crt == z3.Store(s.crt, e, o), F_(s, t, ('crt_has', 'crt')))


A_create_event.witness, A_create_event.witness_sort = 'ev', EvS


def A_install(s, t, o):
    """Under the lock, over no marker or a dead one, with nothing cached and no success so far."""
    e = t.m_ev
    return z3.And(mine_lock(s, o), z3.Or(z3.Not(s.m_has), dead(s, s.m_ev)), z3.Not(s.succeeded),
                  s.st[e] == 0, s.crt_has[e], s.crt[e] == o, s.running[s.lp[o]], z3.Not(s.closed[s.lp[o]]),
                  t.m_has, t.m_loop == s.lp[o],
                  t.st == z3.Store(s.st, e, 1), t.alp == z3.Store(s.alp, e, s.lp[o]),
                  t.own == z3.Store(s.own, e, o), t.live == s.live,
                  F_(s, t, ('m_has', 'm_loop', 'm_ev', 'st', 'alp', 'own', 'live')))


def A_invoke(s, t, o):
    e = s.m_ev
    return z3.And(s.m_has, s.st[e] == 1, s.own[e] == o, z3.Not(s.succeeded),
                  t.st == z3.Store(s.st, e, 2), t.live == z3.Store(s.live, e, True), F_(s, t, ('st', 'live')))


def A_return(s, t, o):
    e = s.m_ev
    return z3.And(s.m_has, s.live[e], s.own[e] == o, z3.Not(s.succeeded),
                  t.st == z3.Store(s.st, e, 3), t.live == z3.Store(s.live, e, False), t.succeeded,
                  F_(s, t, ('st', 'live', 'succeeded', 'the_result')))


def A_fail(s, t, o, e):
    """The invocation raised or was cancelled (or is abandoned): the attempt is over."""
    return z3.And(s.st[e] == 2, s.own[e] == o, t.st == z3.Store(s.st, e, 5),
                  t.live == z3.Store(s.live, e, False), F_(s, t, ('st', 'live')))


A_fail.witness, A_fail.witness_sort = 'ev', EvS


def A_store(s, t, o):
    e = s.m_ev
    return z3.And(s.m_has, s.st[e] == 3, s.own[e] == o, t.c_has, t.c_val == s.the_result,
                  t.st == z3.Store(s.st, e, 4), F_(s, t, ('c_has', 'c_val', 'st')))


def A_set_event(s, t, o, e):
    return z3.And(s.crt_has[e], s.crt[e] == o, t.ev_set == z3.Store(s.ev_set, e, True), F_(s, t, ('ev_set',)))


A_set_event.witness, A_set_event.witness_sort = 'ev', EvS


def A_remove_own(s, t, o):
    e = s.m_ev
    return z3.And(mine_lock(s, o), s.m_has, s.own[e] == o, z3.Or(s.st[e] == 4, s.st[e] == 5, dead(s, e)),
                  z3.Not(t.m_has), t.st == z3.Store(s.st, e, 5), t.live == z3.Store(s.live, e, False),
                  F_(s, t, ('m_has', 'm_loop', 'm_ev', 'st', 'live')))


MY_ACTIONS = dict(create_event=A_create_event, lock_acquire=A_lock_acquire, lock_release=A_lock_release, install=A_install, invoke=A_invoke,
                  returned=A_return, fail=A_fail, store=A_store, set_event=A_set_event, remove_own=A_remove_own)


# environment --------------------------------------------------------------------------------------
def E_loop_stops(s, t, o):
    l = z3.Const('l!stop', LoopS)
    e = z3.Const('e!stop', EvS)
    return z3.Exists([l], z3.And(
        s.running[l],
        # a loop never stops in the middle of a task step (installed / returned / stored are mid-step)
        z3.ForAll([e], z3.Implies(s.alp[e] == l, z3.And(s.st[e] != 1, s.st[e] != 3, s.st[e] != 4))),
        t.running == z3.Store(s.running, l, False),
        z3.ForAll([e], t.live[e] == z3.And(s.live[e], s.alp[e] != l)),
        F_(s, t, ('running', 'live'))))


def E_loop_starts(s, t, o):
    l = z3.Const('l!start', LoopS)
    return z3.Exists([l], z3.And(z3.Not(s.running[l]), z3.Not(s.closed[l]),
                                 t.running == z3.Store(s.running, l, True), F_(s, t, ('running',))))


def E_loop_closes(s, t, o):
    l = z3.Const('l!close', LoopS)
    return z3.Exists([l], z3.And(z3.Not(s.running[l]), t.closed == z3.Store(s.closed, l, True),
                                 F_(s, t, ('closed',))))


def E_cancel(s, t, o):
    c = z3.Const('c!cancel', CallerS)
    return z3.Exists([c], z3.And(t.cancel_req == z3.Store(s.cancel_req, c, True), F_(s, t, ('cancel_req',))))


def other_actions():
    out = [(n, f, 'thread') for n, f in MY_ACTIONS.items()]
    out += [('env.loop_stops', E_loop_stops, 'thread'), ('env.loop_starts', E_loop_starts, 'thread'),
            ('env.loop_closes', E_loop_closes, 'thread'), ('env.cancel_task', E_cancel, 'thread')]
    return out


# stable predicates (the rely) ---------------------------------------------------------------------
def mk_stable(my):
    def q1(s):
        return z3.Implies(s.succeeded, z3.And(s.m_has, z3.Or(s.st[s.m_ev] == 3, s.st[s.m_ev] == 4)))

    def midstep(u, e):
        return z3.Or(u.st[e] == 1, u.st[e] == 3, u.st[e] == 4)

    thread = [
        ('lock_protects_marker', 'plain', lambda s, t, me: z3.Implies(
            mine_lock(s, me), z3.And(mine_lock(t, me), t.m_has == s.m_has,
                                     z3.Implies(s.m_has, z3.And(t.m_ev == s.m_ev, t.m_loop == s.m_loop))))),
        ('lock_not_mine_stays_not_mine', 'plain', lambda s, t, me: z3.Implies(
            z3.Not(mine_lock(s, me)), z3.Not(mine_lock(t, me)))),
        ('success_needs_finaliser_while_locked', 'plain', lambda s, t, me: z3.Implies(
            z3.And(mine_lock(s, me), q1(s)), z3.And(mine_lock(t, me), q1(t)))),
        ('no_success_over_dead_marker_while_locked', 'plain', lambda s, t, me: z3.Implies(
            z3.And(mine_lock(s, me), marker_dead_or_absent(s), z3.Not(s.succeeded)),
            z3.And(mine_lock(t, me), marker_dead_or_absent(t), z3.Not(t.succeeded)))),
        ('dead_attempt_is_permanent', 'ev', lambda s, t, me, e: z3.Implies(dead(s, e), dead(t, e))),
        ('closed_is_permanent', 'loop', lambda s, t, me, l: z3.Implies(s.closed[l], t.closed[l])),
        ('cache_retains', 'plain', lambda s, t, me: z3.And(
            z3.Implies(s.c_has, z3.And(t.c_has, t.c_val == s.c_val)),
            z3.Implies(s.succeeded, z3.And(t.succeeded, t.the_result == s.the_result)))),
        # nobody else touches an attempt I own while it is mid-step or live; while it is, the marker
        # stays mine and nobody else succeeds
        ('my_attempt_is_mine', 'ev', lambda s, t, me, e: z3.Implies(
            z3.And(s.crt_has[e], s.crt[e] == me, s.st[e] >= 1),
            z3.And(t.own[e] == s.own[e], t.alp[e] == s.alp[e], t.st[e] >= 1, t.crt_has[e], t.crt[e] == me,
                   z3.Implies(midstep(s, e), z3.And(t.st[e] == s.st[e], t.m_has, t.m_ev == e,
                                                    t.succeeded == s.succeeded,
                                                    z3.Implies(s.succeeded, t.the_result == s.the_result))),
                   z3.Implies(s.st[e] == 2, z3.And(t.st[e] == 2, z3.Implies(t.live[e], s.live[e]),
                                                   z3.Implies(z3.And(s.live[e], t.live[e], z3.Not(s.succeeded)),
                                                              z3.Not(t.succeeded)))),
                   z3.Implies(s.st[e] == 5, t.st[e] == 5)))),
        # an attempt of mine that is over and whose marker is gone never becomes the marker again (a new marker
        # needs a blank event)
        ('my_finished_attempt_is_never_the_marker_again', 'ev', lambda s, t, me, e: z3.Implies(
            z3.And(s.crt_has[e], s.crt[e] == me, s.st[e] == 5, z3.Not(z3.And(s.m_has, s.m_ev == e))),
            z3.And(t.crt_has[e], t.crt[e] == me, t.st[e] == 5, z3.Not(z3.And(t.m_has, t.m_ev == e))))),
        ('events_only_get_set', 'ev', lambda s, t, me, e: z3.Implies(s.ev_set[e], t.ev_set[e])),
        ('my_unpublished_events_are_untouched', 'ev', lambda s, t, me, e: z3.Implies(
            z3.And(s.crt_has[e], s.crt[e] == me),
            z3.And(t.crt_has[e], t.crt[e] == me,
                   z3.Implies(s.st[e] == 0, z3.And(t.st[e] == 0, t.ev_set[e] == s.ev_set[e]))))),
        ('events_i_did_not_create_stay_not_mine', 'ev', lambda s, t, me, e: z3.Implies(
            z3.Not(z3.And(s.crt_has[e], s.crt[e] == me)), z3.Not(z3.And(t.crt_has[e], t.crt[e] == me)))),
        ('cancel_requests_persist', 'plain', lambda s, t, me: z3.Implies(s.cancel_req[me], t.cancel_req[me])),
        ('caller_loop_fixed', 'plain', lambda s, t, me: t.lp == s.lp),
    ]
    return thread, []


def point_facts(t, me):
    """True whenever the agent executes: code of a task runs only while its loop is running (a loop does
    not stop in the middle of a task step).  An axiom about execution, not a rely clause."""
    return z3.And(t.running[t.lp[me]], z3.Not(t.closed[t.lp[me]]))


# others' actions never act on behalf of `me`: an action of agent o changes own[]/st[] only of its own
# attempts.  That is part of each action's definition above (s.own[e] == o guards) and is what the
# side conditions use with o /= me.


# ------------------------------------------------------------------ the code-facing stubs
class Ctx:
    pass


def setup_wrapper(E, with_cache_arg=True):
    """Runs the REAL outer function threadsafe_async_cache(func, cache=...) and returns its _wrapper."""
    mod = E.modules['aiuti.asyncio']
    fn = mod.functions.get('threadsafe_async_cache')
    if fn is None:
        raise Unsupported('threadsafe_async_cache no longer exists')
    outer = VFunc(fn, None, mod, OUTER)
    ctx = Ctx()
    ctx.func = Obj('callable', tag='wrapped function')
    ctx.cache_arg = Obj('CacheMap', dict(given=True)) if with_cache_arg else NONE
    ctx.dicts = []
    ctx.locks = []

    def dict_literal(E_, pairs):
        if pairs:
            raise Unsupported('non-empty dict literal')
        d = Obj('PyDict', dict(n=len(ctx.dicts)))
        ctx.dicts.append(d)
        return d
    E.builtins['__dict_literal__'] = dict_literal
    E.builtins[('import', 'threading:Lock')] = VStub('threading.Lock', lambda E_, a, k: _mk_lock(ctx))
    E.builtins['__truth__'] = lambda E_, o: (E.fresh('cache_arg_nonempty', B) if o is ctx.cache_arg else None)
    prev = E.cur_func
    E.cur_func = OUTER
    # without a cache argument the parameter is OMITTED, so that the signature's own default is what gets used
    w = E.call(outer, [ctx.func], dict(cache=ctx.cache_arg) if with_cache_arg else {})
    E.cur_func = prev
    if not isinstance(w, VFunc):
        raise Unsupported('threadsafe_async_cache(func) did not return a function defined in it')
    ctx.wrapper = w
    cl = w.frame
    ctx.closure = cl
    return ctx


def _mk_lock(ctx):
    lk = Obj('CacheLock', dict(n=len(ctx.locks)))
    ctx.locks.append(lk)
    return lk


def roles(E, ctx):
    """Which closure objects play the roles cache / in-flight table / lock (by use, not by name)."""
    cl = ctx.closure
    env = {}
    f = cl
    while f is not None:
        for k, v in f.env.items():
            env.setdefault(k, v)
        f = f.parent
    store = [v for v in env.values() if v is ctx.cache_arg or (isinstance(v, Obj) and v.cls == 'PyDict')]
    ctx.cache_obj = None
    if isinstance(ctx.cache_arg, Obj):
        ctx.cache_obj = ctx.cache_arg if any(v is ctx.cache_arg for v in env.values()) else None
        tables = [d for d in ctx.dicts if any(v is d for v in env.values())]
    else:
        tables = [d for d in ctx.dicts if any(v is d for v in env.values())]
        if tables:
            ctx.cache_obj = tables[0]
            tables = tables[1:]
    ctx.tables = tables
    ctx.lock_obj = ctx.locks[0] if ctx.locks else None


def install_wrapper_stubs(E, ctx, R, my, opts):
    """Bind the operations _wrapper performs to the shared/ghost state (R: the RG instance)."""
    me = R.me
    Bn = E.builtins
    st = opts

    def access(site, level='thread'):
        R.point(level, site)

    def key_ok(k, node):
        if 'key' not in st:
            st['key'] = k
        # C05/C06 too: a marker filed under something coarser than the key (its hash, its first argument) is shared by
        # unequal keys -- a call then waits behind another key's computation, for ever if that computation awaits it
        E.oblige('%s/frame.same_key_for_every_subscript' % Q, z3.BoolVal(k is st['key']),
                 props={'C14', 'C01', 'C05', 'C06'}, site=getattr(node, 'lineno', None))

    # ---- cache mapping and in-flight table ------------------------------------------------------
    def getitem(E_, o, k, node):
        if o is ctx.cache_obj:
            key_ok(k, node)
            access('_cache[key]')
            s = R.cur()
            if st.pop('cache_seen_present', False) and E.choose([('kept', None), ('evicted', None)],
                                                               'read after membership test') == 'evicted':
                # check-then-read on a caller-supplied bounded mapping shared between threads: the entry can vanish
                # between `key in _cache` and `_cache[key]`
                E.throw('KeyError', origin='evicted-after-own-store')
            if st.get('stored_by_me') and E.choose([('kept', None), ('evicted', None)],
                                                   'read after own store') == 'evicted':
                # the store may be a caller-supplied BOUNDED mapping (the LRU of the docstring): between this caller's
                # own store and a later read of it another thread's store can evict the entry
                E.throw('KeyError', origin='evicted-after-own-store')
            if E.branch(s.c_has):
                st['hit'] = True
                return VVal(s.c_val)
            E.throw('KeyError', origin='cache-miss')
        if o in ctx.tables:
            key_ok(k, node)
            access('events[key]')
            s = R.cur()
            if E.branch(s.m_has):
                ev = Obj('AEvent', dict(ident=s.m_ev))
                st['marker_read'] = (s.m_loop, s.m_ev)
                st['marker_read_in_tenure'] = (s.m_loop, s.m_ev)
                return VTuple([VVal(s.m_loop), ev])
            E.throw('KeyError', origin='no-marker')
        return None
    Bn['__getitem__'] = getitem

    def setitem(E_, o, k, v, node):
        if o is ctx.cache_obj:
            key_ok(k, node)
            access('_cache[key]=')
            s = R.cur()
            if not isinstance(v, VVal):
                raise Unsupported('cache store of %r' % (v,), node)
            E.oblige('%s/ensures.only_the_own_invocations_result_is_cached' % Q,
                     z3.And(z3.BoolVal(my.get('ev') is not None), s.st[my['ev']] == 3 if my.get('ev') is not None
                            else z3.BoolVal(False), v.t == s.the_result), props={'C01', 'C06', 'C14'})
            e = my.get('ev')
            R.set(c_has=z3.BoolVal(True), c_val=v.t, st=z3.Store(s.st, e, 4) if e is not None else s.st)
            st['stored_by_me'] = True
            return
        if o in ctx.tables:
            key_ok(k, node)
            access('events[key]=')
            s = R.cur()
            if not (isinstance(v, VTuple) and len(v.items) == 2 and isinstance(v.items[0], VVal)
                    and isinstance(v.items[1], Obj) and v.items[1].cls == 'AEvent'):
                raise Unsupported('in-flight marker of unexpected shape %r' % (v,), node)
            lp_, ev_ = v.items[0].t, v.items[1].fields['ident']
            my['ev'] = ev_
            st['installed_in_tenure'] = True
            E.oblige('%s/install.marker_event_is_a_fresh_one_per_computation' % Q, s.st[ev_] == 0,
                     props={'C01', 'C05'})
            R.set(m_has=z3.BoolVal(True), m_loop=lp_, m_ev=ev_, st=z3.Store(s.st, ev_, 1),
                  alp=z3.Store(s.alp, ev_, s.lp[me]), own=z3.Store(s.own, ev_, me))
            E.oblige('%s/install.marker_names_the_callers_running_loop' % Q, lp_ == s.lp[me], props={'C01', 'C05'})
            return
        raise Unsupported('subscript store on %r' % (o,), node)
    Bn['__setitem__'] = setitem

    def delitem(E_, o, k, node):
        if o in ctx.tables:
            key_ok(k, node)
            access('del events[key]')
            s = R.cur()
            E.oblige('%s/signals.no_bookkeeping_KeyError@del events[key]' % Q, s.m_has, props={'C06'})
            E.assume(s.m_has)
            e = s.m_ev
            R.set(m_has=z3.BoolVal(False), st=z3.Store(s.st, e, 5), live=z3.Store(s.live, e, False))
            return
        raise Unsupported('del on %r' % (o,), node)
    Bn['__delitem__'] = delitem

    def contains(E_, o, k, node):
        if o in ctx.tables:
            key_ok(k, node)
            access('key in events')
            return R.cur().m_has
        if o is ctx.cache_obj:
            key_ok(k, node)
            access('key in _cache')
            if E.branch(R.cur().c_has):
                st['cache_seen_present'] = True
                return True
            return False
        raise Unsupported('in %r' % (o,), node)
    Bn['__contains__'] = contains

    def dict_get(o):
        def fn(E_, a, k):
            key_ok(a[0], None)
            access('events.get(key)')
            s = R.cur()
            if E.branch(s.m_has):
                return VTuple([VVal(s.m_loop), Obj('AEvent', dict(ident=s.m_ev))])
            return a[1] if len(a) > 1 else NONE
        return VStub('dict.get', fn)

    def attr(E_, o, name, node):
        if isinstance(o, VVal) and o.t.sort() == ValS and name in ('items', 'keys', 'values'):
            return VStub('dict.' + name, lambda E_, a, k: Obj('KwView', dict(kind=name, of=o.t)))
        if isinstance(o, Obj) and o in ctx.tables and name == 'get':
            return dict_get(o)
        if isinstance(o, Obj) and o in ctx.tables and name == 'setdefault':
            def setdefault(E_, a, k):
                """dict.setdefault(key, value): stores only when the key is absent, returns what is there then"""
                key_ok(a[0], node)
                access('events.setdefault(key, ...)')
                s = R.cur()
                if E.branch(s.m_has):
                    return VTuple([VVal(s.m_loop), Obj('AEvent', dict(ident=s.m_ev))])
                setitem(E_, o, a[0], a[1], node)
                return a[1]
            return VStub('dict.setdefault', setdefault)
        if isinstance(o, Obj) and o in ctx.tables and name == 'pop':
            def pop(E_, a, k):
                """dict.pop(key[, default]): removes WHATEVER marker is there (no ownership test)"""
                key_ok(a[0], node)
                access('events.pop(key)')
                s = R.cur()
                if E.branch(s.m_has):
                    r = VTuple([VVal(s.m_loop), Obj('AEvent', dict(ident=s.m_ev))])
                    R.set(m_has=z3.BoolVal(False))
                    return r
                if len(a) > 1:
                    return a[1]
                E.throw('KeyError', origin='no-marker')
            return VStub('dict.pop', pop)
        if o is ctx.cache_obj and name == 'get':
            def cache_get(E_, a, k):
                """_cache.get(key[, default]): the stored result (which may itself be None, 0, '' ...) or the default"""
                key_ok(a[0], node)
                access('_cache.get(key)')
                s = R.cur()
                if E.branch(s.c_has):
                    return VVal(s.c_val)
                return a[1] if len(a) > 1 else NONE
            return VStub('dict.get', cache_get)
        if o is ctx.cache_obj and name in ('pop', 'popitem', 'clear'):
            def evict(E_, a, k):
                """the wrapper itself removing an entry of the store (the CALLER's mapping): whatever is stored under the
                key -- also a value another call has stored and handed out meanwhile"""
                if name == 'pop':
                    key_ok(a[0], node)
                access('_cache.%s(...)' % name)
                s = R.cur()
                E.oblige('%s/frame.the_wrapper_never_evicts_from_the_store' % Q, z3.Not(s.c_has), props={'C14', 'C01', 'C06'},
                         detail='_cache.%s() in the wrapper: once one invocation has succeeded its result stays for every '
                                'later caller unless the OWNER of the mapping evicts it' % name)
                had = E.branch(s.c_has)
                R.set(c_has=z3.BoolVal(False))
                if name == 'pop':
                    if had:
                        return VVal(s.c_val)
                    if len(a) > 1:
                        return a[1]
                    E.throw('KeyError', origin='cache-bookkeeping')
                return NONE
            return VStub('dict.' + name, evict)
        if isinstance(o, VVal) and o.t.sort() == LoopS:
            if name == 'is_running':
                def fn(E_, a, k):
                    access('%s.is_running()' % 'loop')
                    s = R.cur()
                    r = E.branch(s.running[o.t])
                    st.setdefault('liveness_reads', []).append(('running', o.t, r))
                    return VBool(r)
                return VStub('loop.is_running', fn)
            if name == 'is_closed':
                def fn(E_, a, k):
                    access('loop.is_closed()')
                    s = R.cur()
                    r = E.branch(s.closed[o.t])
                    st.setdefault('liveness_reads', []).append(('closed', o.t, r))
                    if r:
                        st.setdefault('observed_closed', []).append(o.t)
                    return VBool(r)
                return VStub('loop.is_closed', fn)
        if isinstance(o, Obj) and o.cls == 'AEvent':
            ev = o.fields['ident']
            if name == 'set':
                def fn(E_, a, k):
                    access('event.set()')
                    s = R.cur()
                    st.setdefault('set_events', []).append(ev)
                    R.set(ev_set=z3.Store(s.ev_set, ev, True))
                    return NONE
                return VStub('Event.set', fn)
            if name == 'wait':
                return VStub('Event.wait', lambda E_, a, k: aio.mk_awaitable('event_wait', ev=ev))
        if isinstance(o, Obj) and o.cls == 'WaiterTask':
            if name == 'done':
                return VStub('Task.done', lambda E_, a, k: VBool(o.fields['_done']))
            if name == 'cancelled':
                return VStub('Task.cancelled', lambda E_, a, k: VBool(o.fields['_cancelled']))
            if name == 'cancel':
                def fn(E_, a, k):
                    o.fields['cancel_called'] = True
                    return VBool(True)
                return VStub('Task.cancel', fn)
            if name == 'cancelling':
                # counts cancel() REQUESTS made on the task: a task that ended cancelled because the future it
                # awaited was cancelled (the foreign case) has none (conformance: asyncio_facts)
                return VStub('Task.cancelling', lambda E_, a, k: VInt(1 if o.fields['cancel_called'] else 0))
        if isinstance(o, Obj) and o.cls == 'CurrentTask':
            if name == 'cancelling':
                def fn(E_, a, k):
                    access('current_task().cancelling()')
                    s = R.cur()
                    return VInt(z3.If(s.cancel_req[me], 1, 0))
                return VStub('Task.cancelling', fn)
        return None
    Bn['__getattr__'] = attr
    Bn['__getattr_default__'] = lambda E_, o, name, default: default

    # ---- the creation lock ----------------------------------------------------------------------
    def with_(E_, cm, is_async, node):
        if cm is ctx.lock_obj:
            def enter():
                access('with lock')
                s = R.cur()
                # blocks until free; other holders release eventually (no obligation while blocked)
                E.assume(z3.Not(s.lk_held))
                R.set(lk_held=z3.BoolVal(True), lk_owner=me)
                st['locked'] = st.get('locked', 0) + 1
                st['installed_in_tenure'] = False
                st['marker_read_in_tenure'] = None
                st['reads_at_enter'] = len(st.get('liveness_reads', []))
                return cm

            def exit_(exc):
                access('lock release')
                s = R.cur()
                E.oblige('%s/lock.released_by_its_holder' % Q, mine_lock(s, me), props={'C01'})
                mr = st.get('marker_read_in_tenure')
                if exc is None and mr is not None and not st.get('installed_in_tenure') and my.get('ev') is None:
                    # (my['ev'] is None: this is the deciding block of a caller that owns no attempt, not the
                    # clean-up block of a computing caller looking at its own marker)
                    # the locked block found another caller's marker and leaves it in place (it is going to wait
                    # for it): only if it has seen that marker's loop running and not closed; a stopped or
                    # closed computing loop must be taken over here, or the caller waits / retries for ever
                    reads = st.get('liveness_reads', [])[st.get('reads_at_enter', 0):]
                    seen_running = any(k == 'running' and r is True and z3.eq(l, mr[0]) for k, l, r in reads)
                    seen_open = any(k == 'closed' and r is False and z3.eq(l, mr[0]) for k, l, r in reads)
                    E.oblige('%s/decide.a_foreign_marker_is_left_in_place_only_if_its_loop_was_seen_running_and_not_closed'
                             % Q, z3.BoolVal(seen_running and seen_open), props={'C05', 'C06'},
                             detail='reads under the lock: %r' % [(k, r) for k, l, r in reads])
                R.set(lk_held=z3.BoolVal(False))
                st['locked'] -= 1
                return False
            return enter, exit_
        return None
    Bn['__with_ext__'] = with_

    # ---- asyncio pieces -------------------------------------------------------------------------
    ns = Bn[('import', 'asyncio')]

    def grl(E_, a, k):
        s = R.cur()
        return VVal(s.lp[me])
    ns.attrs['get_running_loop'] = VStub('asyncio.get_running_loop', grl)

    def new_event(E_, a, k):
        """asyncio.Event(): a fresh identity, not set."""
        access('Event()')
        e = E.fresh('ev', EvS)
        s = R.cur()
        E.assume(z3.Not(s.crt_has[e]))          # freshness of the identity
        R.instantiate_inv(dict(ev=[e]))
        R.set(crt_has=z3.Store(s.crt_has, e, True), crt=z3.Store(s.crt, e, me))
        st.setdefault('fresh_events', []).append(e)
        return Obj('AEvent', dict(ident=e))
    ns.attrs['Event'] = VClass('asyncio.Event', ctor=new_event)

    def call_user(E_, f, args, kwargs, node):
        if f is not ctx.func:
            return None
        st['user_calls'] = st.get('user_calls', 0) + 1
        st['user_args'] = (args, kwargs)
        if E.choose([('coroutine', None), ('raises_when_called', None)], 'call of the wrapped function') != 'coroutine':
            # the wrapped callable need not be an `async def`: a plain function that validates its arguments and then
            # returns a coroutine (or an async def called with arguments that do not fit its signature) raises right
            # here, at the call -- an invocation that failed, like any other
            e = my.get('ev')
            access('invoke')
            s = R.cur()
            E.oblige('%s/invoke.never_invoked_again_after_a_success' % Q, z3.Not(s.succeeded), props={'C01', 'C14'})
            E.oblige('%s/invoke.only_while_holding_the_in_flight_marker' % Q,
                     z3.And(z3.BoolVal(e is not None), s.m_has, s.m_ev == e if e is not None else z3.BoolVal(False),
                            s.st[e] == 1 if e is not None else z3.BoolVal(False)), props={'C01'})
            if e is None:
                raise PathEnd()
            R.set(st=z3.Store(s.st, e, 2), live=z3.Store(s.live, e, True))
            st['invoked'] = True
            R.point('task', 'wrapped function raises when called')
            s = R.cur()
            R.set(st=z3.Store(s.st, e, 5), live=z3.Store(s.live, e, False))
            c = E.fresh('user_exc', ClsS)
            E.need_hierarchy()
            E.assume(sub(c, EXC['Exception'].term))
            raise PyExc(VExc(c, (), info={'origin': 'own-invocation'}))
        return aio.mk_awaitable('user_invocation')
    Bn['__call__'] = call_user

    def aw_user(E_, v, node, shielded=False):
        """The wrapped function: ghost open/close of an invocation (DESIGN C01 stub)."""
        e = my.get('ev')
        access('invoke')
        s = R.cur()
        E.oblige('%s/invoke.never_invoked_again_after_a_success' % Q, z3.Not(s.succeeded), props={'C01', 'C14'})
        E.oblige('%s/invoke.only_while_holding_the_in_flight_marker' % Q,
                 z3.And(z3.BoolVal(e is not None), s.m_has, s.m_ev == e if e is not None else z3.BoolVal(False),
                        s.st[e] == 1 if e is not None else z3.BoolVal(False)), props={'C01'})
        if e is None:
            raise PathEnd()
        # "no other invocation is live": lemma over inv from exactly this premise (side conditions)
        R.set(st=z3.Store(s.st, e, 2), live=z3.Store(s.live, e, True))
        st['invoked'] = True
        # the invocation runs: suspends any number of times
        R.point('task', 'await wrapped function')
        s = R.cur()
        tag = E.choose([('return', s.live[e]), ('raise', None), ('cancelled', s.cancel_req[me])], 'invocation outcome')
        if tag == 'return':
            v_ = E.fresh('result', ValS)
            E.oblige('%s/single_flight.no_other_success_while_mine_is_live' % Q, z3.Not(s.succeeded), props={'C01'})
            R.set(st=z3.Store(s.st, e, 3), live=z3.Store(s.live, e, False), succeeded=z3.BoolVal(True),
                  the_result=v_)
            st['own_result'] = v_
            return VVal(v_)
        if tag == 'cancelled' and shielded:
            # the caller's cancellation does not reach a shielded invocation: it stays live
            raise PyExc(E.mk_exc('CancelledError', origin='own-cancel'))
        R.set(st=z3.Store(s.st, e, 5), live=z3.Store(s.live, e, False))
        if tag == 'raise':
            c = E.fresh('user_exc', ClsS)
            E.need_hierarchy()
            E.assume(sub(c, EXC['Exception'].term))
            raise PyExc(VExc(c, (), info={'origin': 'own-invocation'}))
        raise PyExc(E.mk_exc('CancelledError', origin='own-cancel'))
    aio.AWAIT['user_invocation'] = aw_user

    def run_coro_ts(E_, a, k):
        """run_coroutine_threadsafe(coro, loop): RuntimeError('Event loop is closed') iff closed."""
        coro, lp_ = a[0], a[1]
        access('run_coroutine_threadsafe')
        s = R.cur()
        st['proxy'] = (coro, lp_)
        if E.branch(s.closed[lp_.t]):
            st.setdefault('observed_closed', []).append(lp_.t)
            E.throw('RuntimeError', origin='closed-loop')
        return Obj('ConcFuture', dict(coro=coro, loop=lp_))
    Bn[('import', 'asyncio:run_coroutine_threadsafe')] = VStub('asyncio.run_coroutine_threadsafe', run_coro_ts)

    ns.attrs['wrap_future'] = VStub('asyncio.wrap_future', lambda E_, a, k: aio.mk_awaitable(
        'wrapped', inner=a[0]))

    def wait_for(E_, a, k):
        t = a[1]
        if isinstance(a[0], Obj) and a[0].cls == 'Awaitable' and a[0].fields.get('kind') == 'user_invocation':
            E.oblige('%s/invoke.the_own_invocation_is_awaited_without_a_deadline_of_the_caches_own' % Q, z3.BoolVal(False),
                     props={'C06', 'C05', 'C01'},
                     detail='wait_for(func(...), T): a computation that simply takes longer is cancelled by the cache and its '
                            'caller gets a TimeoutError no invocation raised; everybody queued behind takes over and fails '
                            'the same way')
            raise PathEnd()
        return aio.mk_awaitable('wait_for', inner=a[0], timeout=t)
    ns.attrs['wait_for'] = VStub('asyncio.wait_for', wait_for)

    def create_task(E_, a, k):
        st['waiter_of'] = a[0]
        return Obj('WaiterTask', dict(aw=a[0], _done=z3.BoolVal(False), _cancelled=z3.BoolVal(False),
                                      cancel_called=False))
    ns.attrs['create_task'] = VStub('asyncio.create_task', create_task)
    ns.attrs['shield'] = VStub('asyncio.shield', lambda E_, a, k: aio.mk_awaitable('shield', inner=a[0]))
    ns.attrs['current_task'] = VStub('asyncio.current_task', lambda E_, a, k: Obj('CurrentTask'))

    def aw_shield(E_, v, node):
        """await shield(waiter): completes with the waiter's outcome, or raises CancelledError in THIS task
        when this task is cancelled (the waiter keeps running)."""
        w = v.fields['inner']
        if isinstance(w, Obj) and w.cls == 'Awaitable' and w.fields.get('kind') == 'user_invocation':
            # shield(<the wrapped function's coroutine>): the invocation runs in a task of its own; when the
            # CALLER is cancelled the CancelledError surfaces here while the invocation goes on running
            return aw_user(E_, w, node, shielded=True)
        if not (isinstance(w, Obj) and w.cls == 'WaiterTask'):
            raise Unsupported('shield of %r' % (w,), node)
        wiring(w, node)
        st['suspended'] = True
        R.point('task', 'await shield(waiter)')
        s = R.cur()
        tag = E.choose([('done', None), ('timeout', None), ('own_cancel', s.cancel_req[me]),
                        ('waiter_cancelled', None)], 'shield outcome')
        if tag == 'done':
            w.fields['_done'] = z3.BoolVal(True)
            return VBool(True)
        if tag == 'timeout':
            w.fields['_done'] = z3.BoolVal(True)
            stubs.advance(E, exact=stubs._real(st['timeout']))
            E.throw('TimeoutError', origin='waiter')
        if tag == 'own_cancel':
            # my task was cancelled; the shielded waiter may or may not have finished meanwhile
            w.fields['_done'] = E.fresh('waiter_done', B)
            w.fields['_cancelled'] = z3.BoolVal(False)
            E.throw('CancelledError', origin='own-cancel')
        # the waiter itself was cancelled by somebody else (the other loop's shutdown cancelled the proxy);
        # my own task may or may not have a cancellation pending as well
        w.fields['_done'] = z3.BoolVal(True)
        w.fields['_cancelled'] = z3.BoolVal(True)
        st['own_cancel_pending_at_foreign_cancel'] = s.cancel_req[me]
        E.throw('CancelledError', origin='foreign-cancel')
    aio.AWAIT['shield'] = aw_shield

    def aw_waiter(E_, w, node):
        """`await waiter` after waiter.cancel(): CancelledError once it has unwound.  Awaited WITHOUT having been
        cancelled it is still the 60 s wait: the caller (who is here because its own wait was interrupted) would sit
        in it until the computation ends or the safety timeout fires."""
        E.oblige('%s/cancel.an_interrupted_callers_pending_waiter_is_cancelled_before_it_is_awaited' % Q,
                 z3.BoolVal(bool(w.fields['cancel_called']) or z3.is_true(w.fields['_done'])), props={'C05', 'C06'},
                 detail='a cancelled or timed-out caller ends at once, it does not wait for the computation')
        R.point('task', 'await waiter')
        if w.fields['cancel_called']:
            E.throw('CancelledError', origin='cancelled-waiter')
        tag = E.choose([('done', None), ('timeout', None), ('cancelled', None)], 'uncancelled waiter')
        if tag == 'done':
            return VBool(True)
        if tag == 'timeout':
            E.throw('TimeoutError', origin='waiter')
        E.throw('CancelledError', origin='foreign-cancel')
    Bn['__await_ext__'] = lambda E_, v, node, fr: ((aw_waiter(E_, v, node),) if isinstance(v, Obj) and
                                                   v.cls == 'WaiterTask' else None)

    def wiring(w, node):
        """C05: what a waiter blocks on."""
        aw = w.fields['aw']
        ok = isinstance(aw, Obj) and aw.cls == 'Awaitable' and aw.fields['kind'] == 'wait_for'
        if not ok:
            # a different way of waiting may be just as good: not judged here (bounded stand-in decides)
            raise Unsupported('the waiter task does not run wait_for(...): wiring not recognised', node)
        E.oblige('%s/wait.bounded_by_wait_for' % Q, z3.BoolVal(ok), props={'C05'})
        to = aw.fields['timeout']
        st['timeout'] = to
        E.oblige('%s/wait.safety_timeout_at_most_60s' % Q, z3.And(stubs._real(to) > 0, stubs._real(to) <= 60),
                 props={'C05'})
        inner = aw.fields['inner']
        mr = st.get('marker_read')
        s = R.cur()
        me_loop = s.lp[me]
        # C05/C06: a caller only WAITS for a marker whose loop it has seen alive (running and not closed) in the
        # same lock tenure; a stopped or closed computing loop must lead to a take-over, not to a wait
        reads = st.get('liveness_reads', [])
        seen_running = any(k == 'running' and r is True and mr is not None and z3.eq(l, mr[0]) for k, l, r in reads)
        seen_open = any(k == 'closed' and r is False and mr is not None and z3.eq(l, mr[0]) for k, l, r in reads)
        E.oblige('%s/wait.only_for_a_marker_whose_loop_was_observed_running_and_not_closed' % Q,
                 z3.BoolVal(seen_running and seen_open), props={'C05', 'C06'},
                 detail='reads in this iteration: %r' % [(k, r) for k, l, r in reads])
        if isinstance(inner, Obj) and inner.cls == 'Awaitable' and inner.fields['kind'] == 'event_wait':
            # awaited directly: only legal on the marker's own loop
            E.oblige('%s/wait.direct_wait_only_on_the_markers_loop' % Q,
                     z3.And(z3.BoolVal(mr is not None), mr[0] == me_loop if mr else z3.BoolVal(False)), props={'C05'})
            E.oblige('%s/wait.waits_on_the_markers_event' % Q,
                     inner.fields['ev'] == mr[1] if mr else z3.BoolVal(False), props={'C05'})
        elif isinstance(inner, Obj) and inner.cls == 'Awaitable' and inner.fields['kind'] == 'wrapped':
            cf = inner.fields['inner']
            ok2 = isinstance(cf, Obj) and cf.cls == 'ConcFuture'
            if not ok2:
                raise Unsupported('wrap_future of something else than run_coroutine_threadsafe(...)', node)
            E.oblige('%s/wait.cross_loop_wait_is_a_thread_safe_bridge' % Q, z3.BoolVal(ok2), props={'C05'})
            if ok2:
                coro, lp_ = cf.fields['coro'], cf.fields['loop']
                okc = isinstance(coro, Obj) and coro.cls == 'Awaitable' and coro.fields['kind'] == 'event_wait'
                if not okc:
                    raise Unsupported('the proxy coroutine is not event.wait(): wiring not recognised', node)
                E.oblige('%s/wait.proxy_waits_on_the_markers_event' % Q,
                         z3.And(z3.BoolVal(okc and mr is not None),
                                coro.fields['ev'] == mr[1] if (okc and mr) else z3.BoolVal(False)), props={'C05'})
                E.oblige('%s/wait.proxy_runs_on_the_markers_loop' % Q,
                         lp_.t == mr[0] if mr else z3.BoolVal(False), props={'C05'})
        else:
            raise Unsupported('the waiter blocks on %r: wiring not recognised' % (inner,), node)

    # `is` on loops / events already handled by identity of VVal / ident objects
    def mk_kwargs(E_, kwargs):
        if list(kwargs) == ['**']:
            return kwargs['**']
        raise Unsupported('concrete kwargs')
    Bn['__mk_kwargs__'] = mk_kwargs
    Bn['__unpack_kwargs__'] = lambda E_, v, node: {'**': v}

    def kw_attr(E_, o, name, node):
        return None
    # frozenset / items for the key expression
    Bn['frozenset'] = VClass('frozenset', ctor=lambda E_, a, k: _frozenset(E, a))
    return ns


ITEMS_SET = z3.Function('kwargs_items_as_set', ValS, ValS)      # set of (name, value) pairs
ITEMS_SEQ = z3.Function('kwargs_items_in_insertion_order', ValS, ValS)
NAMES_SET = z3.Function('kwargs_names_as_set', ValS, ValS)
VALUES_SEQ = z3.Function('kwargs_values_in_insertion_order', ValS, ValS)
FROZENSET = z3.Function('frozenset_of', ValS, ValS)
TUPLE_OF = z3.Function('tuple_of', ValS, ValS)
SEQ_AS_VAL = z3.Function('tuple_value', z3.SeqSort(ValS), ValS)


def _frozenset(E, a):
    if not a:
        raise Unsupported('frozenset()')
    v = a[0]
    if isinstance(v, Obj) and v.cls == 'KwView':
        k, kw = v.fields['kind'], v.fields['of']
        if k == 'items':
            return VVal(FROZENSET(ITEMS_SET(kw)))
        if k == 'keys':
            return VVal(FROZENSET(NAMES_SET(kw)))
    if isinstance(v, VVal) and isinstance(getattr(v, 't', None), z3.ExprRef) and v.t.sort() == ValS:
        # frozenset(kwargs) iterates the names
        return VVal(FROZENSET(NAMES_SET(v.t)))
    raise Unsupported('frozenset(%r)' % (v,))


# ------------------------------------------------------------------ proof tasks
def engine(E, props):
    # quantified invariants: E-matching only (model-based instantiation makes `sat`-direction checks,
    # i.e. feasibility probes, very slow; they may answer `unknown`, which is treated as feasible)
    z3.set_param('smt.mbqi', False)
    E.feas_timeout_ms = 300
    E.mbqi_retry = True
    stubs.install_all(E)
    aio.install(E)
    E.props_default = frozenset(props)
    E.inline.add('aiuti.asyncio._being_cancelled')

    def _hash(E_, a, k):
        """hash(x): a function of the value (equal values hash alike); NOT injective"""
        terms = []

        def flat(v):
            if isinstance(v, VTuple):
                for i in v.items:
                    flat(i)
            elif isinstance(v, (VVal, VSeq, VInt, VStr, VBool, VReal)):
                terms.append(v.t)
            else:
                raise Unsupported('hash(%r)' % (v,))
        flat(a[0])
        fn = z3.Function('hash_of_' + '_'.join(str(t.sort()) for t in terms).replace(' ', ''),
                         *([t.sort() for t in terms] + [z3.IntSort()]))
        return VInt(fn(*terms))
    E.builtins['hash'] = VStub('hash', _hash)


def t_wrapper(E):
    """_wrapper under rely/guarantee: C01, C05, C06 (and the C14 frame clauses)."""
    engine(E, {'C01', 'C05', 'C06'})
    E.cur_func = Q
    me = z3.Const('me', CallerS)
    opts = {}
    my = {}

    def body():
        opts.clear()
        my.clear()
        ctx = setup_wrapper(E, with_cache_arg=True)
        roles(E, ctx)
        if ctx.cache_obj is None or len(ctx.tables) != 1:
            raise Unsupported('cannot identify cache mapping / one in-flight table in the closure')
        E.oblige('%s/lock.one_creation_lock_is_shared_by_every_call' % Q, z3.BoolVal(ctx.lock_obj is not None),
                 props={'C01', 'C05', 'C06', 'C14'},
                 detail='decorating the function creates no lock for the wrapper to close over: a lock made inside the '
                        'call excludes nobody, two callers on different threads both find no marker and both compute')
        if ctx.lock_obj is None:
            raise PathEnd()
        thread, task = mk_stable(my)
        def terms(s1, s2):
            evs = [s2.m_ev]
            lps = [s2.m_loop, s2.lp[me]]
            if s1 is not None:
                evs.append(s1.m_ev)
                lps += [s1.m_loop]
            if my.get('ev') is not None:
                evs.append(my['ev'])
            evs += opts.get('fresh_events', [])
            mr = opts.get('marker_read')
            if mr:
                evs.append(mr[1])
                lps.append(mr[0])
            lps += opts.get('observed_closed', [])
            return dict(ev=_uniq(evs), loop=_uniq(lps))
        R = rg.RG(E, DECL, inv, MY_ACTIONS, thread, task, me=me, qual=Q, props={'C01', 'C05', 'C06', 'C14'},
                  inv_parts=INV_PARTS, sorts=SORTS, terms=terms)
        R.point_facts = point_facts
        R.hints = lambda: dict(ev=_uniq(([my['ev']] if my.get('ev') is not None else []) +
                                        opts.get('fresh_events', []) + opts.get('set_events', [])))
        R.init_state()
        s0 = R.cur()
        # I am a task running on my loop: it is running, not closed; I hold nothing; I own no attempt yet
        E.assume(z3.And(s0.running[s0.lp[me]], z3.Not(s0.closed[s0.lp[me]]), z3.Not(mine_lock(s0, me)),
                        z3.Not(z3.And(s0.crt_has[s0.m_ev], s0.crt[s0.m_ev] == me))))
        install_wrapper_stubs(E, ctx, R, my, opts)
        w = ctx.wrapper
        hooks_for_loop(E, R, my, opts, me)
        args = E.fresh('args', z3.SeqSort(ValS))
        kw = E.fresh('kwargs', ValS)
        kwobj = VVal(kw)
        E.cover(Q + '/requires')
        E.canary(Q + '/canary@entry')
        res = None
        try:
            res = E.await_(E.call(w, [VStar(args)], {'**': kwobj}), None)
            kind = 'return'
        except PyExc as pe:
            kind = 'raise'
            exc = pe.exc
        R.commit('exit')
        s = R.cur()
        E.cover('%s/exit[%s]' % (Q, kind))
        E.canary('%s/canary@exit[%s]' % (Q, kind))
        # ---- C01 / C06 / C14: what a caller may observe
        if kind == 'return':
            E.oblige(Q + '/ensures.returns_the_one_result_for_the_key',
                     z3.And(z3.BoolVal(isinstance(res, VVal)), s.succeeded,
                            res.t == s.the_result if isinstance(res, VVal) else z3.BoolVal(False)),
                     props={'C01', 'C06', 'C14'})
        else:
            origin = exc.info.get('origin')
            if origin == 'own-invocation':
                # raised by the invocation this very call performed: allowed whatever its class
                E.oblige(Q + '/signals.exception_only_from_the_callers_own_invocation', z3.BoolVal(True), props={'C06'})
                E.oblige(Q + '/ensures.failed_computation_caches_nothing',
                         z3.Implies(s.c_has, s.succeeded), props={'C06'})
            else:
                isc = E.exc_isinstance(exc, EXC['CancelledError'])
                if isc is True or (not isinstance(isc, bool) and E.branch(isc)):
                    E.oblige(Q + '/signals.CancelledError_only_when_the_callers_own_task_was_cancelled',
                             s.cancel_req[me], props={'C06', 'C05'}, detail='origin: %s' % origin)
                else:
                    E.oblige(Q + '/signals.exception_only_from_the_callers_own_invocation',
                             z3.BoolVal(False), props={'C06', 'C05', 'C14', 'C01'} if origin == 'evicted-after-own-store' else
                             {'C06', 'C05', 'C01'}, detail='origin: %s (a caller whose wait ended '
                             'without a result must loop around and recover, not fail)' % origin)
        # ---- C05: no marker outlives its computation; waiters are woken
        if my.get('ev') is not None:
            e_ = my['ev']
            E.oblige(Q + '/ensures.own_event_set_on_every_exit[%s]' % kind, s.ev_set[e_], props={'C05', 'C06'},
                     detail='waiters of a computation that ended (also one whose marker was taken over) must be woken, not left to the 60 s safety timeout')
            E.oblige(Q + '/ensures.own_marker_removed_on_every_exit[%s]' % kind,
                     z3.Not(z3.And(s.m_has, s.m_ev == e_)), props={'C05', 'C01', 'C14', 'C06'},
                     detail='a marker that outlives its computation makes later callers (e.g. after an eviction) wait for '
                            'a computation that is over')
        E.oblige(Q + '/ensures.lock_not_held_at_exit', z3.Not(mine_lock(s, me)), props={'C05'})
        # ---- C14 frame: the wrapped function gets exactly (*args, **kwargs)
        if opts.get('user_calls'):
            ua, uk = opts['user_args']
            ok = len(ua) == 1 and isinstance(ua[0], VStar) and z3.eq(ua[0].seq, args) and \
                list(uk) == ['**'] and uk['**'] is kwobj
            E.oblige(Q + '/frame.wrapped_function_called_with_exactly_the_callers_arguments', z3.BoolVal(ok),
                     props={'C14'})
            E.oblige(Q + '/frame.at_most_one_invocation_per_call', z3.BoolVal(opts['user_calls'] == 1),
                     props={'C01'})
    E.run_paths(body)


def _uniq(ts):
    out = []
    for t in ts:
        if not any(z3.eq(t, u) for u in out):
            out.append(t)
    return out


def hooks_for_loop(E, R, my, opts, me):
    def loop0(E_, stn, fr, kind, src):
        """`while True` of _wrapper: at the head the caller holds nothing and owns no live attempt."""
        def invf(tag):
            s = R.cur()
            return [('holds_no_lock', z3.Not(mine_lock(s, me))),
                    ('owns_no_attempt', z3.BoolVal(my.get('ev') is None))]

        def havoc():
            R.point('thread', 'loop head')
            for n in ('caching_loop', 'event', 'do_caching', 'wait_event', 'wait_fut', 'waiter', 'result'):
                fr.env.pop(n, None)
            opts['suspended'] = False
            opts.pop('own_cancel_pending_at_foreign_cancel', None)
            opts['observed_closed'] = []
            opts['liveness_reads'] = []
            opts.pop('marker_read', None)

        def step():
            # a back-edge ends a segment of the caller's own steps: whatever it changed since the last interference
            # point must be a declared action, like everywhere else
            R.point('thread', 'loop back-edge')
            # C05 "no spinning": a back-edge must be preceded by a suspended wait, or by having seen the
            # marker's loop CLOSED (permanent, so the next locked block takes over)
            pend = opts.pop('own_cancel_pending_at_foreign_cancel', None)
            if pend is not None:
                # the wait ended with the cancellation of the shielded waiter (the other loop went away): the caller
                # loops around -- unless its OWN task has a cancellation pending as well, which it must honour
                E.oblige(Q + '/cancel.own_pending_cancellation_is_never_swallowed_with_a_foreign_one', z3.Not(pend),
                         props={'C06'}, detail='a call whose task was cancelled ends cancelled')
            mr = opts.get('marker_read')
            spun = not opts.get('suspended')
            if spun:
                oc = opts.get('observed_closed') or []
                E.oblige(Q + '/progress.back_edge_only_after_a_wait_or_a_closed_marker_loop',
                         z3.Or(*[l == mr[0] for l in oc]) if (oc and mr) else z3.BoolVal(False), props={'C05'})
        E.cut_loop(stn, fr, invf, havoc, label='retry', step=step)
    E.hooks[(Q, 'loop', 0)] = loop0


def t_side(E):
    """Side conditions of the rely/guarantee method for the cache contract (pure SMT)."""
    engine(E, {'C01', 'C05', 'C06'})
    E.cur_func = Q + '#side'

    def body():
        my = {}
        thread, task = mk_stable(my)
        thread = rg.q_stable(thread, SORTS)
        task = rg.q_stable(task, SORTS)
        rg.side_conditions(
            E, DECL, inv, MY_ACTIONS, other_actions(), thread, task, qual=Q, props={'C01', 'C05', 'C06', 'C14'},
            mk_me=lambda E_: z3.Const('me', CallerS), mk_other=lambda E_: z3.Const('other', CallerS),
            distinct=lambda a, b: a != b)
        # property-level lemmas over the invariant
        s = St({n: E.fresh(n + '_l', srt) for n, srt in DECL.items()})
        e1, e2 = z3.Consts('e1 e2', EvS)
        E.oblige('C01/lemma.single_flight_never_two_live_invocations',
                 z3.Implies(z3.And(inv(s), s.live[e1], s.live[e2]), e1 == e2), props={'C01'})
        ex = z3.Const('ex', EvS)
        E.oblige('C01/lemma.no_invocation_is_live_when_one_is_about_to_start',
                 z3.Implies(z3.And(inv(s), s.m_has, s.m_ev == e1, s.st[e1] == 1), z3.Not(s.live[ex])), props={'C01'})
        E.oblige('C01/lemma.after_success_result_is_cached_or_being_finalised',
                 z3.Implies(z3.And(inv(s), s.succeeded),
                            z3.Or(z3.And(s.c_has, s.c_val == s.the_result), z3.And(s.m_has, s.st[s.m_ev] == 3))),
                 props={'C01'})
    E.run_paths(body)


def t_keys(E):
    """C14: key construction and the identity of the store."""
    engine(E, {'C14'})
    E.cur_func = Q

    class _Stop(Exception):
        pass

    def one_key(ctx, args, kw):
        got = {}

        def getitem(E_, o, k, node):
            if o is ctx.cache_obj:
                got['key'] = k
                raise _Stop()
            return None
        E.builtins['__getitem__'] = getitem
        E.builtins['__contains__'] = lambda E_, o, k, node: getitem(E_, o, k, node) if o is ctx.cache_obj else None
        try:
            E.await_(E.call(ctx.wrapper, [VStar(args)], {'**': VVal(kw)}), None)
        except _Stop:
            pass
        return got.get('key')

    def body():
        for with_arg in (True, False):
            ctx = setup_wrapper(E, with_cache_arg=with_arg)
            roles(E, ctx)
            if with_arg:
                # an EMPTY (falsy) caller-supplied mapping must still be THE store
                E.oblige(OUTER + '/ensures.caller_supplied_mapping_is_the_store',
                         z3.BoolVal(ctx.cache_obj is ctx.cache_arg), props={'C14', 'C15'},
                         detail='`cache or {}` would replace an empty mapping')
                E.oblige(OUTER + '/ensures.no_second_store', z3.BoolVal(len(ctx.tables) == 1), props={'C14'})
            else:
                E.oblige(OUTER + '/ensures.default_store_is_a_fresh_dict',
                         z3.BoolVal(ctx.cache_obj is not None and len(ctx.tables) == 1), props={'C14'})
                # ... fresh PER DECORATED FUNCTION: a second function decorated without a cache gets its own store (a
                # mutable default in the signature would be one dict shared by all of them)
                ctx2 = setup_wrapper(E, with_cache_arg=False)
                roles(E, ctx2)
                def dicts_of(c):
                    out, fr_ = [], c.closure
                    while fr_ is not None:
                        out += [v for v in fr_.env.values() if isinstance(v, Obj) and v.cls == 'PyDict']
                        fr_ = fr_.parent
                    return out
                shared = [d for d in dicts_of(ctx) if any(d is d2 for d2 in dicts_of(ctx2))]
                E.oblige(OUTER + '/ensures.default_store_is_not_shared_between_decorated_functions',
                         z3.BoolVal(not shared), props={'C14', 'C06'},
                         detail='%d dict object(s) are visible from the closures of two separately decorated functions'
                                % len(shared))
        if ctx.cache_obj is None:
            raise PathEnd()
        ns = E.builtins[('import', 'asyncio')]
        ns.attrs['get_running_loop'] = VStub('asyncio.get_running_loop', lambda E_, a, k: E.fresh_val('loop', LoopS))
        E.builtins['__mk_kwargs__'] = lambda E_, kwargs: kwargs['**']
        E.builtins['frozenset'] = VClass('frozenset', ctor=lambda E_, a, k: _frozenset(E, a))
        E.builtins['tuple'] = VClass('tuple', ctor=lambda E_, a, k: _tuple(E, a))
        E.builtins['sorted'] = VStub('sorted', lambda E_, a, k: _unsupp('sorted() of kwargs items'))

        def attr(E_, o, name, node):
            if isinstance(o, VVal) and o.t.sort() == ValS and name in ('items', 'keys', 'values'):
                return VStub('dict.' + name, lambda E_, a, k: Obj('KwView', dict(kind=name, of=o.t)))
            return None
        E.builtins['__getattr__'] = attr

        def binop(E_, op, a, b, node):
            import ast as _ast
            if isinstance(op, _ast.Add) and isinstance(a, VSeq) and isinstance(b, VVal):
                return VVal(z3.Function('tuple_concat', z3.SeqSort(ValS), ValS, ValS)(a.t, b.t))
            return None
        E.builtins['__binop__'] = binop
        E.hooks[(Q, 'loop', 0)] = lambda E_, stn, fr, kind, src: E.block(stn.body, fr)   # stops at first lookup
        S_ = z3.SeqSort(ValS)
        a1, a2 = E.fresh('args1', S_), E.fresh('args2', S_)
        k1, k2 = E.fresh('kw1', ValS), E.fresh('kw2', ValS)
        key1 = one_key(ctx, a1, k1)
        key2 = one_key(ctx, a2, k2)
        E.cover(Q + '/requires')
        E.canary(Q + '/canary@entry')
        if key1 is None or key2 is None:
            raise Unsupported('no lookup in the cache mapping reached')
        # theory of the constructors (assumed facts about Python values):
        #   frozenset is extensional, tuple equality is element-wise in order; the item SET of a keyword
        #   dict forgets insertion order, its item SEQUENCE does not; names alone forget the values
        same_call = z3.And(a1 == a2, ITEMS_SET(k1) == ITEMS_SET(k2))
        E.assume(z3.And(
            (FROZENSET(ITEMS_SET(k1)) == FROZENSET(ITEMS_SET(k2))) == (ITEMS_SET(k1) == ITEMS_SET(k2)),
            (FROZENSET(NAMES_SET(k1)) == FROZENSET(NAMES_SET(k2))) == (NAMES_SET(k1) == NAMES_SET(k2)),
            (TUPLE_OF(ITEMS_SEQ(k1)) == TUPLE_OF(ITEMS_SEQ(k2))) == (ITEMS_SEQ(k1) == ITEMS_SEQ(k2)),
            (TUPLE_OF(VALUES_SEQ(k1)) == TUPLE_OF(VALUES_SEQ(k2))) == (VALUES_SEQ(k1) == VALUES_SEQ(k2)),
            z3.Implies(ITEMS_SEQ(k1) == ITEMS_SEQ(k2), ITEMS_SET(k1) == ITEMS_SET(k2)),
            z3.Implies(ITEMS_SET(k1) == ITEMS_SET(k2), NAMES_SET(k1) == NAMES_SET(k2)),
            z3.Implies(ITEMS_SEQ(k1) == ITEMS_SEQ(k2), VALUES_SEQ(k1) == VALUES_SEQ(k2))))
        E.used('assume: ==/hash of argument values are consistent; frozenset extensional; tuple == element-wise')
        eqk = E.eq(key1, key2)
        eqk = z3.BoolVal(eqk) if isinstance(eqk, bool) else eqk
        E.oblige(Q + '/key.equal_calls_share_an_entry', z3.Implies(same_call, eqk), props={'C14', 'C01'},
                 detail='positional equal in order and keywords equal as a set of pairs => same key')
        E.oblige(Q + '/key.different_calls_never_share', z3.Implies(eqk, same_call), props={'C14', 'C06'},
                 detail='same key => positional equal in order and keywords equal as a set of pairs')
    E.run_paths(body)


def _tuple(E, a):
    v = a[0]
    if isinstance(v, Obj) and v.cls == 'KwView':
        k, kw = v.fields['kind'], v.fields['of']
        return VVal(TUPLE_OF({'items': ITEMS_SEQ, 'values': VALUES_SEQ}[k](kw))) if k in ('items', 'values') \
            else _unsupp('tuple(keys)')
    if isinstance(v, VSeq):
        return v
    raise Unsupported('tuple(%r)' % (v,))


def _unsupp(m):
    raise Unsupported(m)


TASKS = {
    'cache._wrapper': (t_wrapper, {'C01', 'C05', 'C06', 'C14'}),
    'cache.side_conditions': (t_side, {'C01', 'C05', 'C06', 'C14'}),
    'cache.keys': (t_keys, {'C14', 'C01', 'C06'}),
}
