"""
Sidecar contracts for AsyncBackgroundBatcher (C04, C09, C10, C11).

A task tuple is an opaque Val with projections  tt_key : String, tt_arg : Val, tt_fut : Fut.
Future state lives in the world arrays fut_state / fut_val (pyvc.aio).  Universally quantified
postconditions ("every caller ...") are proved POINTWISE for one arbitrary task of the batch
(index i0, key k0, future f0): the code touches the maps at other indices only through operations
whose frame is part of their stub contract.
"""
import ast
import z3

from pyvc.values import *  # noqa: F401,F403
from pyvc.engine import PyExc, PathEnd, Unsupported, Frame, _Return, _Break, _Continue
from pyvc import stubs, aio
from pyvc.aio import (LoopS, FutS, VS, is_exc, cls_of, fut_world, PENDING, RESULT, EXCEPTION, CANCELLED,
                      val_of_exc, suspend)
from pyvc.stubs import wget, now, advance, _real

MOD = 'aiuti.asyncio'
CLS = 'AsyncBackgroundBatcher'
S = z3.StringSort()
B = z3.BoolSort()
I = z3.IntSort()
tt_key = z3.Function('tt_key', ValS, S)
tt_arg = z3.Function('tt_arg', ValS, ValS)
tt_fut = z3.Function('tt_fut', ValS, FutS)
mk_tt = z3.Function('mk_tt', S, ValS, FutS, ValS)
pair_key = z3.Function('yielded_key', ValS, S)
pair_res = z3.Function('yielded_result', ValS, ValS)
ARGS_OF = z3.Function('key_arg_projection', VS, ValS)      # [t[:2] for t in tasks]
str_val = z3.Function('str_as_val', S, ValS)


def method(E, name):
    mod = E.modules[MOD]
    ci = mod.classes.get(CLS)
    if ci is None:
        raise Unsupported('%s no longer exists' % CLS)
    c, m = ci.find(name)
    if m is None:
        raise Unsupported('method %s.%s no longer exists' % (CLS, name))
    return VFunc(m, None, c.module, '%s.%s.%s' % (MOD, c.name, name), cls=c)


def engine(E, props):
    stubs.install_all(E)
    aio.install(E)
    aio.install_objects(E)
    E.props_default = frozenset(props)


def fut_obj(f):
    return Obj('AFuture', dict(ident=f, fut=f))


def is_exception_instance(v):
    """isinstance(v, Exception) for an opaque value."""
    return z3.And(is_exc(v), sub(cls_of(v), EXC['Exception'].term))


# ------------------------------------------------------------------ _process_batch (C04, C09)
def t_process_batch(E, cancellable=False):
    props = {'C09'} if cancellable else {'C04'}
    engine(E, props)
    f = method(E, '_process_batch')
    E.cur_func = f.qualname
    tagq = f.qualname + ('[cancellation in the rely]' if cancellable else '')
    st = {}

    def futures_may_complete_elsewhere():
        """C09 rely: at a suspension, callers may be cancelled; with the shield in __call__ that no longer
        touches the shared futures -- but a future may still be done for reasons outside this function
        (anything holding the future): every set_* must establish its own precondition."""
        if not cancellable:
            return
        stt, val = fut_world(E)
        new = E.fresh('fut_state', z3.ArraySort(FutS, I))
        f0 = st['f0']
        # monotone: done futures stay done with their value; pending ones may have become cancelled
        E.assume(z3.If(z3.Select(stt, f0) == PENDING,
                       z3.Or(z3.Select(new, f0) == PENDING, z3.Select(new, f0) == CANCELLED),
                       z3.Select(new, f0) == z3.Select(stt, f0)))
        g = st.get('g')
        if g is not None:
            E.assume(z3.If(z3.Select(stt, g) == PENDING,
                           z3.Or(z3.Select(new, g) == PENDING, z3.Select(new, g) == CANCELLED),
                           z3.Select(new, g) == z3.Select(stt, g)))
        E.w['fut_state'] = new
        st['cancelled_by_env'] = True

    def install(o, tasks):
        Bn = E.builtins
        E.need_hierarchy()
        E.await_hook = lambda E_, what, node: futures_may_complete_elsewhere()

        def getslice(E_, v, lo, hi, node):
            if isinstance(v, VVal) and v.t.sort() == ValS and lo is None and isinstance(hi, VInt) and hi.concrete() == 2:
                return VTuple([VStr(tt_key(v.t)), VVal(tt_arg(v.t))])
            return None
        Bn['__getslice__'] = getslice

        def unpack(E_, v, node):
            if isinstance(v, VVal) and v.t.sort() == ValS and v.t.decl().name().startswith('stream_elem'):
                return [VStr(pair_key(v.t)), VVal(pair_res(v.t))]
            if isinstance(v, VVal) and v.t.sort() == ValS:
                return [VStr(tt_key(v.t)), VVal(tt_arg(v.t)), fut_obj(tt_fut(v.t))]
            return None
        Bn['__unpack_ext__'] = unpack

        def comprehension(E_, node, fr, kind, src):
            if not (isinstance(src, VSeq) and z3.eq(src.t, tasks)):
                raise Unsupported('comprehension over something else than the batch', node)
            g = node.generators[0]
            j = E.fresh('j', I)
            E.assume(z3.And(j >= 0, j < z3.Length(tasks)))
            f2 = Frame(fr.func, fr.module, fr, fr.qualname)
            E.assign(g.target, VVal(tasks[j]), f2)
            if kind == 'list':
                el = E.eval(node.elt, f2)
                ok = isinstance(el, VTuple) and len(el.items) == 2 and isinstance(el.items[0], VStr) and \
                    isinstance(el.items[1], VVal)
                E.oblige(tagq + '/args.each_item_is_the_(key,arg)_of_its_task',
                         z3.And(z3.BoolVal(ok), el.items[0].t == tt_key(tasks[j]) if ok else z3.BoolVal(False),
                                el.items[1].t == tt_arg(tasks[j]) if ok else z3.BoolVal(False)), props={'C04', 'C10'})
                st['args'] = VVal(ARGS_OF(tasks))
                return st['args']
            if kind == 'dict':
                k = E.eval(node.key, f2)
                v = E.eval(node.value, f2)
                ok = isinstance(k, VStr) and isinstance(v, Obj) and v.cls == 'AFuture'
                E.oblige(tagq + '/futs.maps_each_tasks_key_to_its_own_future',
                         z3.And(z3.BoolVal(ok), k.t == tt_key(tasks[j]) if ok else z3.BoolVal(False),
                                v.fields['fut'] == tt_fut(tasks[j]) if ok else z3.BoolVal(False)), props=props)
                d = Obj('FutMap')
                has = E.fresh('d_has', z3.ArraySort(S, B))
                val = E.fresh('d_val', z3.ArraySort(S, FutS))
                # denotation of {key(t): fut(t) for t in tasks} with pairwise distinct keys (precondition),
                # instantiated at the arbitrary task i0 and at "some other" task i1
                for i in (st['i0'], st['i1']):
                    E.assume(z3.And(z3.Select(has, tt_key(tasks[i])), z3.Select(val, tt_key(tasks[i])) == tt_fut(tasks[i])))
                E.w['d_has'], E.w['d_val'] = has, val
                st['d_has0'] = has
                st['futs'] = d
                return d
            raise Unsupported('comprehension kind %s' % kind, node)
        Bn['__comprehension__'] = comprehension

        def in_batch(k):
            """k is the key of some task of the batch (initial presence in futs)."""
            return z3.Select(st['d_has0'], k)

        def futmap_attr(E_, obj, name, node):
            if isinstance(obj, Obj) and obj.cls == 'FutMap':
                if name == 'pop':
                    def pop(E_, a, k):
                        key = a[0]
                        if not isinstance(key, VStr):
                            raise Unsupported('futs.pop(non-string)', node)
                        has, val = E.w['d_has'], E.w['d_val']
                        if not E.branch(z3.Select(has, key.t)):
                            if len(a) > 1:
                                return a[1]
                            E.throw('KeyError', origin='unknown-or-repeated-key')
                        g = z3.Select(val, key.t)
                        E.w['d_has'] = z3.Store(has, key.t, False)
                        # distinct tasks have distinct futures (precondition), instantiated for (key, k0)
                        E.assume(z3.Implies(key.t != st['k0'], g != st['f0']))
                        if not cancellable:
                            # loop invariant (proved for an arbitrary key) instantiated at this key:
                            # a still registered future is pending
                            E.assume(z3.Select(fut_world(E)[0], g) == PENDING)
                        st['g'] = g
                        st.setdefault('popped', []).append((key.t, g))
                        return fut_obj(g)
                    return VStub('dict.pop', pop)
                if name in ('values', 'items', 'keys'):
                    return VStub('dict.' + name, lambda E_, a, k: Obj('FutMapView', dict(kind=name, of=obj)))
                if name == 'popitem':
                    raise Unsupported('futs.popitem(): arbitrary matching', node)
            if isinstance(obj, Obj) and obj.cls == 'AFuture':
                fu = obj.fields['fut']
                if name == 'done':
                    return VStub('Future.done', lambda E_, a, k: VBool(z3.Select(fut_world(E)[0], fu) != PENDING))
                if name in ('set_result', 'set_exception'):
                    def setter(E_, a, k):
                        stt, val = fut_world(E)
                        if not E.branch(z3.Select(stt, fu) == PENDING):
                            E.throw('InvalidStateError', origin='set-on-done-future')
                        x = a[0]
                        if isinstance(x, VExc):
                            xv = val_of_exc(E, x)
                            code = {'batch-function': 1, 'unknown-or-repeated-key': 2, None: 3}.get(
                                x.info.get('origin'), 4)
                            st['f0_origin'] = z3.If(fu == st['f0'], z3.IntVal(code), st['f0_origin'])
                        elif isinstance(x, VVal):
                            xv = x.t
                        else:
                            raise Unsupported('future value %r' % (x,), node)
                        if name == 'set_exception':
                            E.oblige(tagq + '/pre(set_exception).value_is_an_exception', is_exc(xv), props=props)
                        E.w['fut_state'] = z3.Store(stt, fu, RESULT if name == 'set_result' else EXCEPTION)
                        E.w['fut_val'] = z3.Store(val, fu, xv)
                        st.setdefault('sets', []).append((fu, name, xv))
                        return NONE
                    return VStub('Future.' + name, setter)
            return None
        Bn['__getattr_ext__'] = futmap_attr
        Bn['__truth__'] = lambda E_, v: (_nonempty(E, st) if isinstance(v, Obj) and v.cls == 'FutMap' else None)
        Bn['__len__'] = lambda E_, v: (VInt(E.fresh('n', I)) if isinstance(v, (VVal, Obj)) else None)

        def call_user(E_, fobj, args, kwargs, node):
            if fobj is st['func']:
                st['func_args'] = args
                E.oblige(tagq + '/call.batch_function_is_called_inside_the_semaphore', z3.BoolVal(bool(st.get('in_sem'))),
                         props={'C10', 'C15'}, detail='a batch callable that starts its work when called must not '
                                                      'start before a concurrency slot is free')
                # an async generator function only starts running at its first step; a plain callable that returns
                # the result stream may well raise right here (it validates its batch): an exception raised by the
                # batch function like any other
                if E.choose([('stream', None), ('raises_when_called', None)], 'batch function call') != 'stream':
                    c = E.fresh('batch_exc', ClsS)
                    E.need_hierarchy()
                    E.assume(sub(c, EXC['Exception'].term))
                    ex = VExc(c, (), info={'origin': 'batch-function'})
                    st['batch_exc'] = val_of_exc(E, ex)
                    st['raised_at_call_in_sem'] = bool(st.get('in_sem'))
                    raise PyExc(ex)
                return Obj('UserStream')
            return None
        Bn['__call__'] = call_user

        def with_(E_, cm, is_async, node):
            if isinstance(cm, Obj) and cm.cls == 'ASemaphore':
                def enter():
                    suspend(E, 'semaphore.acquire', node)
                    E.effect('sem.acquire', cm)
                    st['in_sem'] = True
                    return NONE

                def exit_(exc):
                    E.effect('sem.release', cm)
                    st['in_sem'] = False
                    return False
                return enter, exit_
            return None
        Bn['__with_ext__'] = with_

        def sem_attr(E_, obj, name, node):
            # explicit calls on the semaphore besides `async with`: asyncio.Semaphore is unbounded, a release() too many
            # is a permit too many from then on
            if name == 'locked':
                return VStub('Semaphore.locked', lambda E_, a, k: VBool(E.fresh('all_slots_busy', z3.BoolSort())))
            if name == 'release':
                return VStub('Semaphore.release', lambda E_, a, k: (E.effect('sem.release', obj), NONE)[1])
            if name == 'acquire':
                def acq(E_, a, k):
                    E.effect('sem.acquire', obj)
                    return aio.mk_awaitable('ready_true')
                return VStub('Semaphore.acquire', acq)
            return None
        Bn[('attr', 'ASemaphore')] = sem_attr
        aio.AWAIT['ready_true'] = lambda E_, v, node: VBool(True)

    def _nonempty(E_, st_):
        ne = E.fresh('futs_nonempty', B)
        E.assume(z3.Implies(z3.Select(E.w['d_has'], st_['k0']), ne))
        return ne

    # ---- loops ------------------------------------------------------------------------------------
    def loop_stream(E_, stn, fr, kind, src):
        """`async for key, result in self.func(args)`: the batch function yields ANY stream (unknown keys,
        repeated keys, any order, any values) and then ends or raises an Exception."""
        if not (isinstance(src, Obj) and src.cls == 'UserStream'):
            raise Unsupported('async for over %r' % (src,), stn)
        f0, k0 = st['f0'], st['k0']
        E.oblige(tagq + '/call.batch_function_runs_inside_the_semaphore', z3.BoolVal(bool(st.get('in_sem'))),
                 props={'C10', 'C15'})
        fa = st.get('func_args') or []
        E.oblige(tagq + '/call.batch_function_gets_the_(key,arg)_list_of_the_batch',
                 z3.BoolVal(len(fa) == 1 and fa[0] is st.get('args')), props={'C04', 'C10'})

        def inv(tag):
            stt, val = fut_world(E)
            has, dv = E.w['d_has'], E.w['d_val']
            ans = st['ans0']
            s0 = z3.Select(stt, f0)
            out = [
                ('unanswered_task_is_still_registered_and_pending',
                 z3.Implies(z3.Select(has, k0), z3.And(z3.Select(dv, k0) == f0,
                                                       s0 == PENDING if not cancellable else
                                                       z3.Or(s0 == PENDING, s0 == CANCELLED)))),
                ('answered_task_holds_its_own_keys_element',
                 z3.Implies(z3.Not(z3.Select(has, k0)),
                            z3.Or(z3.And(s0 == z3.If(is_exception_instance(ans), EXCEPTION, RESULT),
                                         z3.Select(val, f0) == ans, st['ans0_key'] == k0),
                                  s0 == CANCELLED if cancellable else z3.BoolVal(False)))),
                ('registry_only_shrinks', z3.Implies(z3.Select(has, k0), z3.Select(st['d_has0'], k0))),
            ]
            return out

        def havoc():
            E.w['d_has'] = E.fresh('d_has', z3.ArraySort(S, B))
            E.w['fut_state'] = E.fresh('fut_state', z3.ArraySort(FutS, I))
            E.w['fut_val'] = E.fresh('fut_val', z3.ArraySort(FutS, ValS))
            st['ans0'] = E.fresh('ans0', ValS)
            st['ans0_key'] = E.fresh('ans0_key', S)
            st['g'] = None

        def test():
            # the generator is resumed: suspension; then it yields, ends, or raises
            suspend(E, 'batch function step', stn)
            tag = E.choose([('yield', None), ('end', None), ('raise', None)], 'batch function')
            if tag == 'raise':
                c = E.fresh('batch_exc', ClsS)
                E.assume(sub(c, EXC['Exception'].term))
                ex = VExc(c, (), info={'origin': 'batch-function'})
                st['batch_exc'] = val_of_exc(E, ex)
                targets_after_the_stream()
                raise PyExc(ex)
            return tag == 'yield'

        def targets_after_the_stream():
            # when the loop is left (the stream ended or failed) its targets hold the LAST element -- if there was one: a
            # batch function may yield nothing, or fail before its first result
            from pyvc.engine import _stored_names
            names = _stored_names([stn.target])
            if not all(nm in fr.loop_assigned for nm in names):
                return
            if E.choose([('yielded_nothing', None), ('yielded_something', None)], 'stream length') == 'yielded_something':
                E.assign(stn.target, VVal(E.fresh('stream_elem_last', ValS)), fr)
            for nm in names:
                fr.loop_assigned.discard(nm)

        def bind():
            el = E.fresh('stream_elem', ValS)
            st['elem'] = el
            # ghost: remember the element that answers k0 (the FIRST one with that key)
            pre_has = z3.Select(E.w['d_has'], k0)
            st['ans0'] = z3.If(z3.And(pre_has, pair_key(el) == k0), pair_res(el), st['ans0'])
            st['ans0_key'] = z3.If(z3.And(pre_has, pair_key(el) == k0), pair_key(el), st['ans0_key'])
            E.assign(stn.target, VVal(el), fr)
        def on_exit(how):
            if how == 'exit':
                targets_after_the_stream()
        E.cut_loop(stn, fr, inv, havoc, test=test, bind=bind, label='stream', on_exit=on_exit)

    def loop_foreach(E_, stn, fr, kind, src):
        """`for fut in futs.values()` / `for key, fut in futs.items()`: every registered future is visited
        once; pointwise rule for the arbitrary future f0 (visited iff k0 is still registered)."""
        if not (isinstance(src, Obj) and src.cls == 'FutMapView'):
            raise Unsupported('for over %r' % (src,), stn)
        f0, k0 = st['f0'], st['k0']
        has, dv = E.w['d_has'], E.w['d_val']
        which = E.choose([('visit_f0', z3.Select(has, k0)), ('visit_other', None), ('none', None)], 'for-each')
        if which == 'none':
            E.assume(z3.Not(z3.Select(has, k0)))      # nothing left that concerns f0
            return
        if which == 'visit_f0':
            k, g = k0, f0
        else:
            k = E.fresh('other_key', S)
            g = z3.Select(dv, k)
            E.assume(z3.And(z3.Select(has, k), k != k0, g != f0))
            if not cancellable:
                # the loop invariant holds for EVERY key (it was proved for an arbitrary one): instance at k
                E.assume(z3.Select(fut_world(E)[0], g) == PENDING)
        before = fut_world(E)
        item = fut_obj(g) if src.fields['kind'] == 'values' else VTuple([VStr(k), fut_obj(g)])
        E.assign(stn.target, item, fr)
        try:
            E.block(stn.body, fr)
        except (_Break, _Continue):
            raise Unsupported('break/continue in the fan-out loop', stn)
        stt, val = fut_world(E)
        E.oblige(tagq + '/foreach.visited_future_is_done_afterwards', z3.Select(stt, g) != PENDING, props=props)
        if which == 'visit_other':
            E.oblige(tagq + '/foreach.other_futures_untouched',
                     z3.And(z3.Select(stt, f0) == z3.Select(before[0], f0),
                            z3.Select(val, f0) == z3.Select(before[1], f0)), props=props)
            # the remaining iterations behave likewise (each is an instance of the two cases above):
            # after the loop f0, if registered, has been visited
            new = E.fresh('fut_state', z3.ArraySort(FutS, I))
            newv = E.fresh('fut_val', z3.ArraySort(FutS, ValS))
            E.assume(z3.Implies(z3.Not(z3.Select(has, k0)),
                                z3.And(z3.Select(new, f0) == z3.Select(stt, f0),
                                       z3.Select(newv, f0) == z3.Select(val, f0))))
            raise PathEnd()      # the f0-relevant continuation is the 'visit_f0' / 'none' alternative
    hooks = {0: loop_stream, 1: loop_foreach, 2: loop_foreach}
    for n, h in hooks.items():
        E.hooks[(f.qualname, 'loop', n)] = h

    def body():
        st.clear()
        mod = E.modules[MOD]
        o = Obj(mod.classes[CLS])
        func = Obj('callable', tag='batchfn')
        st['func'] = func
        sem = Obj('ASemaphore', dict(value=E.fresh_int('permits')))
        o.fields.update(func=func, _semaphore=sem)
        tasks = E.fresh('tasks', VS)
        i0, i1 = E.fresh('i0', I), E.fresh('i1', I)
        st['i0'], st['i1'] = i0, i1
        n = z3.Length(tasks)
        E.assume(z3.And(i0 >= 0, i0 < n, i1 >= 0, i1 < n))
        k0, f0 = tt_key(tasks[i0]), tt_fut(tasks[i0])
        st['k0'], st['f0'] = k0, f0
        st['ans0'] = E.fresh('ans0', ValS)
        st['ans0_key'] = E.fresh('ans0_key', S)
        st['f0_origin'] = z3.IntVal(0)
        # requires: keys pairwise distinct, futures pairwise distinct, all pending (instances at i0, i1)
        E.assume(z3.Implies(i0 != i1, z3.And(tt_key(tasks[i0]) != tt_key(tasks[i1]),
                                             tt_fut(tasks[i0]) != tt_fut(tasks[i1]))))
        stt, val = fut_world(E)
        E.assume(z3.Select(stt, f0) == PENDING)
        install(o, tasks)
        E.cover(tagq + '/requires')
        E.canary(tagq + '/canary@entry')
        try:
            E.await_(E.call(f, [o, VSeq(tasks, VVal)], {}), None)
            kind = 'return'
        except PyExc as pe:
            kind = 'raise'
            exc = pe.exc
        stt, val = fut_world(E)
        s0 = z3.Select(stt, f0)
        E.cover('%s/exit[%s]' % (tagq, kind))
        E.canary('%s/canary@exit[%s]' % (tagq, kind))
        if kind == 'raise':
            from pyvc.engine import _known_cls
            E.oblige(tagq + '/signals.nothing_escapes_the_batch_task', z3.BoolVal(False), props=props,
                     detail='exception %s (origin %s) kills the batch task' % (
                         _known_cls(exc.cls) or exc.cls, exc.info.get('origin')))
            return
        # ---- ensures (pointwise, arbitrary task i0 of the batch)
        E.oblige(tagq + '/ensures.every_future_of_the_batch_is_done_at_exit', s0 != PENDING, props=props,
                 detail='a pending future at exit is a caller that hangs')
        ans = st['ans0']
        has = E.w['d_has']
        answered_from_stream = z3.And(st['ans0_key'] == k0, s0 != CANCELLED,
                                      z3.Select(val, f0) == ans,
                                      s0 == z3.If(is_exception_instance(ans), EXCEPTION, RESULT))
        fo = st['f0_origin']
        errored = z3.And(s0 == EXCEPTION, is_exc(z3.Select(val, f0)), z3.Or(fo == 1, fo == 2, fo == 3))
        E.oblige(tagq + '/ensures.own_keys_element_or_an_error_never_anothers_value',
                 z3.Or(answered_from_stream, errored, s0 == CANCELLED if cancellable else z3.BoolVal(False)),
                 props=props,
                 detail='value -> result, Exception instance -> raised; otherwise ONLY the batch function\'s exception, '
                        'KeyError for an unknown/repeated key, or ValueError("Missing result") -- never an error '
                        'caused by another caller (InvalidStateError of a cancelled future)')
        for (fu, name, xv) in st.get('sets', []):
            pass
        names = [e[0] for e in E.effects]
        E.oblige(tagq + '/ensures.semaphore_released_exactly_as_often_as_acquired',
                 z3.BoolVal(names.count('sem.acquire') == names.count('sem.release') and
                            names.count('sem.acquire') <= 1), props={'C10', 'C04', 'C15'})
    E.run_paths(body)


def t_process_batch_c09(E):
    return t_process_batch(E, cancellable=True)


TASKS = {
    'batcher._process_batch': (t_process_batch, {'C04', 'C10', 'C15'}),
    'batcher._process_batch[cancel]': (t_process_batch_c09, {'C09'}),
}


# ------------------------------------------------------------------ _get_next_batch / _processing_loop (C10)
# Prophecy ghost: the whole arrival sequence of the queue is a fixed unknown Seq `arrivals` with
# non-decreasing arrival times arr_time(j); FIFO: the j-th item ever dequeued is arrivals[j].
arr_time = z3.Function('arrival_time', I, z3.RealSort())


def t_get_next_batch(E):
    engine(E, {'C10'})
    E.z3_obligation_timeout_ms = 2500
    f = method(E, '_get_next_batch')
    E.cur_func = f.qualname
    Qn = f.qualname
    st = {}
    R_ = z3.RealSort()

    def arrived(j, t):
        return arr_time(j) <= t

    def monotone(j):
        """instances of: arrival times are non-decreasing."""
        return z3.And(arr_time(j) <= arr_time(j + 1))

    def install(o):
        Bn = E.builtins
        arrivals = st['arrivals']

        def deq():
            return E.w['deq']

        def max_now():
            v = o.fields['max_batch_size']
            st['M_hi'] = z3.If(v.t > st['M_hi'], v.t, st['M_hi'])
            return v

        def env_step():
            """at a suspension other tasks run: max_batch_size and batch_timeout are plain attributes and may be changed
            (the docs allow it for the size; the code reads both afresh at every use)."""
            o.fields['batch_timeout'] = E.fresh_real('batch_timeout')
            E.assume(o.fields['batch_timeout'].t >= 0)
            o.fields['max_batch_size'] = E.fresh_int('max_batch_size')
            E.assume(o.fields['max_batch_size'].t >= 1)
            v = o.fields['max_batch_size'].t
            st['M_hi'] = z3.If(v > st['M_hi'], v, st['M_hi'])      # largest limit in force so far
        E.await_hook = lambda E_, what, node: env_step()

        def q_get_blocking(node):
            """await q.get(): waits until an item is there; FIFO; RuntimeError on a closed loop."""
            suspend(E, 'q.get', node)
            tag = E.choose([('item', None), ('closed', None)], 'q.get')
            if tag == 'closed':
                st['closed'] = True
                raise PyExc(VExc(EXC['RuntimeError'].term, (VStr('Event loop is closed'),), info={'origin': 'closed-loop'}))
            d = deq()
            t0 = now(E)
            E.assume(d < z3.Length(arrivals))          # the item that is returned exists in the prophecy
            E.w['now'] = z3.If(arr_time(d) > t0, arr_time(d), t0)
            E.w['deq'] = d + 1
            E.assume(monotone(d))
            return VVal(arrivals[d])
        aio.AWAIT['q_get'] = lambda E_, v, node: q_get_blocking(node)

        def wait_for_get(v, node):
            """wait_for(q.get(), T) (CPython 3.12: completes in the step the getter is resolved): the item if
            it arrives within T, TimeoutError exactly at now + T otherwise."""
            if isinstance(v.fields['timeout'], VNone):
                E.oblige(Qn + '/timeout.the_wait_for_more_items_has_a_time_limit', z3.BoolVal(False),
                         props={'C10', 'C04', 'C15'},
                         detail='wait_for(q.get(), None) waits for ever: an incomplete batch is never closed (e.g. '
                                '`batch_timeout or None` for batch_timeout=0)')
                raise PathEnd()
            inner, T = v.fields['inner'], _real(v.fields['timeout'])
            E.oblige(Qn + '/timeout.the_timed_wait_uses_the_batch_timeout_in_force_when_it_starts',
                     T == o.fields['batch_timeout'].t, props={'C10', 'C15'},
                     detail='a value read into a local before earlier suspensions is stale: a batch_timeout assigned while a '
                            'batch is being assembled has to count from the next wait on')
            st['T_of_last_wait'] = T
            if isinstance(inner, Obj) and inner.cls == 'Awaitable' and inner.fields['kind'] == 'shield_in_get_next_batch' and \
                    isinstance(inner.fields['inner'], Obj) and inner.fields['inner'].cls == 'Awaitable' and \
                    inner.fields['inner'].fields['kind'] == 'q_get':
                E.oblige(Qn + '/timeout.a_timed_out_get_is_withdrawn_from_the_queue', z3.BoolVal(False),
                         props={'C10', 'C04', 'C15'},
                         detail='wait_for(shield(q.get()), T): the time-out cancels the shield only; the getter stays '
                                'behind, takes the next item that arrives and hands it to nobody -- a request no batch '
                                'ever carries')
                raise PathEnd()
            if not (isinstance(inner, Obj) and inner.cls == 'Awaitable' and inner.fields['kind'] == 'q_get'):
                raise Unsupported('wait_for of %r' % (inner,), node)
            st['timed_waits'] = st.get('timed_waits', 0) + 1
            st['last_T'] = T
            suspend(E, 'wait_for(q.get())', node)
            d = deq()
            t0 = now(E)
            st['wait_start'] = t0
            if E.branch(z3.And(d < z3.Length(arrivals), arr_time(d) <= t0 + T)):
                E.w['now'] = z3.If(arr_time(d) > t0, arr_time(d), t0)
                E.w['deq'] = d + 1
                E.assume(monotone(d))
                st['via_timed'] = True
                return VVal(arrivals[d])
            E.w['now'] = t0 + T
            st['timed_out'] = True
            E.throw('TimeoutError', origin='batch-timeout')
        aio.AWAIT['wait_for'] = lambda E_, v, node: wait_for_get(v, node)
        ns = Bn[('import', 'asyncio')]
        ns.attrs['wait_for'] = VStub('asyncio.wait_for', lambda E_, a, k: aio.mk_awaitable(
            'wait_for', inner=a[0], timeout=a[1]))
        ns.attrs['shield'] = VStub('asyncio.shield', lambda E_, a, k: aio.mk_awaitable('shield_in_get_next_batch', inner=a[0]))
        aio.AWAIT['shield_in_get_next_batch'] = lambda E_, v, node: E.await_(v.fields['inner'], node)

        def qattr(E_, obj, name, node):
            if obj is st['q']:
                if name == 'get':
                    return VStub('Queue.get', lambda E_, a, k: aio.mk_awaitable('q_get', q=obj))
                if name == 'get_nowait':
                    return VStub('Queue.get_nowait', lambda E_, a, k: _unsupp('direct get_nowait() call'),
                                 attrs={'q': obj})
                if name in ('empty', 'qsize'):
                    def how_many(E_, a, k):
                        """what has arrived and is not dequeued yet, right now (no suspension)"""
                        n_ = available(deq(), now(E))
                        return VBool(n_ == 0) if name == 'empty' else VInt(n_)
                    return VStub('Queue.' + name, how_many)
            if isinstance(obj, Obj) and obj.cls == 'ASemaphore' and name == 'locked':
                # whether a concurrency slot is free right now: decided by the batches in progress, unknown here
                return VStub('Semaphore.locked', lambda E_, a, k: VBool(E.fresh('all_slots_busy', z3.BoolSort())))
            if isinstance(obj, Obj) and obj.cls == 'AbsList':
                if name == 'extend':
                    return VStub('list.extend', lambda E_, a, k: extend(obj, a[0], node))
                if name == 'append':
                    return VStub('list.append', lambda E_, a, k: append(obj, a[0], node))
                if name == 'sort' or name == 'reverse' or name == 'insert':
                    raise Unsupported('tasks.%s(): reordering the batch' % name, node)
            return None
        Bn['__getattr_ext__'] = qattr

        def getattr_q(E_, obj, name, node):
            return None

        def mk_iter(E_, a, k):
            """iter(callable, sentinel)"""
            if len(a) == 2 and isinstance(a[0], VStub) and a[0].name == 'Queue.get_nowait':
                return Obj('drain_iter', dict(q=a[0].attrs['q']))
            raise Unsupported('iter(%r)' % (a,))
        Bn['iter'] = VStub('iter', mk_iter)

        def available(d, t0):
            avail = E.fresh('avail', I)            # number of items that have arrived and are not yet dequeued
            E.assume(avail >= 0)
            E.assume(z3.Implies(avail > 0, arrived(d + avail - 1, t0)))
            E.assume(z3.Or(d + avail >= z3.Length(arrivals), z3.Not(arrived(d + avail, t0))))
            E.assume(d + avail <= z3.Length(arrivals))
            return avail

        def drain_comprehension(E_, node, fr, kind, src):
            """[q.get_nowait() for _ in range(n)]: takes min(n, available) items off the queue; with fewer than n
            available get_nowait() raises QueueEmpty out of the comprehension and the list built so far -- with the
            items already taken -- is dropped."""
            el = node.elt
            if not (kind == 'list' and isinstance(src, Obj) and src.cls == 'range' and isinstance(el, ast.Call)
                    and not el.args and not el.keywords):
                raise Unsupported('comprehension over %r' % (src,), node)
            fn_ = E.eval(el.func, fr)
            if not (isinstance(fn_, VStub) and fn_.name == 'Queue.get_nowait'):
                raise Unsupported('comprehension of %r' % (fn_,), node)
            n = src.fields['n']
            n = z3.If(n.t > 0, n.t, z3.IntVal(0))
            d, t0 = deq(), now(E)
            avail = available(d, t0)
            m = z3.If(n <= avail, n, avail)
            E.assume(z3.Implies(m > 0, arrived(d + m - 1, t0)))
            E.w['deq'] = d + m
            st['drains'] = st.get('drains', 0) + 1
            if E.branch(avail < n):
                E.oblige(Qn + '/drain.items_taken_off_the_queue_reach_the_batch', m == 0, props={'C10', 'C04'},
                         detail='QueueEmpty raised inside a comprehension discards the list under construction: the '
                                'requests already dequeued are in no batch, their callers wait for ever')
                E.throw('QueueEmpty', origin='drain')
            return Obj('AbsList', dict(seq=z3.Extract(arrivals, d, m)))
        Bn['__comprehension__'] = drain_comprehension

        def extend(lst, src, node):
            """tasks.extend(islice(iter(q.get_nowait, sentinel), n)): appends the next min(n, available) queued
            items in FIFO order, then raises QueueEmpty iff fewer than n were available; list.extend keeps what
            it appended before its iterator raised (Appendix B of DESIGN)."""
            if isinstance(src, Obj) and src.cls == 'AbsList':
                lst.fields['seq'] = z3.Concat(lst.fields['seq'], src.fields['seq'])
                return NONE
            if isinstance(src, VVal) and src.t.sort() == ValS:
                E.oblige(Qn + '/assemble.a_dequeued_request_joins_the_batch_as_one_element', z3.BoolVal(False),
                         props={'C10', 'C04'},
                         detail='tasks.extend(<one (key, arg, future) tuple>) splices its three fields into the batch: '
                                '_process_batch fails on it before its try block and every caller of the batch hangs')
                raise PathEnd()
            if not (isinstance(src, Obj) and src.cls == 'islice' and isinstance(src.fields['it'], Obj)
                    and src.fields['it'].cls == 'drain_iter'):
                raise Unsupported('tasks.extend(%r)' % (src,), node)
            n = src.fields['n']
            if not isinstance(n, VInt):
                raise Unsupported('islice count %r' % (n,), node)
            E.oblige(Qn + '/pre(islice).count_is_nonnegative', n.t >= 0, props={'C10', 'C04'},
                     detail='islice() raises ValueError for a negative count (max_batch_size may be lowered while a '
                            'batch is assembled): the processing loop dies with the requests it holds')
            d = deq()
            t0 = now(E)
            avail = E.fresh('avail', I)            # number of items that have arrived and are not yet dequeued
            E.assume(avail >= 0)
            E.assume(z3.Implies(avail > 0, arrived(d + avail - 1, t0)))
            E.assume(z3.Or(d + avail >= z3.Length(arrivals), z3.Not(arrived(d + avail, t0))))
            E.assume(d + avail <= z3.Length(arrivals))
            m = z3.If(n.t <= avail, n.t, avail)
            E.assume(z3.Implies(m > 0, arrived(d + m - 1, t0)))     # arrival times are non-decreasing
            lst.fields['seq'] = z3.Concat(lst.fields['seq'], z3.Extract(arrivals, d, m))
            E.w['deq'] = d + m
            st['drains'] = st.get('drains', 0) + 1
            if E.branch(avail < n.t):
                E.throw('QueueEmpty', origin='drain')
            return NONE

        def append(lst, x, node):
            if not isinstance(x, VVal):
                raise Unsupported('append of %r' % (x,), node)
            lst.fields['seq'] = z3.Concat(lst.fields['seq'], z3.Unit(x.t))
            return NONE

        def list_literal(E_, e, fr):
            if len(e.elts) == 1:
                x = E.eval(e.elts[0], fr)
                if isinstance(x, VVal) and x.t.sort() == ValS:
                    return Obj('AbsList', dict(seq=z3.Unit(x.t)))
                return VList([x])
            if len(e.elts) == 0:
                return VList([])
            return None
        Bn['__list_literal__'] = list_literal
        Bn['__len__'] = lambda E_, v: (VInt(z3.Length(v.fields['seq'])) if isinstance(v, Obj) and v.cls == 'AbsList'
                                       else None)
        Bn['__str__'] = lambda E_, v: (v.args[0] if isinstance(v, VExc) and v.args and isinstance(v.args[0], VStr)
                                       else E.fresh_str('str'))
        Bn['__setattr__'] = None

        def str_attr(E_, obj, name, node):
            return None

    def str_methods(E_, obj, name, node):
        if isinstance(obj, VStr) and name == 'lower':
            c = obj.concrete()
            if c is not None:
                return VStub('str.lower', lambda E_, a, k: VStr(c.lower()))
            return VStub('str.lower', lambda E_, a, k: E.fresh_str('lower'))
        return None

    def loop0(E_, stn, fr, kind, src):
        o = st['o']
        arrivals = st['arrivals']
        d0 = st['d0']

        def tasks_obj():
            t = fr.lookup('tasks')
            if not (isinstance(t, Obj) and t.cls == 'AbsList'):
                raise Unsupported('tasks is not a list built from the queue', stn)
            return t

        def inv(tag):
            t = tasks_obj()
            seq = t.fields['seq']
            d = E.w['deq']
            return [
                ('batch_is_the_contiguous_FIFO_block_dequeued_so_far',
                 z3.And(seq == z3.Extract(arrivals, d0, d - d0), d - d0 >= 1, z3.Length(seq) == d - d0)),
                ('size_never_exceeded_the_limit_in_force', z3.Length(seq) <= st['M_hi']),
                ('last_member_arrived_by_now', arr_time(d - 1) <= now(E)),
                ('clock_moves_forward', now(E) >= st['t_entry']),
            ]

        def havoc():
            t = tasks_obj()
            t.fields['seq'] = E.fresh('tasks', VS)
            E.w['deq'] = E.fresh('deq', I)
            E.w['now'] = E.fresh('now', z3.RealSort())
            o.fields['max_batch_size'] = E.fresh_int('max_batch_size')
            E.assume(o.fields['max_batch_size'].t >= 1)
            o.fields['batch_timeout'] = E.fresh_real('batch_timeout')
            E.assume(o.fields['batch_timeout'].t >= 0)
            st['M_hi'] = E.fresh('M_hi', I)
            E.assume(st['M_hi'] >= o.fields['max_batch_size'].t)
            E.assume(z3.Length(arrivals) >= E.w['deq'])
            st['timed_out'] = False

        def on_exit(how):
            st['exit'] = how

        def test():
            r = E.is_true(E.eval(stn.test, fr))
            st['deq_at_iteration_start'] = E.w['deq']
            st['timed_waits_at_start'] = st.get('timed_waits', 0)
            return r

        def step():
            E.oblige(Qn + '/timeout.a_batch_timeout_of_silence_closes_the_batch', z3.BoolVal(not st.get('timed_out')),
                     detail='a queued call is handed over no later than batch_timeout after the last arrival that '
                            'joined its batch: assembling never goes on after the timed wait has expired')
            # no spinning: an iteration that comes back to the loop head took an item or waited
            E.oblige(Qn + '/progress.each_iteration_dequeues_or_waits',
                     z3.Or(E.w['deq'] > st['deq_at_iteration_start'],
                           z3.BoolVal(st.get('timed_waits', 0) > st['timed_waits_at_start'])))
        E.cut_loop(stn, fr, inv, havoc, test=test, label='assemble', on_exit=on_exit, step=step)
    E.hooks[(Qn, 'loop', 0)] = loop0

    def body():
        st.clear()
        mod = E.modules[MOD]
        o = Obj(mod.classes[CLS])
        st['o'] = o
        q = Obj('AQueue', dict(maxsize=VInt(0)))
        st['q'] = q
        o.fields.update(_queue=q, max_batch_size=E.fresh_int('max_batch_size'), batch_timeout=E.fresh_real('batch_timeout'),
                        _semaphore=Obj('ASemaphore', dict(value=E.fresh_int('permits'))),
                        retention_timeout=E.fresh_real('retention_timeout'))
        E.assume(o.fields['max_batch_size'].t >= 1)
        E.assume(o.fields['batch_timeout'].t >= 0)
        arrivals = E.fresh('arrivals', VS)
        st['arrivals'] = arrivals
        d0 = E.fresh('deq', I)
        st['d0'] = d0
        E.assume(z3.And(d0 >= 0, z3.Length(arrivals) >= d0))
        E.w['deq'] = d0
        st['t_entry'] = now(E)
        st['M_hi'] = o.fields['max_batch_size'].t
        E.builtins['__getattr_ext__'] = None
        install(o)
        prev = E.builtins['__getattr_ext__']
        E.builtins['__getattr_ext__'] = lambda E_, ob, name, node: prev(E_, ob, name, node) or str_methods(E_, ob, name, node)
        E.builtins.pop('__setattr__', None)
        E.cover(Qn + '/requires')
        E.canary(Qn + '/canary@entry')
        try:
            r = E.await_(E.call(f, [o], {}), None)
            kind = 'return'
        except PyExc as pe:
            kind = 'raise'
            exc = pe.exc
        E.cover('%s/exit[%s]' % (Qn, kind))
        if kind == 'raise':
            E.oblige(Qn + '/signals.only_a_foreign_RuntimeError_propagates',
                     z3.BoolVal(exc.info.get('origin') == 'closed-loop'), props={'C10', 'C04'})
            return
        if isinstance(r, VList) and not r.items:
            E.oblige(Qn + '/ensures.empty_batch_only_when_the_loop_is_closed', z3.BoolVal(bool(st.get('closed'))),
                     detail='return [] is the shutdown path; creating the batch task on a closed loop then raises')
            return
        ok = isinstance(r, Obj) and r.cls == 'AbsList'
        E.oblige(Qn + '/ensures.returns_the_assembled_list', z3.BoolVal(ok), props={'C10', 'C04'})
        if not ok:
            return
        seq = r.fields['seq']
        d = E.w['deq']
        n = z3.Length(seq)
        T = st.get('T_of_last_wait', o.fields['batch_timeout'].t)     # the value in force when the last timed wait began
        E.oblige(Qn + '/ensures.batch_is_never_empty', n >= 1)
        E.oblige(Qn + '/ensures.at_most_max_batch_size_items', n <= st['M_hi'], props={'C10', 'C15'},
                 detail='judged against the largest limit in force while items were added')
        E.oblige(Qn + '/ensures.items_are_the_next_contiguous_block_in_arrival_order',
                 z3.And(seq == z3.Extract(arrivals, d0, n), d == d0 + n), props={'C10', 'C04'},
                 detail='an item taken off the queue but not handed on is a caller never answered')
        full = n >= o.fields['max_batch_size'].t
        timed = z3.And(z3.BoolVal(bool(st.get('timed_out'))),
                       now(E) == st.get('wait_start', now(E)) + T,
                       z3.Or(d >= z3.Length(arrivals), z3.Not(arrived(d, now(E)))))
        E.oblige(Qn + '/ensures.leaves_only_when_full_or_after_batch_timeout_of_silence', z3.Or(full, timed),
                 props={'C10', 'C15'},
                 detail='calls less than batch_timeout apart share a batch until it is full (the batch_timeout and '
                        'max_batch_size given take effect)')
        if st.get('timed_out'):
            E.oblige(Qn + '/ensures.timer_started_when_the_last_member_joined',
                     z3.And(st['wait_start'] >= arr_time(d - 1), st['wait_start'] >= st['t_entry']),
                     detail='dispatch = max(arrival of last member, assembly start) + batch_timeout')
            E.oblige(Qn + '/ensures.waits_exactly_this_objects_batch_timeout', st['last_T'] == T, props={'C10', 'C15'})
    E.run_paths(body)


def _unsupp(m):
    raise Unsupported(m)


def t_processing_loop(E):
    """_processing_loop: every batch goes to _process_batch in dequeue order, in its own task, never awaited."""
    engine(E, {'C10', 'C04'})      # a batch that is assembled but never processed leaves its callers unanswered
    f = method(E, '_processing_loop')
    E.cur_func = f.qualname
    Qn = f.qualname
    E.inline.add(MOD + '.' + CLS + '._daemon_task')
    st = {}

    def loop0(E_, stn, fr, kind, src):
        def inv(tag):
            return [('loop_never_exits_normally', z3.BoolVal(True))]

        def havoc():
            st['got'] = 0
            st.pop('batch', None)
            E.w['tasks_created'] = []

        def step():
            tasks = E.w.get('tasks_created', [])
            E.oblige(Qn + '/iteration.assembles_exactly_one_batch', z3.BoolVal(st.get('got', 0) == 1))
            E.oblige(Qn + '/iteration.spawns_exactly_one_background_task_for_it', z3.BoolVal(len(tasks) == 1))
            for t in tasks:
                c = t.fields['coro']
                ok = isinstance(c, VCoro) and c.func.qualname.endswith('._process_batch') and len(c.args) == 2 and \
                    c.args[1] is st.get('batch')
                E.oblige(Qn + '/iteration.the_task_processes_exactly_the_assembled_batch', z3.BoolVal(bool(ok)),
                         detail='and is not awaited: assembly of the next batch starts at once')
                E.oblige(Qn + '/iteration.the_task_runs_on_the_batchers_loop',
                         z3.BoolVal(t.fields['loop'] is st['o'].fields['_loop']))
        E.cut_loop(stn, fr, inv, havoc, label='forever', step=step)
    E.hooks[(Qn, 'loop', 0)] = loop0

    def with_(E_, cm, is_async, node):
        if isinstance(cm, Obj) and cm.cls == 'ASemaphore':
            def enter():
                E.effect('sem.acquire', cm)
                st['in_sem'] = True
                return NONE

            def exit_(exc):
                E.effect('sem.release', cm)
                st['in_sem'] = False
                return False
            return enter, exit_
        return None

    class _GNB:
        def on_call(self, E_, fobj, args, kwargs, node):
            E.oblige(Qn + '/iteration.the_next_batch_is_assembled_without_holding_a_concurrency_slot',
                     z3.BoolVal(not st.get('in_sem')), props={'C10', 'C15'},
                     detail='max_concurrent_batches=N has to allow N executions of the batch function at a time: a '
                            'slot held while waiting for requests is one execution fewer (none at all for N=1)')
            st['got'] = st.get('got', 0) + 1
            st['batch'] = VSeq(E.fresh('batch', VS), VVal)
            return aio.mk_awaitable('ready', value=st['batch'])

        def apply(self, E_, args, kwargs, node=None):
            return self.on_call(E_, None, args, kwargs, node)

    class _PB:
        def apply(self, E_, args, kwargs, node=None):
            E.oblige(Qn + '/iteration.batch_is_not_awaited_inline', z3.BoolVal(False),
                     detail='awaiting _process_batch in the processing loop serialises batches and delays assembly')
            return NONE

    def body():
        st.clear()
        mod = E.modules[MOD]
        o = Obj(mod.classes[CLS], dict(_loop=E.fresh_val('loop', LoopS),
                                       _semaphore=Obj('ASemaphore', dict(value=E.fresh_int('permits')))))
        st['o'] = o
        E.builtins['__with_ext__'] = with_
        # wait_for / shield around the batch coroutine: the task then runs something else than _process_batch itself (a
        # deadline of the batcher's own cancels the batch function and leaves every caller of the batch unanswered)
        ns_ = E.builtins[('import', 'asyncio')]
        ns_.attrs['wait_for'] = VStub('asyncio.wait_for', lambda E_, a, k: aio.mk_awaitable(
            'wait_for_in_processing_loop', inner=a[0], timeout=a[1] if len(a) > 1 else k.get('timeout')))
        ns_.attrs['shield'] = VStub('asyncio.shield', lambda E_, a, k: aio.mk_awaitable(
            'shield_in_processing_loop', inner=a[0]))
        E.specs[MOD + '.' + CLS + '._get_next_batch'] = _GNB()
        E.specs[MOD + '.' + CLS + '._process_batch'] = _PB()
        aio.AWAIT['ready'] = lambda E_, v, node: v.fields['value']
        E.cover(Qn + '/requires')
        E.canary(Qn + '/canary@entry')
        try:
            E.await_(E.call(f, [o], {}), None)
            E.oblige(Qn + '/ensures.processing_loop_never_returns', z3.BoolVal(False))
        except PyExc:
            pass
    E.run_paths(body)


TASKS.update({
    'batcher._get_next_batch': (t_get_next_batch, {'C10', 'C15', 'C04'}),
    'batcher._processing_loop': (t_processing_loop, {'C10', 'C04', 'C15'}),
})


# ------------------------------------------------------------------ __call__ / _forget  (C11, C04, C09)
# Pointwise for the caller's key k.  Ghost accounting of one retention entry:
#   pend  an unanswered request for k exists (its tuple is queued or in a running batch)
#   owed  1 while somebody (the owner's finally, or the done-callback it left behind) still has to call
#         _forget(k) for the current entry, else 0
#   tmr   1 while an eviction timer (call_later(retention, pop, k)) is outstanding, else 0
def inv_k(rc_has, rc_fut, pend, owed, tmr, fstate, retention):
    return z3.And(
        z3.Or(owed == 0, owed == 1), z3.Or(tmr == 0, tmr == 1), owed + tmr <= 1,
        rc_has == z3.Or(owed == 1, tmr == 1),
        z3.Implies(pend, owed == 1),
        z3.Implies(owed == 1, pend == (z3.Select(fstate, rc_fut) == PENDING)),
        z3.Implies(tmr == 1, z3.And(retention > 0, z3.Select(fstate, rc_fut) != PENDING)),
    )


def t_call(E):
    engine(E, {'C11', 'C04', 'C09'})
    f = method(E, '__call__')
    E.cur_func = f.qualname
    Qn = f.qualname
    E.inline.add(MOD + '.' + CLS + '._forget')
    E.inline.add(MOD + '._being_cancelled')
    st = {}
    G = ('rc_has', 'rc_fut', 'pend', 'owed', 'tmr')

    def cur():
        return tuple(E.w[n] for n in G) + (fut_world(E)[0], st['retention'])

    def check_inv(site):
        E.oblige('%s/inv_k@%s' % (Qn, site), inv_k(*cur()), props={'C11', 'C09', 'C04'})

    def interfere(site):
        """Other tasks of the loop run (callers of any key, batch tasks answering futures, eviction timers,
        cancellation of callers).  Rely, for MY role in the entry of k:"""
        check_inv(site)
        old = {n: E.w[n] for n in G}
        ofs, ofv = fut_world(E)
        E.w['rc_has'] = E.fresh('rc_has', B)
        E.w['rc_fut'] = E.fresh('rc_fut', FutS)
        E.w['pend'] = E.fresh('pend', B)
        E.w['owed'] = E.fresh('owed', I)
        E.w['tmr'] = E.fresh('tmr', I)
        nfs = E.fresh('fut_state', z3.ArraySort(FutS, I))
        nfv = E.fresh('fut_val', z3.ArraySort(FutS, ValS))
        E.w['fut_state'], E.w['fut_val'] = nfs, nfv
        E.assume(inv_k(*cur()))
        fu = st.get('awaited')
        if fu is not None:
            # futures only move pending -> done, and keep their outcome (nobody cancels a shielded future)
            E.assume(z3.Implies(z3.Select(ofs, fu) != PENDING,
                                z3.And(z3.Select(nfs, fu) == z3.Select(ofs, fu), z3.Select(nfv, fu) == z3.Select(ofv, fu))))
            E.assume(z3.Select(nfs, fu) != CANCELLED)
        if st.get('owner'):
            # while the owner has not run its exit code, the entry it created stays, its forget is still owed
            E.assume(z3.And(E.w['rc_has'], E.w['rc_fut'] == st['my_fut'], E.w['owed'] == 1, E.w['tmr'] == 0))
            E.used('rely: nobody but the owner (or the callback it leaves) forgets the owner\'s entry')

    def install(o, key, arg):
        Bn = E.builtins
        ns = Bn[('import', 'asyncio')]
        # the calling task may carry cancellation requests it has absorbed (a shutdown routine that cancels every
        # worker, itself included, and then flushes; a final submission from an `except CancelledError` handler)
        cur_task = Obj('CurrentTask')
        n_req = E.fresh('cancellation_requests_of_the_calling_task', I)
        E.assume(n_req >= 0)
        cur_task.fields['cancelling'] = VStub('Task.cancelling', lambda E_, a, k: VInt(n_req))
        cur_task.fields['get_name'] = VStub('Task.get_name', lambda E_, a, k: E.fresh_str('task_name'))
        # in a done-callback (run by the loop, outside any task) there is no current task
        ns.attrs['current_task'] = VStub('asyncio.current_task',
                                         lambda E_, a, k: NONE if st.get('in_done_callback') else cur_task)

        def key_ok(k, node):
            kk = k if isinstance(k, VStr) else None
            E.oblige(Qn + '/frame.retention_cache_is_only_subscripted_with_the_calls_key',
                     z3.BoolVal(kk is not None) if kk is None else kk.t == st['k'], props={'C11', 'C09', 'C04'},
                     detail='every lookup, registration and eviction of one call concerns THIS call\'s key')

        def getitem(E_, obj, k, node):
            if obj is st['rc']:
                key_ok(k, node)
                if E.branch(E.w['rc_has']):
                    st['looked_up'] = E.w['rc_fut']
                    return fut_obj(E.w['rc_fut'])
                E.throw('KeyError', origin='rc-miss')
            return None
        Bn['__getitem__'] = getitem

        def setitem(E_, obj, k, v, node):
            if obj is st['rc']:
                key_ok(k, node)
                if not (isinstance(v, Obj) and v.cls == 'AFuture'):
                    raise Unsupported('retention entry %r' % (v,), node)
                E.oblige(Qn + '/create.only_when_no_entry_exists', z3.Not(E.w['rc_has']), props={'C11', 'C04'},
                         detail='overwriting an entry would orphan its pending request')
                E.w['rc_has'] = z3.BoolVal(True)
                E.w['rc_fut'] = v.fields['fut']
                E.w['pend'] = z3.BoolVal(True)
                E.w['owed'] = z3.IntVal(1)
                st['owner'] = True
                st['my_fut'] = v.fields['fut']
                return
            raise Unsupported('subscript store', node)
        Bn['__setitem__'] = setitem

        def delitem(E_, obj, k, node):
            if obj is st['rc']:
                key_ok(k, node)
                E.oblige(Qn + '/forget.entry_present_when_deleted', E.w['rc_has'], props={'C11', 'C09'},
                         detail='del of a missing key raises KeyError into the caller')
                E.w['rc_has'] = z3.BoolVal(False)
                st['deleted'] = st.get('deleted', 0) + 1
                return
            raise Unsupported('del', node)
        Bn['__delitem__'] = delitem

        def attr(E_, obj, name, node):
            if obj is st['rc'] and name == 'pop':
                def pop_now(E_, a, k):
                    key_ok(a[0], node)
                    if E.branch(E.w['rc_has']):
                        r_ = fut_obj(E.w['rc_fut'])
                        E.w['rc_has'] = z3.BoolVal(False)
                        st['deleted'] = st.get('deleted', 0) + 1
                        return r_
                    if len(a) > 1:
                        st['deleted'] = st.get('deleted', 0) + 1     # an eviction attempt all the same
                        return a[1]
                    E.oblige(Qn + '/forget.entry_present_when_deleted', z3.BoolVal(False), props={'C11', 'C09'})
                    E.throw('KeyError')
                return VStub('dict.pop', pop_now, attrs={'rc': True})
            if obj is st['rc'] and name in ('popitem', 'clear'):
                def not_by_key(E_, a, k):
                    """popitem() / clear(): evict whatever entry comes to hand -- some other key's, maybe a pending one"""
                    E.oblige(Qn + '/forget.evicts_this_key_only', z3.BoolVal(False), props={'C11', 'C09', 'C04'},
                             detail='%s() on the retention cache removes entries of OTHER keys (the youngest one / all '
                                    'of them): a pending request of another key is forgotten, this key stays' % name)
                    raise PathEnd()
                return VStub('dict.' + name, not_by_key, attrs={'rc': True})
            if obj is st['rc'] and name == 'get':
                def get(E_, a, k):
                    key_ok(a[0], node)
                    if E.branch(E.w['rc_has']):
                        st['looked_up'] = E.w['rc_fut']
                        return fut_obj(E.w['rc_fut'])
                    return a[1] if len(a) > 1 else NONE
                return VStub('dict.get', get)
            if isinstance(obj, VVal) and obj.t.sort() == LoopS:
                if name == 'create_future':
                    def cf(E_, a, k):
                        fo = aio.new_future(E, loop=obj)
                        fo.fields['ident'] = fo.fields['fut']
                        st.setdefault('created', []).append(fo.fields['fut'])
                        return fo
                    return VStub('loop.create_future', cf)
                if name == 'call_at':
                    def cat(E_, a, k):
                        """call_at(when, ...): `when` is an ABSOLUTE loop time, not a delay"""
                        E.oblige(Qn + '/forget.timer_delay_is_retention_timeout', z3.BoolVal(False), props={'C11', 'C15'},
                                 detail='call_at(retention_timeout, ...) is due at once: the loop clock is far beyond '
                                        'any retention value')
                        raise PathEnd()
                    return VStub('loop.call_at', cat)
                if name == 'call_later':
                    def cl(E_, a, k):
                        d, fn_ = a[0], a[1]
                        ok = isinstance(fn_, VStub) and fn_.name == 'dict.pop' and len(a) in (3, 4) and isinstance(a[2], VStr)
                        E.oblige(Qn + '/forget.timer_pops_this_key_from_the_retention_cache',
                                 z3.And(z3.BoolVal(ok), a[2].t == st['k'] if ok else z3.BoolVal(False)),
                                 props={'C11', 'C09'})
                        E.oblige(Qn + '/forget.timer_delay_is_retention_timeout', _real(d) == st['retention'],
                                 props={'C11', 'C15'})
                        E.w['tmr'] = E.w['tmr'] + 1
                        st['timers'] = st.get('timers', 0) + 1
                        return NONE
                    return VStub('loop.call_later', cl)
            if obj is st['q'] and name == 'put':
                def put(E_, a, k):
                    st.setdefault('enqueued', []).append(a[0])
                    return aio.mk_awaitable('ready', value=NONE)
                return VStub('Queue.put', put)
            if obj is st['q'] and name == 'put_nowait':
                def putn(E_, a, k):
                    st.setdefault('enqueued', []).append(a[0])
                    return NONE
                return VStub('Queue.put_nowait', putn)
            if isinstance(obj, Obj) and obj.cls == 'ASemaphore' and name == 'locked':
                # whether every batch slot is busy: says nothing about where THIS request is
                return VStub('Semaphore.locked', lambda E_, a, k: VBool(E.fresh('all_slots_busy', z3.BoolSort())))
            if obj is st['q'] and name in ('empty', 'qsize'):
                # what is queued says nothing about THIS request: the collector may have taken it into an open batch
                if name == 'empty':
                    return VStub('Queue.empty', lambda E_, a, k: VBool(E.fresh('queue_empty', z3.BoolSort())))
                return VStub('Queue.qsize', lambda E_, a, k: VInt(E.fresh('qsize', z3.IntSort())))
            if isinstance(obj, Obj) and obj.cls == 'AFuture':
                fu = obj.fields['fut']
                if name == 'done':
                    return VStub('Future.done', lambda E_, a, k: VBool(z3.Select(fut_world(E)[0], fu) != PENDING))
                if name == 'cancel':
                    def fcancel(E_, a, k):
                        E.oblige(Qn + '/exit.a_caller_never_cancels_the_future_shared_under_its_key', z3.BoolVal(False),
                                 props={'C09', 'C04', 'C11'},
                                 detail='other callers may have joined the key; the request may already be in a batch')
                        raise PathEnd()
                    return VStub('Future.cancel', fcancel)
                if name == 'cancelled':
                    return VStub('Future.cancelled', lambda E_, a, k: VBool(z3.Select(fut_world(E)[0], fu) == CANCELLED))
                if name == 'exception':
                    def fexc(E_, a, k):
                        """Future.exception(): the exception, or None for a result (raises for pending / cancelled)"""
                        stt_, val_ = fut_world(E)
                        s_ = z3.Select(stt_, fu)
                        if E.branch(s_ == PENDING):
                            E.throw('InvalidStateError', origin='exception-of-pending-future')
                        if E.branch(s_ == CANCELLED):
                            E.throw('CancelledError', origin='exception-of-cancelled-future')
                        return VOpt(s_ != EXCEPTION, VVal(z3.Select(val_, fu)))
                    return VStub('Future.exception', fexc)
                if name == 'add_done_callback':
                    def adc(E_, a, k):
                        okc = isinstance(a[0], (VFunc, VBound, VPartial, VStub))
                        E.oblige(Qn + '/exit.done_callback_is_a_callable', z3.BoolVal(okc), props={'C09', 'C11', 'C04'},
                                 detail='add_done_callback(%r): what is registered must be CALLED later, with the '
                                        'future; calling the clean-up right here evicts an unanswered request' % (a[0],))
                        if not okc:
                            raise PathEnd()
                        st.setdefault('callbacks', []).append((fu, a[0]))
                        return NONE
                    return VStub('Future.add_done_callback', adc)
            return None
        Bn['__getattr_ext__'] = attr
        aio.AWAIT['ready'] = lambda E_, v, node: v.fields['value']
        ns.attrs['shield'] = VStub('asyncio.shield', lambda E_, a, k: aio.mk_awaitable('shield', inner=a[0]))

        def aw_shield(E_, v, node):
            """await shield(fut): the future's outcome; or CancelledError when THIS task is cancelled, which
            leaves the future untouched."""
            inner = v.fields['inner']
            if not (isinstance(inner, Obj) and inner.cls == 'AFuture'):
                raise Unsupported('shield of %r' % (inner,), node)
            fu = inner.fields['fut']
            st['awaited'] = fu
            st.setdefault('awaits', []).append(('shield', fu))
            interfere('await shield(fut)')
            stt, val = fut_world(E)
            s_ = z3.Select(stt, fu)
            tag = E.choose([('result', s_ == RESULT), ('exception', s_ == EXCEPTION), ('own_cancel', None)], 'await')
            if tag == 'result':
                return VVal(z3.Select(val, fu))
            if tag == 'exception':
                ev = z3.Select(val, fu)
                raise PyExc(VExc(cls_of(ev), (), ident=ev, info={'origin': 'future'}))
            st['cancelled'] = True
            E.throw('CancelledError', origin='own-cancel')
        aio.AWAIT['shield'] = aw_shield

        def aw_future(E_, v, node, fr):
            if isinstance(v, Obj) and v.cls == 'AFuture':
                # awaiting the shared future directly: cancelling this caller cancels the future (C09)
                st.setdefault('awaits', []).append(('bare', v.fields['fut']))
                E.oblige(Qn + '/await.shared_future_is_awaited_through_shield', z3.BoolVal(False), props={'C09', 'C04', 'C11'},
                         detail='a bare await lets a cancelled caller cancel the future shared with other callers')
                raise PathEnd()
            return None
        Bn['__await_ext__'] = aw_future
        Bn['__str__'] = lambda E_, v: (VStr(z3.Function('str_of_arg', ValS, S)(v.t)) if isinstance(v, VVal) else None)

    def run_callbacks():
        """done-callbacks the owner left behind run once the future is answered."""
        for (fu, cb) in st.get('callbacks', []):
            stt, val = fut_world(E)
            # the future completes later (answered by its batch): entry still the owner's, forget still owed
            nfs = E.fresh('fut_state', z3.ArraySort(FutS, I))
            E.assume(z3.Select(nfs, fu) != PENDING)
            E.w['fut_state'] = nfs
            E.w['pend'] = z3.BoolVal(False)
            check_inv('before done-callback')
            try:
                st['in_done_callback'] = True
                try:
                    E.call(cb, [fut_obj(fu)], {})
                finally:
                    st['in_done_callback'] = False
            except PyExc as pe:
                from pyvc.engine import _known_cls
                E.oblige(Qn + '/callback.runs_without_raising', z3.BoolVal(False), props={'C09', 'C11', 'C04'},
                         detail='the done-callback, called with the future as its only argument, raised %s: the loop '
                                'logs and drops it, the entry is never forgotten' % (_known_cls(pe.exc.cls) or pe.exc.cls))
            E.w['owed'] = E.w['owed'] - 1 if False else E.w['owed']

    def body():
        st.clear()
        mod = E.modules[MOD]
        o = Obj(mod.classes[CLS])
        rc = Obj('PyDict')
        q = Obj('AQueue', dict(maxsize=VInt(0)))
        loop = E.fresh_val('loop', LoopS)
        ret = E.fresh_real('retention_timeout')
        o.fields.update(_retention_cache=rc, _queue=q, _loop=loop, retention_timeout=ret,
                        batch_timeout=E.fresh_real('batch_timeout'),
                        _semaphore=Obj('ASemaphore', dict(value=E.fresh_int('permits'))))
        st.update(rc=rc, q=q, retention=ret.t)
        arg = E.fresh_val('arg')
        key_given = E.fresh_bool('key_given')
        if E.branch(key_given.t):
            key = E.fresh_str('key')
            st['k'] = key.t
            kv = key
        else:
            st['k'] = z3.Function('str_of_arg', ValS, S)(arg.t)
            kv = NONE
        for n, srt in (('rc_has', B), ('rc_fut', FutS), ('pend', B), ('owed', I), ('tmr', I)):
            E.w[n] = E.fresh(n, srt)
        fut_world(E)
        E.assume(inv_k(*cur()))
        E.assume(ret.t >= 0)
        pre = {n: E.w[n] for n in G}
        install(o, kv, arg)
        E.cover(Qn + '/requires')
        E.canary(Qn + '/canary@entry')
        try:
            r = E.await_(E.call(f, [o, arg], dict(key=kv)), None)
            kind = 'return'
        except PyExc as pe:
            kind = 'raise'
            exc = pe.exc
            r = None
        E.cover('%s/exit[%s]' % (Qn, kind))
        # the owner's exit code ran: its forget is either done or handed to a callback
        owner = bool(st.get('owner'))
        enq = st.get('enqueued', [])
        if owner:
            # C09 too: a registered request that is never queued leaves every caller sharing the key, and every later
            # caller of it, waiting for ever -- whatever made the first caller skip the queue (its own cancellation state)
            E.oblige(Qn + '/create.exactly_one_tuple_enqueued', z3.BoolVal(len(enq) == 1), props={'C11', 'C04', 'C09'})
            if len(enq) == 1:
                t = enq[0]
                ok = isinstance(t, VTuple) and len(t.items) == 3 and isinstance(t.items[0], VStr) and \
                    t.items[1] is arg and isinstance(t.items[2], Obj) and t.items[2].cls == 'AFuture'
                E.oblige(Qn + '/create.tuple_is_(key,arg,the_registered_future)',
                         z3.And(z3.BoolVal(bool(ok)), t.items[0].t == st['k'] if ok else z3.BoolVal(False),
                                t.items[2].fields['fut'] == st['my_fut'] if ok else z3.BoolVal(False)),
                         props={'C11', 'C04'})
            E.oblige(Qn + '/create.only_when_the_key_had_no_entry', z3.Not(pre['rc_has']), props={'C11', 'C04'})
            cbs = st.get('callbacks', [])
            forgot = st.get('deleted', 0) + st.get('timers', 0)
            E.oblige(Qn + '/exit.forget_now_or_leave_exactly_one_callback',
                     z3.BoolVal(forgot + len(cbs) == 1), props={'C11', 'C09'})
            if cbs:
                E.oblige(Qn + '/exit.callback_only_while_the_request_is_unanswered',
                         z3.Select(fut_world(E)[0], st['my_fut']) == PENDING, props={'C09', 'C11'})
                E.oblige(Qn + '/exit.callback_is_on_the_registered_future', z3.BoolVal(z3.eq(cbs[0][0], st['my_fut'])),
                         props={'C09', 'C11'})
            else:
                E.w['owed'] = E.w['owed'] - 1
                E.w['pend'] = z3.BoolVal(False)
            check_inv('exit')
            if cbs:
                st['owner'] = False
                run_callbacks()
                forgot2 = st.get('deleted', 0) + st.get('timers', 0)
                E.oblige(Qn + '/callback.forgets_exactly_once', z3.BoolVal(forgot2 == 1), props={'C09', 'C11'})
                E.w['owed'] = E.w['owed'] - 1
                check_inv('after done-callback')
            # on the path of a cancelled first caller (the forget was left to a done-callback) these two also carry C09:
            # "changes nothing for other callers" includes the later caller inside the retention window
            via_cb = {'C09'} if cbs else set()
            if st.get('timers'):
                E.oblige(Qn + '/forget.timer_only_when_retention_positive', st['retention'] > 0,
                         props={'C11', 'C15'} | via_cb)
            if st.get('deleted'):
                E.oblige(Qn + '/forget.immediate_only_when_retention_is_zero', z3.Not(st['retention'] > 0),
                         props={'C11', 'C15'} | via_cb)
        else:
            E.oblige(Qn + '/share.nothing_enqueued_when_the_key_has_an_entry', z3.BoolVal(len(enq) == 0),
                     props={'C11', 'C04'})
            E.oblige(Qn + '/share.no_eviction_by_a_sharer',
                     z3.BoolVal(not st.get('deleted') and not st.get('timers') and not st.get('callbacks')),
                     props={'C11', 'C09', 'C04'},
                     detail='a sharer that evicts can remove a newer pending entry: its request is then enqueued twice and a caller is never answered')
        aw = st.get('awaits', [])
        E.oblige(Qn + '/await.exactly_one_shielded_await_of_the_keys_future',
                 z3.BoolVal(len(aw) == 1 and aw[0][0] == 'shield'), props={'C09', 'C04', 'C11'})
        if len(aw) == 1:
            exp = st['my_fut'] if owner else st.get('looked_up')
            E.oblige(Qn + '/await.awaits_the_future_registered_under_its_key',
                     z3.BoolVal(exp is not None and z3.eq(aw[0][1], exp)), props={'C04', 'C11'})
        stt, val = fut_world(E)
        fu = st.get('awaited')
        if kind == 'return' and fu is not None:
            E.oblige(Qn + '/ensures.returns_the_value_of_its_keys_future',
                     z3.And(z3.BoolVal(isinstance(r, VVal)), z3.Select(stt, fu) == RESULT,
                            r.t == z3.Select(val, fu) if isinstance(r, VVal) else z3.BoolVal(False)),
                     props={'C04', 'C11'})
        if kind == 'raise':
            if exc.info.get('origin') == 'future':
                E.oblige(Qn + '/signals.raises_the_exception_of_its_keys_future',
                         z3.And(z3.Select(stt, fu) == EXCEPTION, exc.ident == z3.Select(val, fu)), props={'C04', 'C11'})
            else:
                E.oblige(Qn + '/signals.otherwise_only_the_callers_own_cancellation',
                         z3.BoolVal(exc.info.get('origin') == 'own-cancel'), props={'C04', 'C09'},
                         detail='origin: %s' % exc.info.get('origin'))
    E.run_paths(body)


TASKS.update({
    'batcher.__call__': (t_call, {'C11', 'C04', 'C09', 'C15'}),
})


def t_lemmas(E):
    """C10: at most max_concurrent_batches executions of the batch function at once, from the semaphore stub and
    the scope obligation of _process_batch (pure SMT)."""
    stubs.install_all(E)
    E.cur_func = 'batcher.lemmas'
    E.props_default = frozenset({'C10'})

    def body():
        mx, permits, running = z3.Ints('max_concurrent_batches permits running')
        permits2, running2 = z3.Ints('permits2 running2')
        inv = lambda p, r: z3.And(p >= 0, r >= 0, p + r == mx)     # noqa: E731
        E.oblige('C10/lemma.semaphore_invariant_initially', z3.Implies(z3.And(mx >= 0, permits == mx, running == 0),
                                                                       inv(permits, running)))
        # `async with semaphore` entered only with a permit; the batch function is iterated only inside (obligation
        # call.batch_function_runs_inside_the_semaphore); released exactly as often as acquired
        E.oblige('C10/lemma.entering_preserves_the_bound',
                 z3.Implies(z3.And(inv(permits, running), permits > 0, permits2 == permits - 1, running2 == running + 1),
                            z3.And(inv(permits2, running2), running2 <= mx)))
        E.oblige('C10/lemma.leaving_preserves_the_bound',
                 z3.Implies(z3.And(inv(permits, running), running > 0, permits2 == permits + 1, running2 == running - 1),
                            z3.And(inv(permits2, running2), running2 <= mx)))
        E.oblige('C10/lemma.never_more_than_max_concurrent_batches_executions', z3.Implies(inv(permits, running), running <= mx))
    E.run_paths(body)


TASKS['batcher.lemmas'] = (t_lemmas, {'C10'})
