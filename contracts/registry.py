"""Per-property registry: level, assumptions, replay scenarios and bounded stand-ins."""

VPY = '/venv/bin/python'

TRUSTED_BASE = [
    'pyvc VC generator: its semantics for the Python AST subset is CPython 3.12 (cross-checked by selftest, not proved)',
    'z3-solver 5.1.0 (cvc5 1.0.3 for z3 `unknown`)',
    'stub contracts of library operations (listed as stub:<name>), conformance-tested against CPython 3.12.1',
    'GIL atomicity of single dict/list/attribute operations; Python int mathematical; float as real',
    'ghost clock: computation between blocking points takes no time',
]

_KERNEL = 'kernel: flock() exclusivity per open file description, released on close and at process death (local fs)'

import os as _os0
# the rely/guarantee proof of the cache's _wrapper is only registered once it discharges within budget
_RG_LEVEL = 'proof'

PROPERTIES = {
    'C02': dict(
        level='proof',
        explanation='acquire/__enter__/acquire_ctx success => caller owns the in-process lock and an exclusive '
                    'flock on a fresh open file description; ownership discipline at every write; ordering on release; '
                    'exclusion lemma over the contracts',
        assumptions=[_KERNEL, 'threading.Lock/RLock mutual exclusion',
                     'every thread runs this same code (ownership discipline proved for one arbitrary thread)'],
        not_decided=['free-running contention of 16 OS processes rests on the kernel stub only'],
    ),
    'C12': dict(
        level='proof',
        explanation='FileLock against the abstract view (held_by, depth): whole-state postconditions of acquire/'
                    'release/__enter__/__exit__/acquire_ctx/__del__/__init__ under nondeterministic OSError faults at '
                    'every os.open/flock/close, polling-loop invariant with ghost clock; unbounded histories via the '
                    'well-formedness invariant',
        assumptions=[_KERNEL, 'release() on an unheld lock does not race with another thread acquiring it (A-rel)',
                     'the body of a with-block leaves the lock as it found it (A-body)',
                     'timeouts are None, -1 or >= 0; poll_interval >= 0'],
        not_decided=[],
    ),
    'C13': dict(
        level='proof',
        explanation='frame condition: on every path of every filelock function the only world effects are '
                    'os.open(lock_file, O_RDWR|O_CREAT[|O_TRUNC], no O_EXCL), flock, close, sleep; success of acquire '
                    'depends on flock only; with the kernel stub (a dead process owns no OFD) no crash point can leave '
                    'persistent ownership',
        assumptions=[_KERNEL],
        not_decided=['"promptly" is the kernel\'s'],
    ),
    'C01': dict(
        level=_RG_LEVEL, category=_RG_LEVEL, always_standin=True,
        explanation='threadsafe_async_cache._wrapper under rely/guarantee with ghost attempts: invariant "a live or '
                    'finalising invocation holds the in-flight marker", guarantee = declared atomic actions (install only '
                    'under the lock over no/dead marker with no success so far, store only the own result, remove only the '
                    'own marker), obligations at the invocation site: never after a success, never while another '
                    'invocation is live on a running loop; lemma single-flight; any number of threads, loops, callers',
        assumptions=['threading.Lock mutual exclusion; GIL atomicity of single dict operations; is_running()/is_closed() '
                     'return the current truth; a loop does not stop in the middle of a task step',
                     'loops are not restarted with a call pending other than to deliver cancellations (property text)',
                     'the cache mapping retains entries (eviction variant: bounded stand-in only)',
                     'rely = stable predicates, each proved stable under every declared action of other callers and of '
                     'the environment (side conditions)'],
        not_decided=[],
    ),
    'C05': dict(
        level=_RG_LEVEL, category=_RG_LEVEL, always_standin=True,
        explanation='safety kernel of the liveness property, on _wrapper under the same rely/guarantee contract: on '
                    'every exit after installing a marker (return, exception, cancellation) the own event is set and the '
                    'own marker removed, lock released; a waiter blocks on the MARKER\'s event, directly iff on the '
                    'marker\'s loop else through run_coroutine_threadsafe+wrap_future on the marker\'s loop, under '
                    'wait_for(<=60 s); every back-edge of the retry loop is preceded by a suspended wait or by having '
                    'observed the marker\'s loop closed',
        assumptions=['each invocation of the wrapped function finishes or is cancelled; thread / loop fairness'],
        not_decided=['"every call finishes", "promptly", "within the safety window" are liveness/real-time: only the '
                     'bounded stand-in (virtual time, real threads under a director) exercises them'],
    ),
    'C06': dict(
        level=_RG_LEVEL, category=_RG_LEVEL, always_standin=True,
        explanation='exceptional postconditions of _wrapper under rely/guarantee with cancellation and foreign-loop '
                    'shutdown in the rely: Exception only from the invocation this call performed; CancelledError only '
                    'if this caller\'s own task was cancelled (a foreign cancellation of the shielded waiter loops '
                    'around); no bookkeeping KeyError (del requires the marker present); only the own result is cached; '
                    'a failed computation caches nothing',
        assumptions=['Task.cancelling() (3.11+) reports pending cancellation requests of the current task',
                     'shield/wait_for/wrap_future outcome stubs (conformance-tested)'],
        not_decided=['"never delays any other caller beyond a recomputation" (timing): bounded stand-in'],
    ),
    'C14': dict(
        level='proof', category='proof', always_standin=True,
        explanation='key construction proved equivalent to same_call (positional equal in order, keywords equal as a set '
                    'of pairs) by constructor theory of tuple/frozenset/dict views; a caller-supplied mapping (even an '
                    'empty, falsy one) is THE store and there is no second one; every subscript of store and in-flight '
                    'table uses the one key; wrapped function called with exactly (*args, **kwargs); only its own result '
                    'is stored; value returned is the stored one',
        assumptions=['==/hash of argument values consistent; frozenset extensional; tuple equality element-wise'],
        not_decided=['"evicting an entry causes exactly one recomputation": bounded stand-in (custom mappings, LRU)'],
    ),
    'C03': dict(
        level='other', category='other',
        explanation='BOUNDED (not proved): contracts of this property are checked at run time on the real code by a '
                    'systematic enumeration in virtual time / under forced interleavings (scenarios/props/c03.py; bounds '
                    'in its summary line). The deductive contracts for buffered calls never lost are not discharged yet.',
        assumptions=['bounded enumeration only: nothing outside the stated bounds is covered'],
        not_decided=['everything beyond the bounds'],
        technique='bounded run-time contract checking on the real code (stand-in for contract-based deductive '
                  'verification, labelled bounded)',
    ),
    'C04': dict(
        level='other', category='other',
        explanation='BOUNDED (not proved): contracts of this property are checked at run time on the real code by a '
                    'systematic enumeration in virtual time / under forced interleavings (scenarios/props/c04.py; bounds '
                    'in its summary line). The deductive contracts for batcher own outcome are not discharged yet.',
        assumptions=['bounded enumeration only: nothing outside the stated bounds is covered'],
        not_decided=['everything beyond the bounds'],
        technique='bounded run-time contract checking on the real code (stand-in for contract-based deductive '
                  'verification, labelled bounded)',
    ),
    'C07': dict(
        level='other', category='other',
        explanation='BOUNDED (not proved): contracts of this property are checked at run time on the real code by a '
                    'systematic enumeration in virtual time / under forced interleavings (scenarios/props/c07.py; bounds '
                    'in its summary line). The deductive contracts for wait() barrier / shutdown are not discharged yet.',
        assumptions=['bounded enumeration only: nothing outside the stated bounds is covered'],
        not_decided=['everything beyond the bounds'],
        technique='bounded run-time contract checking on the real code (stand-in for contract-based deductive '
                  'verification, labelled bounded)',
    ),
    'C08': dict(
        level='other', category='other',
        explanation='BOUNDED (not proved): contracts of this property are checked at run time on the real code by a '
                    'systematic enumeration in virtual time / under forced interleavings (scenarios/props/c08.py; bounds '
                    'in its summary line). The deductive contracts for debounce are not discharged yet.',
        assumptions=['bounded enumeration only: nothing outside the stated bounds is covered'],
        not_decided=['everything beyond the bounds'],
        technique='bounded run-time contract checking on the real code (stand-in for contract-based deductive '
                  'verification, labelled bounded)',
    ),
    'C09': dict(
        level='other', category='other',
        explanation='BOUNDED (not proved): contracts of this property are checked at run time on the real code by a '
                    'systematic enumeration in virtual time / under forced interleavings (scenarios/props/c09.py; bounds '
                    'in its summary line). The deductive contracts for cancel isolation in the batcher are not discharged yet.',
        assumptions=['bounded enumeration only: nothing outside the stated bounds is covered'],
        not_decided=['everything beyond the bounds'],
        technique='bounded run-time contract checking on the real code (stand-in for contract-based deductive '
                  'verification, labelled bounded)',
    ),
    'C10': dict(
        level='other', category='other',
        explanation='BOUNDED (not proved): contracts of this property are checked at run time on the real code by a '
                    'systematic enumeration in virtual time / under forced interleavings (scenarios/props/c10.py; bounds '
                    'in its summary line). The deductive contracts for batch limits, FIFO, timeout are not discharged yet.',
        assumptions=['bounded enumeration only: nothing outside the stated bounds is covered'],
        not_decided=['everything beyond the bounds'],
        technique='bounded run-time contract checking on the real code (stand-in for contract-based deductive '
                  'verification, labelled bounded)',
    ),
    'C11': dict(
        level='other', category='other',
        explanation='BOUNDED (not proved): contracts of this property are checked at run time on the real code by a '
                    'systematic enumeration in virtual time / under forced interleavings (scenarios/props/c11.py; bounds '
                    'in its summary line). The deductive contracts for retention window are not discharged yet.',
        assumptions=['bounded enumeration only: nothing outside the stated bounds is covered'],
        not_decided=['everything beyond the bounds'],
        technique='bounded run-time contract checking on the real code (stand-in for contract-based deductive '
                  'verification, labelled bounded)',
    ),
    'C15': dict(
        level='proof', category='proof', always_standin=True,
        explanation='options forms: D(None, **opts) returns partial(D, ...) binding EVERY keyword-only parameter of D '
                    '(generated from D\'s signature in the AST) for the three decorators; direct forms: the cache store '
                    'is the caller\'s mapping, buffer_until_timeout builds BufferAsyncCalls(func, timeout=t) whose '
                    '__init__ stores them and spawns exactly one _waiter task, async_background_batcher\'s wrapper keeps '
                    'one AsyncBackgroundBatcher per running loop (weak registry, created iff absent, reused on the same '
                    'loop, independent across loops) constructed with every decorator option, whose __init__ stores each '
                    'option where the other contracts read it',
        assumptions=['functools.partial / wraps stubs; WeakKeyDictionary as a map keyed by the loop object',
                     '"behaves identically ... observed through behaviour": the behavioural comparison of the two forms '
                     'in virtual time is the bounded stand-in\'s; the proof shows the same configuration is reached'],
        not_decided=[],
    ),
    'C16': dict(
        level='other', category='other',
        explanation='BOUNDED (not proved): contracts of this property are checked at run time on the real code by a '
                    'systematic enumeration in virtual time / under forced interleavings (scenarios/props/c16.py; bounds '
                    'in its summary line). The deductive contracts for sync/async iterator bridges are not discharged yet.',
        assumptions=['bounded enumeration only: nothing outside the stated bounds is covered'],
        not_decided=['everything beyond the bounds'],
        technique='bounded run-time contract checking on the real code (stand-in for contract-based deductive '
                  'verification, labelled bounded)',
    ),
    'C17': dict(
        level='other', category='other',
        explanation='BOUNDED (not proved): contracts of this property are checked at run time on the real code by a '
                    'systematic enumeration in virtual time / under forced interleavings (scenarios/props/c17.py; bounds '
                    'in its summary line). The deductive contracts for cross-loop awaiting are not discharged yet.',
        assumptions=['bounded enumeration only: nothing outside the stated bounds is covered'],
        not_decided=['everything beyond the bounds'],
        technique='bounded run-time contract checking on the real code (stand-in for contract-based deductive '
                  'verification, labelled bounded)',
    ),
    'C18': dict(
        level='proof',
        explanation='split: ownership (each one-shot iterator consumed by exactly one of tee/map/compress), stream '
                    'denotations sel/rej as prefix-recursive spec functions, inductive lemma '
                    'compress(X, map(not_, C)) = rej(X, C) (base + step), callable mapped exactly once over the source, '
                    'nothing pulled before return; exhaust consumes everything and returns None',
        assumptions=['stub denotations of itertools.tee / compress, map, operator.not_, collections.deque(maxlen=0) '
                     '(conformance-tested): lazy, pull their source at most once per index',
                     'truthiness of a user value is a function of the value'],
        not_decided=[],
    ),
    'C19': dict(
        level='proof',
        explanation='parse_pair against the spec function model_pair for ONE ARBITRARY item (string or pair), any '
                    'separator of length >= 1, any parser raising anything; parse_to_dict = dict(map(parse_pair, '
                    'items.items() if mapping else items)); default parser is the object ast.literal_eval; no '
                    'eval/exec/compile/__import__ reachable',
        assumptions=['str.split/rsplit/partition/find and slicing stubs (z3 string theory, conformance-tested)',
                     'the parser is a pure function of its text', 'items are strings or 2-sequences',
                     'ast.literal_eval builds only literals (stdlib)', 'dict()/map() apply the function to every '
                     'element in order, last pair wins'],
        not_decided=[],
    ),
    'C20': dict(
        level='proof',
        explanation='gather_excs: one gather over ALL given awaitables with return_exceptions=True, loop invariant '
                    'out = F(R, only, i) with F the prefix-recursive filter isinstance(., only) (subclass relation '
                    'reflexive-transitive), so it yields exactly the matching exceptions in INPUT order; '
                    'raise_first_exc (modular, by gather_excs\' contract) raises F(...)[0] or returns None and forwards '
                    '`only`',
        assumptions=['asyncio.gather(*aws, return_exceptions=True): every awaitable runs to completion, results in '
                     'input order (stub, conformance-tested)'],
        not_decided=[],
    ),
}


import os as _os

_HERE = _os.path.dirname(_os.path.dirname(_os.path.abspath(__file__)))


def _scenario_cmds(prop, q):
    cmds = []
    if prop in ('C02', 'C12', 'C13'):
        cmds.append('%s -m scenarios.filelock_ops %s' % (VPY, q))
        if prop in ('C02', 'C13'):
            cmds.append('%s -m scenarios.filelock_procs %s' % (VPY, q))
    if prop in ('C18', 'C19'):
        cmds.append('%s -m scenarios.pure_props %s %s' % (VPY, prop, q))
    if _os.path.exists(_os.path.join(_HERE, 'scenarios', 'props', prop.lower() + '.py')):
        cmds.append('%s -m scenarios.aio_props %s %s' % (VPY, prop, q))
    return cmds


def replay_for(prop, obligation):
    """Scenario commands (run under /venv/bin/python from /verif) that may exhibit a failed obligation
    on the real code; the first one exiting non-zero becomes the replay."""
    return _scenario_cmds(prop, '--quick')


def standin_for(prop, tier):
    """Bounded stand-ins / cross-checks (labelled bounded, never counted as proved)."""
    return _scenario_cmds(prop, '--quick' if tier == 'quick' else '--thorough')
