"""Per-property registry: level, assumptions, replay scenarios and bounded stand-ins."""

VPY = '/venv/bin/python'

TRUSTED_BASE = [
    'pyvc VC generator: its semantics for the Python AST subset is CPython 3.12 (cross-checked by selftest, not proved)',
    'z3-solver 5.1.0 (cvc5 1.0.3 for z3 `unknown`)',
    'stub contracts of library operations (listed as stub:<name>), conformance-tested against CPython 3.12.1',
    'GIL atomicity of single dict/list/attribute operations; Python int mathematical; float as real',
    'ghost clock: computation between blocking points takes no time',
]

_KERNEL = 'kernel: flock() exclusivity per open file description, released on close and at process death (local fs)'

PROPERTIES = {
    'C02': dict(
        level='proof',
        explanation='acquire/__enter__/acquire_ctx success => caller owns the in-process lock and an exclusive '
                    'flock on a fresh open file description; ownership discipline at every write; ordering on release; '
                    'exclusion lemma over the contracts',
        assumptions=[_KERNEL, 'threading.Lock/RLock mutual exclusion',
                     'every thread runs this same code (ownership discipline proved for one arbitrary thread)'],
        not_decided=['free-running contention of 16 OS processes rests on the kernel stub only'],
    ),
    'C12': dict(
        level='proof',
        explanation='FileLock against the abstract view (held_by, depth): whole-state postconditions of acquire/'
                    'release/__enter__/__exit__/acquire_ctx/__del__/__init__ under nondeterministic OSError faults at '
                    'every os.open/flock/close, polling-loop invariant with ghost clock; unbounded histories via the '
                    'well-formedness invariant',
        assumptions=[_KERNEL, 'release() on an unheld lock does not race with another thread acquiring it (A-rel)',
                     'the body of a with-block leaves the lock as it found it (A-body)',
                     'timeouts are None, -1 or >= 0; poll_interval >= 0'],
        not_decided=[],
    ),
    'C13': dict(
        level='proof',
        explanation='frame condition: on every path of every filelock function the only world effects are '
                    'os.open(lock_file, O_RDWR|O_CREAT[|O_TRUNC], no O_EXCL), flock, close, sleep; success of acquire '
                    'depends on flock only; with the kernel stub (a dead process owns no OFD) no crash point can leave '
                    'persistent ownership',
        assumptions=[_KERNEL],
        not_decided=['"promptly" is the kernel\'s'],
    ),
    'C18': dict(
        level='proof',
        explanation='split: ownership (each one-shot iterator consumed by exactly one of tee/map/compress), stream '
                    'denotations sel/rej as prefix-recursive spec functions, inductive lemma '
                    'compress(X, map(not_, C)) = rej(X, C) (base + step), callable mapped exactly once over the source, '
                    'nothing pulled before return; exhaust consumes everything and returns None',
        assumptions=['stub denotations of itertools.tee / compress, map, operator.not_, collections.deque(maxlen=0) '
                     '(conformance-tested): lazy, pull their source at most once per index',
                     'truthiness of a user value is a function of the value'],
        not_decided=[],
    ),
    'C19': dict(
        level='proof',
        explanation='parse_pair against the spec function model_pair for ONE ARBITRARY item (string or pair), any '
                    'separator of length >= 1, any parser raising anything; parse_to_dict = dict(map(parse_pair, '
                    'items.items() if mapping else items)); default parser is the object ast.literal_eval; no '
                    'eval/exec/compile/__import__ reachable',
        assumptions=['str.split/rsplit/partition/find and slicing stubs (z3 string theory, conformance-tested)',
                     'the parser is a pure function of its text', 'items are strings or 2-sequences',
                     'ast.literal_eval builds only literals (stdlib)', 'dict()/map() apply the function to every '
                     'element in order, last pair wins'],
        not_decided=[],
    ),
    'C20': dict(
        level='proof',
        explanation='gather_excs: one gather over ALL given awaitables with return_exceptions=True, loop invariant '
                    'out = F(R, only, i) with F the prefix-recursive filter isinstance(., only) (subclass relation '
                    'reflexive-transitive), so it yields exactly the matching exceptions in INPUT order; '
                    'raise_first_exc (modular, by gather_excs\' contract) raises F(...)[0] or returns None and forwards '
                    '`only`',
        assumptions=['asyncio.gather(*aws, return_exceptions=True): every awaitable runs to completion, results in '
                     'input order (stub, conformance-tested)'],
        not_decided=[],
    ),
}


import os as _os

_HERE = _os.path.dirname(_os.path.dirname(_os.path.abspath(__file__)))


def _scenario_cmds(prop, q):
    cmds = []
    if prop in ('C02', 'C12', 'C13'):
        cmds.append('%s -m scenarios.filelock_ops %s' % (VPY, q))
        if prop in ('C02', 'C13'):
            cmds.append('%s -m scenarios.filelock_procs %s' % (VPY, q))
    if prop in ('C18', 'C19'):
        cmds.append('%s -m scenarios.pure_props %s %s' % (VPY, prop, q))
    if _os.path.exists(_os.path.join(_HERE, 'scenarios', 'props', prop.lower() + '.py')):
        cmds.append('%s -m scenarios.aio_props %s %s' % (VPY, prop, q))
    return cmds


def replay_for(prop, obligation):
    """Scenario commands (run under /venv/bin/python from /verif) that may exhibit a failed obligation
    on the real code; the first one exiting non-zero becomes the replay."""
    return _scenario_cmds(prop, '--quick')


def standin_for(prop, tier):
    """Bounded stand-ins / cross-checks (labelled bounded, never counted as proved)."""
    return _scenario_cmds(prop, '--quick' if tier == 'quick' else '--thorough')
