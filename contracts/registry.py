"""Per-property registry: level, assumptions, replay scenarios and bounded stand-ins."""

VPY = '/venv/bin/python'

TRUSTED_BASE = [
    'pyvc VC generator: its semantics for the Python AST subset is CPython 3.12 (cross-checked by selftest, not proved)',
    'z3-solver 5.1.0 (cvc5 1.0.3 for z3 `unknown`)',
    'stub contracts of library operations (listed as stub:<name>), conformance-tested against CPython 3.12.1',
    'GIL atomicity of single dict/list/attribute operations; Python int mathematical; float as real',
    'ghost clock: computation between blocking points takes no time',
]

_KERNEL = 'kernel: flock() exclusivity per open file description, released on close and at process death (local fs)'

import os as _os0
# the rely/guarantee proof of the cache's _wrapper is only registered once it discharges within budget
_RG_LEVEL = 'proof'

PROPERTIES = {
    'C02': dict(
        level='proof', always_standin=True,
        explanation='acquire/__enter__/acquire_ctx success => caller owns the in-process lock and an exclusive '
                    'flock on a fresh open file description; ownership discipline at every write; ordering on release; '
                    'exclusion lemma over the contracts',
        assumptions=[_KERNEL, 'threading.Lock/RLock mutual exclusion',
                     'every thread runs this same code (ownership discipline proved for one arbitrary thread)'],
        not_decided=['free-running contention of 16 OS processes rests on the kernel stub only'],
    ),
    'C12': dict(
        level='proof', always_standin=True,
        explanation='FileLock against the abstract view (held_by, depth): whole-state postconditions of acquire/'
                    'release/__enter__/__exit__/acquire_ctx/__del__/__init__ under nondeterministic OSError faults at '
                    'every os.open/flock/close, polling-loop invariant with ghost clock; unbounded histories via the '
                    'well-formedness invariant',
        assumptions=[_KERNEL, 'release() is not called by a thread while ANOTHER thread fully holds the lock through the same object (A-rel); a release during another thread\'s polling acquire is covered',
                     'the body of a with-block leaves the lock as it found it (A-body)',
                     'timeouts are None, -1 or >= 0; poll_interval >= 0'],
        not_decided=[],
    ),
    'C13': dict(
        level='proof', always_standin=True,
        explanation='frame condition: on every path of every filelock function the only world effects are '
                    'os.open(lock_file, O_RDWR|O_CREAT[|O_TRUNC], no O_EXCL), flock, close, sleep; success of acquire '
                    'depends on flock only; with the kernel stub (a dead process owns no OFD) no crash point can leave '
                    'persistent ownership',
        assumptions=[_KERNEL],
        not_decided=['"promptly" is the kernel\'s'],
    ),
    'C01': dict(
        level=_RG_LEVEL, category=_RG_LEVEL, always_standin=True,
        explanation='threadsafe_async_cache._wrapper under rely/guarantee with ghost attempts: invariant "a live or '
                    'finalising invocation holds the in-flight marker", guarantee = declared atomic actions (install only '
                    'under the lock over no/dead marker with no success so far, store only the own result, remove only the '
                    'own marker), obligations at the invocation site: never after a success, never while another '
                    'invocation is live on a running loop; lemma single-flight; any number of threads, loops, callers',
        assumptions=['threading.Lock mutual exclusion; GIL atomicity of single dict operations; is_running()/is_closed() '
                     'return the current truth; a loop does not stop in the middle of a task step',
                     'loops are not restarted with a call pending other than to deliver cancellations (property text)',
                     'the cache mapping retains entries (eviction variant: bounded stand-in only)',
                     'rely = stable predicates, each proved stable under every declared action of other callers and of '
                     'the environment (side conditions)'],
        not_decided=[],
    ),
    'C05': dict(
        level=_RG_LEVEL, category=_RG_LEVEL, always_standin=True,
        explanation='safety kernel of the liveness property, on _wrapper under the same rely/guarantee contract: on '
                    'every exit after installing a marker (return, exception, cancellation) the own event is set and the '
                    'own marker removed, lock released; a waiter blocks on the MARKER\'s event, directly iff on the '
                    'marker\'s loop else through run_coroutine_threadsafe+wrap_future on the marker\'s loop, under '
                    'wait_for(<=60 s); every back-edge of the retry loop is preceded by a suspended wait or by having '
                    'observed the marker\'s loop closed',
        assumptions=['each invocation of the wrapped function finishes or is cancelled; thread / loop fairness'],
        not_decided=['"every call finishes", "promptly", "within the safety window" are liveness/real-time: only the '
                     'bounded stand-in (virtual time, real threads under a director) exercises them'],
    ),
    'C06': dict(
        level=_RG_LEVEL, category=_RG_LEVEL, always_standin=True,
        explanation='exceptional postconditions of _wrapper under rely/guarantee with cancellation and foreign-loop '
                    'shutdown in the rely: Exception only from the invocation this call performed; CancelledError only '
                    'if this caller\'s own task was cancelled (a foreign cancellation of the shielded waiter loops '
                    'around); no bookkeeping KeyError (del requires the marker present); only the own result is cached; '
                    'a failed computation caches nothing',
        assumptions=['Task.cancelling() (3.11+) reports pending cancellation requests of the current task',
                     'shield/wait_for/wrap_future outcome stubs (conformance-tested)'],
        not_decided=['"never delays any other caller beyond a recomputation" (timing): bounded stand-in'],
    ),
    'C14': dict(
        level='proof', category='proof', always_standin=True,
        explanation='key construction proved equivalent to same_call (positional equal in order, keywords equal as a set '
                    'of pairs) by constructor theory of tuple/frozenset/dict views; a caller-supplied mapping (even an '
                    'empty, falsy one) is THE store and there is no second one; every subscript of store and in-flight '
                    'table uses the one key; wrapped function called with exactly (*args, **kwargs); only its own result '
                    'is stored; value returned is the stored one',
        assumptions=['==/hash of argument values consistent; frozenset extensional; tuple equality element-wise'],
        not_decided=['"evicting an entry causes exactly one recomputation": bounded stand-in (custom mappings, LRU)'],
    ),
    'C03': dict(
        level='proof', category='proof', always_standin=True,
        explanation='safety kernel of "never lost", as per-function contracts on the real code: _process_queue, '
                    'pointwise for an ARBITRARY producer dequeued in the round and an arbitrary element it produced: loop '
                    'invariant "pending in input_gens or loaded with the element in the round\'s set", the set is the one '
                    'set of the round and is what the wrapped function receives, every dequeued producer is loaded before '
                    'the function runs, the round continues only after a new producer or a FAILED call and ends only after '
                    'a successful one (never on the shared flag another thread can clear); _load_inputs keeps everything '
                    'produced before a producer ends or fails and swallows the failure; _run_func: True <=> success <=> '
                    'flag set, failure leaves flag and inputs alone; _put clears the flag then schedules exactly one '
                    'thread-safe put of the producer; __call__/await_/map/amap hand exactly one producer built from the '
                    'argument; _waiter runs rounds forever, inline',
        assumptions=['A-propagate: user code resumed with the task\'s cancellation propagates it',
                     'FIFO of call_soon_threadsafe callbacks; asyncio.Queue FIFO; gather runs every pending load',
                     'the step from the per-function contracts to "every submitted value is in exactly one of queue / '
                     'pending / inputs / delivered" is a hand lemma (DESIGN section 7), not machine-checked'],
        not_decided=['"eventually" (the retry loop meets a succeeding call; the daemon is scheduled): liveness; the '
                     'bounded stand-in runs timed programs with failing calls and foreign threads'],
    ),
    'C04': dict(
        level='proof', category='proof', always_standin=True,
        explanation='_process_batch against an ARBITRARY stream of the batch function (any keys incl. unknown and '
                    'repeated, any order, any values, then end or Exception), pointwise for an arbitrary task of the '
                    'batch: loop invariant "registered => pending; answered => holds the FIRST element yielded for its own '
                    'key (Exception instance -> exception, else result)"; at every exit every future of the batch is done, '
                    'with its own key\'s element or with the batch function\'s exception / KeyError of an unknown or '
                    'repeated key / ValueError missing, never another key\'s value; nothing escapes the batch task; '
                    '__call__ returns/raises exactly the outcome of the future registered under its key',
        assumptions=['keys of a batch pairwise distinct (carried by C11\'s entry invariant) and futures distinct',
                     'Future.set_result/set_exception/done stubs; exception values Future.set_exception accepts',
                     'a batch function raising a non-Exception BaseException is outside the listed behaviours',
                     'completion of the CALLER needs the loop to schedule it (liveness): bounded stand-in'],
        not_decided=['"every call completes" as termination: each future is proved DONE at the batch task\'s exit'],
    ),
    'C07': dict(
        level='proof', category='proof', always_standin=True,
        explanation='safety kernel of the barrier and of shutdown: in _process_queue the flag is cleared after q.get() '
                    'returns and before the first task_done() with no suspension between; each producer received in the '
                    'round is marked done exactly once; the flag stays clear until a successful call; the round is left '
                    'exceptionally only when the task is being cancelled, and a pending cancellation is never swallowed by '
                    '_run_func / _load_inputs / the timed read (only wait()\'s flush request or the time-out mean "flush '
                    'now"); wait(): join first, at most one flush request, only if asked, only on a still pending read, '
                    'after yielding once, flag set before cancel, then waits for the completion flag; _put clears the '
                    'flag before handing the producer over; _empty_queue marks done exactly what it yields',
        assumptions=['A-propagate; Task.cancelling() (3.11+) reports a pending cancellation of the current task',
                     'FIFO between the scheduled put and a later wait() of the same thread (Appendix B of DESIGN)',
                     'hand lemma: with these contracts, join + flag-set imply every earlier submission was in a successful '
                     'call'],
        not_decided=['"wait() itself always returns once the function can succeed": liveness (bounded stand-in)'],
    ),
    'C08': dict(
        level='proof', category='proof', always_standin=True,
        explanation='the wrapped function is called at exactly one site (_run_func), inline, at most once per attempt, '
                    'with the round\'s own set and never with an empty one; _run_func is awaited inline by _process_queue, '
                    'which is awaited inline, one at a time, forever, by _waiter, of which __init__ creates exactly one task '
                    '(so calls cannot overlap); _schedule_with_timeout runs wait_for(coro, THIS object\'s timeout) on the '
                    'instance\'s loop; every iteration of the round re-arms the timed read before loading and awaits the '
                    'read armed in that iteration; the timed read is a read of the queue',
        assumptions=['a coroutine awaited inline runs within its awaiter; wait_for stub; computation takes no ghost time'],
        not_decided=['the debounce as a timed statement ("one call per burst, timeout after its last arrival"): '
                     'follows from the re-arming obligations under the ghost clock by a hand argument; measured in '
                     'virtual time only by the bounded stand-in'],
    ),
    'C09': dict(
        level='proof', category='proof', always_standin=True,
        explanation='with cancellation of callers in the rely: __call__ awaits the per-key future only through shield '
                    '(both awaits), so cancelling a caller changes no future another caller awaits; a cancelled owner '
                    'leaves exactly one done-callback that forgets the entry once answered (entry invariant inv_k at '
                    'every suspension and exit); _process_batch with futures possibly done/cancelled by the '
                    'environment at every suspension: every set_* establishes its precondition, no InvalidStateError '
                    'reaches a bystander, nothing escapes the batch task, every other future still gets its own outcome',
        assumptions=['Task cancellation / shield stubs (Appendix B of DESIGN)'],
        not_decided=['"the batcher keeps serving later calls": processing loop untouched by cancellation (frame), '
                     'exercised by the bounded stand-in'],
    ),
    'C10': dict(
        level='proof', category='proof', always_standin=True,
        explanation='_get_next_batch with a prophecy ghost of the arrival sequence and a ghost clock: loop invariant '
                    '"tasks = the contiguous FIFO block dequeued so far, |tasks| <= largest limit in force, last member '
                    'arrived by now"; result non-empty, <= max_batch_size (also when mutated at suspensions), next block '
                    'in arrival order; leaves only when full or after exactly batch_timeout of silence measured from the '
                    'moment the last member joined; every iteration dequeues or waits (no spinning); return [] only on a '
                    'closed loop.  _processing_loop spawns exactly one background task per assembled batch on the '
                    'batcher\'s loop and never awaits it.  _process_batch iterates the batch function inside '
                    '`async with semaphore` (released as often as acquired) with the (key,arg) list in batch order; '
                    '__init__ creates Semaphore(max_concurrent_batches) and an unbounded FIFO queue',
        assumptions=['asyncio.Queue FIFO; wait_for(q.get(), T) completes in the step the getter resolves (3.12); '
                     'list.extend(islice(iter(get_nowait, sentinel), n)) keeps what it appended before QueueEmpty',
                     'semaphore: at most `value` holders (stub); computation takes no ghost time'],
        not_decided=['"never more than max_concurrent_batches executions": follows from the semaphore stub and the '
                     'scope obligation; the occupancy itself is measured only by the bounded stand-in'],
    ),
    'C11': dict(
        level='proof', category='proof', always_standin=True,
        explanation='__call__ / _forget pointwise for the call\'s key with ghost accounting of one retention entry '
                    '(pend / owed / tmr) and entry invariant inv_k proved at every suspension and exit: a key with an entry '
                    'enqueues nothing, evicts nothing and awaits that entry\'s future; a key without entry creates exactly '
                    'one future, registers it, enqueues exactly one (key,arg,future); the owner forgets exactly once '
                    '(immediately iff retention_timeout = 0, else one call_later(retention_timeout, pop, key)); default '
                    'key is str(arg); the retention cache is only subscripted with the call\'s key',
        assumptions=['eviction timers fire at their deadline (ghost clock); no caller cancelled for C11 itself',
                     'at most one unanswered tuple per key follows from inv_k (pend => entry present) by induction over '
                     'the actions (hand lemma over the proved per-action obligations)'],
        not_decided=['"a call after the window never receives the old result" as a timed statement: bounded stand-in'],
    ),
    'C15': dict(
        level='proof', category='proof', always_standin=True,
        explanation='options forms: D(None, **opts) returns partial(D, ...) binding EVERY keyword-only parameter of D '
                    '(generated from D\'s signature in the AST) for the three decorators; direct forms: the cache store '
                    'is the caller\'s mapping, buffer_until_timeout builds BufferAsyncCalls(func, timeout=t) whose '
                    '__init__ stores them and spawns exactly one _waiter task, async_background_batcher\'s wrapper keeps '
                    'one AsyncBackgroundBatcher per running loop (weak registry, created iff absent, reused on the same '
                    'loop, independent across loops) constructed with every decorator option, whose __init__ stores each '
                    'option where the other contracts read it',
        assumptions=['functools.partial / wraps stubs; WeakKeyDictionary as a map keyed by the loop object',
                     '"behaves identically ... observed through behaviour": the behavioural comparison of the two forms '
                     'in virtual time is the bounded stand-in\'s; the proof shows the same configuration is reached'],
        not_decided=[],
    ),
    'C16': dict(
        level='proof', category='proof', always_standin=True,
        explanation='both bridges for an arbitrary source (any elements, then end or ANY exception): producer loop '
                    'invariant handed_over = src[:i]; producer contract "on every exit the channel holds src followed by '
                    'the sentinel exactly once and last, and it fails exactly when the source does" proved, then used by '
                    'the consumer; consumer loop invariant out = channel[:d]; the loop test is identity with the private '
                    'sentinel; result out = src, then the source\'s own exception is re-raised (future awaited / '
                    'result() taken) or normal end; executor used as a context manager around every use (no helper thread '
                    'left), worker runs in it; a synchronous ITERATOR is only ever advanced inside the function handed to '
                    'the executor; non-iterators inline',
        assumptions=['producer steps commute to the left of consumer steps (the producer reads no shared state; get() '
                     'blocks until the next element of the same FIFO sequence is there), so running the producer to '
                     'completion inside the run_in_executor / submit stub is representative of every interleaving',
                     'FIFO of call_soon_threadsafe callbacks per thread and of queue.Queue; no source yields the end '
                     'marker (backed by the obligation that _DONE is defined as a fresh object())',
                     'ThreadPoolExecutor.__exit__ = shutdown(wait=True)'],
        not_decided=['"does not block the event loop" as responsiveness: only WHERE the blocking statement runs is '
                     'proved; the heartbeat measurement is the bounded stand-in\'s'],
    ),
    'C17': dict(
        level='proof', category='proof', always_standin=True,
        explanation='ensure_aw / run_aw_threadsafe: result or exception is exactly the awaitable\'s, and the awaitable '
                    'is evaluated exactly once with the TARGET loop as running loop on every branch (own loop inline; '
                    'running target through run_coroutine_threadsafe+wrap_future; idle target through '
                    'loop.run_until_complete in a pool thread); RuntimeError only for a closed foreign target; every '
                    'run_until_complete / run_forever happens while holding the per-loop lock, released on every exit; '
                    '_get_loop_lock under thread interference returns THE lock registered for id(loop), entries created '
                    'only under the creation lock and never replaced, removal only by the loop\'s finalizer; '
                    'loop_in_thread returns only after observing is_running(); its stop function schedules loop.stop '
                    'thread-safely and joins the loop thread',
        assumptions=['only these helpers run the loops concerned (lock discipline is proved for them, not for '
                     'arbitrary user code)', 'wrap_future / run_in_executor are outcome-preserving bridges',
                     'fewer than 32 loops are borrowed through ensure_aw or run through loop_in_thread at any one time '
                     '(capacity of the shared pool; the obligation resource.cross_loop_pool_has_a_fixed_capacity_of_'
                     'at_least_32 keeps the constant from shrinking or depending on the host)'],
        not_decided=['"every ensure_aw call completes when its awaitable does" is liveness; its safety kernel '
                     'pre(run_coroutine_threadsafe).target_keeps_running FAILS on the current tree (known finding D8)'],
    ),
    'C18': dict(
        level='proof', always_standin=True,
        explanation='split: ownership (each one-shot iterator consumed by exactly one of tee/map/compress), stream '
                    'denotations sel/rej as prefix-recursive spec functions, inductive lemma '
                    'compress(X, map(not_, C)) = rej(X, C) (base + step), callable mapped exactly once over the source, '
                    'nothing pulled before return; exhaust consumes everything and returns None',
        assumptions=['stub denotations of itertools.tee / compress, map, operator.not_, collections.deque(maxlen=0) '
                     '(conformance-tested): lazy, pull their source at most once per index',
                     'truthiness of a user value is a function of the value'],
        not_decided=[],
    ),
    'C19': dict(
        level='proof', always_standin=True,
        explanation='parse_pair against the spec function model_pair for ONE ARBITRARY item (string or pair), any '
                    'separator of length >= 1, any parser raising anything; parse_to_dict = dict(map(parse_pair, '
                    'items.items() if mapping else items)); default parser is the object ast.literal_eval; no '
                    'eval/exec/compile/__import__ reachable',
        assumptions=['str.split/rsplit/partition/find and slicing stubs (z3 string theory, conformance-tested)',
                     'the parser is a pure function of its text', 'items are strings or 2-sequences',
                     'ast.literal_eval builds only literals (stdlib)', 'dict()/map() apply the function to every '
                     'element in order, last pair wins'],
        not_decided=[],
    ),
    'C20': dict(
        level='proof', always_standin=True,
        explanation='gather_excs: one gather over ALL given awaitables with return_exceptions=True, loop invariant '
                    'out = F(R, only, i) with F the prefix-recursive filter isinstance(., only) (subclass relation '
                    'reflexive-transitive), so it yields exactly the matching exceptions in INPUT order; '
                    'raise_first_exc (modular, by gather_excs\' contract) raises F(...)[0] or returns None and forwards '
                    '`only`',
        assumptions=['asyncio.gather(*aws, return_exceptions=True): every awaitable runs to completion, results in '
                     'input order (stub, conformance-tested)'],
        not_decided=[],
    ),
}


import os as _os

_HERE = _os.path.dirname(_os.path.dirname(_os.path.abspath(__file__)))


def _scenario_cmds(prop, q):
    cmds = []
    if prop in ('C02', 'C12', 'C13'):
        cmds.append('%s -m scenarios.filelock_ops %s' % (VPY, q))
        if prop in ('C02', 'C13'):
            cmds.append('%s -m scenarios.filelock_procs %s' % (VPY, q))
    if prop in ('C18', 'C19'):
        cmds.append('%s -m scenarios.pure_props %s %s' % (VPY, prop, q))
    if _os.path.exists(_os.path.join(_HERE, 'scenarios', 'props', prop.lower() + '.py')):
        cmds.append('%s -m scenarios.aio_props %s %s' % (VPY, prop, q))
    return cmds


def replay_for(prop, obligation):
    """Scenario commands (run under /venv/bin/python from /verif) that may exhibit a failed obligation
    on the real code; the first one exiting non-zero becomes the replay."""
    return _scenario_cmds(prop, '--quick')


def standin_for(prop, tier):
    """Bounded stand-ins / cross-checks (labelled bounded, never counted as proved)."""
    return _scenario_cmds(prop, '--quick' if tier == 'quick' else '--thorough')
