"""
Sidecar contracts for the iterator bridges (C16) and cross-loop awaiting (C17).

C16  Two agents share only a FIFO hand-off.  The producer never reads shared state, and the consumer's
     blocking get() returns the next element of the same sequence whatever the timing, so producer steps
     commute to the left of consumer steps: the harness runs the producer function to completion inside
     the stub of run_in_executor / pool.submit (in "worker" context) and then lets the consumer read the
     channel.  Ghost: src (elements the source yields), fails (it then raises `fail`), chan (what was
     handed over, in order).  _DONE is a private sentinel: no source element is that object.
"""
import z3

from pyvc.values import *  # noqa: F401,F403
from pyvc.engine import PyExc, PathEnd, Unsupported, Frame, _Return
from pyvc import stubs, aio
from pyvc.aio import LoopS, VS, is_exc, cls_of, val_of_exc, suspend
from pyvc.stubs import wget

MOD = 'aiuti.asyncio'
I = z3.IntSort()
B = z3.BoolSort()
DONE = z3.Const('the_private_DONE_sentinel', ValS)


def sentinel_obligation(E, Qn):
    """the contracts ASSUME that no source element is the end-of-stream marker: true only for a fresh private
    object -- the module must define it as `object()`"""
    import ast as _ast
    d = E.modules[MOD].assigns.get('_DONE')
    ok = isinstance(d, _ast.Call) and isinstance(d.func, _ast.Name) and d.func.id == 'object' and not d.args \
        and not d.keywords
    E.oblige(Qn + '/sentinel.end_marker_is_a_fresh_private_object', z3.BoolVal(bool(ok)), props={'C16', 'C03'},
             detail='_DONE = %s: a source may yield that value (None, a constant, ...) and the stream then ends early'
                    % (_ast.unparse(d) if d is not None else '<not a module-level assignment>'))


def engine(E, props):
    stubs.install_all(E)
    aio.install(E)
    aio.install_objects(E)
    E.props_default = frozenset(props)
    E.builtins[('module', MOD, '_DONE')] = VVal(DONE)

    def ident(E_, a, b):
        for x, y in ((a, b), (b, a)):
            if isinstance(x, VVal) and z3.eq(x.t, DONE) and isinstance(y, VVal) and y.t.sort() == ValS:
                return True if z3.eq(y.t, DONE) else y.t == DONE     # object(): identical iff it is that object
        return None
    E.builtins['__identical__'] = ident
    says_equal = z3.Function('element_eq_says_yes_to_the_sentinel', ValS, B)

    def eq_hook(E_, a, b):
        # `==` against the sentinel asks the ELEMENT's __eq__ (an element may answer yes to anything, like
        # unittest.mock.ANY); only identity is reliable
        for x, y in ((a, b), (b, a)):
            if isinstance(x, VVal) and z3.eq(x.t, DONE) and isinstance(y, VVal) and y.t.sort() == ValS:
                return True if z3.eq(y.t, DONE) else z3.Or(y.t == DONE, says_equal(y.t))
        return None
    E.builtins['__eq__'] = eq_hook


class Source:
    """The iterable handed to the bridge: yields src, then ends or raises `fail`."""

    def __init__(self, E, is_async):
        self.src = E.fresh('src', VS)
        self.fails = E.fresh('source_fails', B)
        c = E.fresh('source_exc', ClsS)
        E.need_hierarchy()
        E.assume(sub(c, EXC['BaseException'].term))
        self.exc = VExc(c, (), info={'origin': 'source'})
        val_of_exc(E, self.exc)
        self.obj = Obj('SourceIterable', dict(is_async=is_async))
        self.pulled = z3.IntVal(0)
        self.iterations = 0
        # bool(source): the caller's object decides (a lazy cursor whose len() is "rows fetched so far", a collection
        # loaded on first iteration, ...): falsy does NOT mean "yields nothing"
        truthy_ = E.fresh('bool_of_the_source_object', B)
        prev = E.builtins.get('__truth__')
        E.builtins['__truth__'] = lambda E_, v: (truthy_ if v is self.obj else prev(E_, v) if prev else None)


def source_loop(E, src_of, st, qual, out_inv, modifies=('chan', 'gen_out')):
    """`for x in iterable` / `async for x in iterable` over the source: invariant from `out_inv(i)`."""
    def hook(E_, stn, fr, kind, it):
        S_ = src_of(it)
        if S_ is None:
            raise Unsupported('loop over %r' % (it,), stn)
        S_.iterations += 1
        E.oblige(qual + '/source.iterated_at_most_once', z3.BoolVal(S_.iterations == 1))
        if st.get('must_be_worker') is not None and not st.get('in_worker'):
            E.oblige(qual + '/effect.blocking_iteration_only_in_the_helper_thread', z3.Not(st['must_be_worker']),
                     props={'C16'}, detail='a synchronous ITERATOR (any kind) is advanced on the event-loop thread')
        idx = {'i': z3.IntVal(0)}
        src = S_.src

        def inv(tag):
            i = idx['i']
            return [('index_in_range', z3.And(i >= 0, i <= z3.Length(src)))] + out_inv(i)

        def havoc():
            idx['i'] = E.fresh('i', I)
            for k in modifies:
                if k in E.w:
                    E.w[k] = E.fresh(k, VS)

        def test():
            if kind == 'asyncfor':
                suspend(E, 'source step', stn)
            more = E.branch(idx['i'] < z3.Length(src))
            if not more:
                S_.pulled = idx['i']
                if E.branch(S_.fails):
                    raise PyExc(S_.exc)
            return more

        def bind():
            E.assume(src[idx['i']] != DONE)          # the private sentinel is not an element of any source
            E.assign(stn.target, VVal(src[idx['i']]), fr)

        def step():
            idx['i'] = idx['i'] + 1
        E.cut_loop(stn, fr, inv, havoc, test=test, bind=bind, label='source', step=step)
    return hook


def executor_with(E, st, qual):
    def with_(E_, cm, is_async, node):
        if isinstance(cm, Obj) and cm.cls == 'Executor':
            def enter():
                st['pool_open'] = True
                st['pools'] = st.get('pools', 0) + 1
                return cm

            def exit_(exc):
                # ThreadPoolExecutor.__exit__ -> shutdown(wait=True): joins the worker thread
                st['pool_open'] = False
                E.effect('executor.shutdown')
                return False
            return enter, exit_
        return None
    E.builtins['__with_ext__'] = with_


# ------------------------------------------------------------------ to_async_iter
def t_to_async_iter(E):
    engine(E, {'C16'})
    mod = E.modules[MOD]
    fn = mod.functions.get('to_async_iter')
    if fn is None:
        raise Unsupported('to_async_iter no longer exists')
    f = VFunc(fn, None, mod, MOD + '.to_async_iter')
    Qn = f.qualname
    E.cur_func = Qn
    st = {}

    def body():
        st.clear()
        S_ = Source(E, False)
        st['S'] = S_
        is_iter = E.fresh_bool('iterable_is_an_Iterator')
        is_gen = E.fresh_bool('iterable_is_a_Generator')
        E.assume(z3.Implies(is_gen.t, is_iter.t))
        E.w['chan'] = z3.Empty(VS)
        E.w['gen_out'] = z3.Empty(VS)
        E.w['deq'] = z3.IntVal(0)
        Bn = E.builtins
        Bn[('import', 'typing:Iterator')] = VClass('typing.Iterator')
        Bn['__isinstance_ext__'] = lambda E_, o, c: (
            VBool(is_iter.t) if o is S_.obj and getattr(c, 'name', '') == 'typing.Iterator' else
            VBool(is_gen.t) if o is S_.obj and getattr(c, 'name', '') == 'typing.Generator' else None)
        st['must_be_worker'] = None
        src_of = lambda it: S_ if it is S_.obj else None   # noqa: E731

        def eager_copy(E_, v, node):
            if v is S_.obj:
                E.oblige(Qn + '/effect.source_is_pulled_one_element_per_yield', z3.BoolVal(False), props={'C16', 'C03'},
                         detail='tuple()/list()/sorted()/unpacking of the source pulls it dry first: a source that '
                                'fails after n elements delivers none of them, an endless or slow one delivers nothing')
                raise PathEnd()
            return None
        Bn['__unpack__'] = eager_copy

        def on_yield(E_, fr, v, node):
            if not (isinstance(v, VVal) and v.t.sort() == ValS):
                raise Unsupported('yield of %r' % (v,), node)
            E.w['gen_out'] = z3.Concat(E.w['gen_out'], z3.Unit(v.t))
            return NONE
        E.hooks[(Qn, 'yield')] = on_yield
        # loop #0 of to_async_iter: inline iteration (non-iterator branch): out = src[:i]
        E.hooks[(Qn, 'loop', 0)] = source_loop(E, src_of, st, Qn, lambda i: [
            ('yielded_so_far_is_the_source_prefix', E.w['gen_out'] == z3.Extract(S_.src, 0, i))],
            modifies=('gen_out',))
        # loop #0 of _queue_elements: producer: handed over = src[:i]
        QE = Qn + '.<locals>._queue_elements'
        E.hooks[(QE, 'loop', 0)] = source_loop(E, src_of, st, Qn, lambda i: [
            ('handed_over_so_far_is_the_source_prefix', E.w['chan'] == z3.Extract(S_.src, 0, i))],
            modifies=('chan',))

        def consumer_loop(E_, stn, fr, kind, it):
            """`while (i := await q.get()) is not _DONE: yield i`"""
            chan = E.w['chan']

            def inv(tag):
                d = E.w['deq']
                return [('consumed_prefix_was_yielded_in_order', z3.And(
                    d >= 0, d <= z3.Length(chan), E.w['gen_out'] == z3.Extract(chan, 0, d),
                    d <= z3.Length(S_.src)))]

            def havoc():
                E.w['deq'] = E.fresh('deq', I)
                E.w['gen_out'] = E.fresh('gen_out', VS)
                d = E.w['deq']
                # instance of the sequence lemma proved in isolation by bridges.lemmas
                E.assume(z3.Implies(z3.And(d >= 0, d < z3.Length(chan)),
                                    z3.Extract(chan, 0, d + 1) == z3.Concat(z3.Extract(chan, 0, d), z3.Unit(chan[d]))))
            E.cut_loop(stn, fr, inv, havoc, test=lambda: E.is_true(E.eval(stn.test, fr)), label='consume')
        E.hooks[(Qn, 'loop', 1)] = consumer_loop

        def loop_attr(E_, o, name, node):
            if isinstance(o, VVal) and o.t.sort() == LoopS:
                if name == 'call_soon_threadsafe':
                    def cst(E_, a, k):
                        """FIFO between call_soon_threadsafe callbacks of one thread (DESIGN appendix B)."""
                        fn_, args = a[0], a[1:]
                        ok = isinstance(fn_, VStub) and fn_.name == 'Queue.put_nowait' and len(args) == 1
                        if not ok:
                            raise Unsupported('call_soon_threadsafe(%r)' % (fn_,), node)
                        ms = fn_.attrs.get('q').fields.get('maxsize') if fn_.attrs.get('q') is not None else None
                        E.oblige(Qn + '/pre(put_nowait).hand_over_queue_is_unbounded',
                                 z3.BoolVal(isinstance(ms, VInt) and ms.concrete() is not None and ms.concrete() <= 0),
                                 props={'C16', 'C03'})
                        x = args[0]
                        if not isinstance(x, VVal):
                            raise Unsupported('put of %r' % (x,), node)
                        E.w['chan'] = z3.Concat(E.w['chan'], z3.Unit(x.t))
                        st['puts'] = st.get('puts', 0) + 1
                        return NONE
                    return VStub('loop.call_soon_threadsafe', cst)
                if name == 'call_soon':
                    def cs(E_, a, k):
                        E.oblige(Qn + '/handover.from_the_helper_thread_is_thread_safe', z3.BoolVal(False), props={'C16', 'C03'},
                                 detail='loop.call_soon() from another thread neither wakes the loop nor is it safe '
                                        '(in debug mode it raises): elements and the end marker may never arrive')
                        raise PathEnd()
                    return VStub('loop.call_soon', cs)
                if name == 'run_in_executor':
                    def rie(E_, a, k):
                        """run_in_executor(pool, fn): fn runs in a worker thread of the pool; the returned future
                        carries its return value or exception."""
                        pool, fn_ = a[0], a[1]
                        E.oblige(Qn + '/resource.worker_runs_in_the_scoped_executor',
                                 z3.BoolVal(isinstance(pool, Obj) and pool.cls == 'Executor' and bool(st.get('pool_open'))),
                                 props={'C16', 'C03'}, detail='a shared executor can be saturated by other blocked '
                                 'iterators: the source then never starts, nothing is delivered')
                        st['in_worker'] = True
                        try:
                            E.call(fn_, list(a[2:]), {})
                            out = ('ok', None)
                        except PyExc as pe:
                            out = ('exc', pe.exc)
                        st['in_worker'] = False
                        st['worker_outcome'] = out
                        st['worker_done'] = True
                        producer_post(out)
                        return Obj('ExecFuture', dict(outcome=out))
                    return VStub('loop.run_in_executor', rie)
            if isinstance(o, Obj) and o.cls == 'AQueue':
                if name == 'put_nowait':
                    return VStub('Queue.put_nowait', lambda E_, a, k: _unsupp('direct put_nowait from the worker'),
                                 attrs={'q': o})
                if name == 'get':
                    return VStub('Queue.get', lambda E_, a, k: aio.mk_awaitable('chan_get'))
                if name in ('qsize', 'empty'):
                    def qsize(E_, a, k):
                        """how much has been handed over and not yet taken: a race with the worker -- anything from 0
                        to all of it; a lower bound for the only consumer until it takes something"""
                        n = E.fresh('qsize', I)
                        E.assume(z3.And(n >= 0, n <= z3.Length(E.w['chan']) - E.w['deq']))
                        st['avail_lb'] = n
                        return VInt(n) if name == 'qsize' else VBool(n == 0)
                    return VStub('Queue.' + name, qsize)
                if name == 'get_nowait':
                    def get_nowait(E_, a, k):
                        """the next handed-over element without waiting, QueueEmpty if there is none right now"""
                        chan, d = E.w['chan'], E.w['deq']
                        there = E.fresh('something_is_queued', z3.BoolSort())
                        E.assume(z3.Implies(there, d < z3.Length(chan)))
                        if st.get('avail_lb') is not None:
                            E.assume(z3.Implies(st['avail_lb'] > 0, there))
                        if not E.branch(there):
                            E.throw('QueueEmpty', origin='get_nowait')
                        E.assume(z3.Implies(z3.And(d >= 0, d < z3.Length(S_.src)),
                                            z3.And(chan[d] == S_.src[d], S_.src[d] != DONE)))
                        E.w['deq'] = d + 1
                        st['avail_lb'] = None
                        return VVal(chan[d])
                    return VStub('Queue.get_nowait', get_nowait)
            if isinstance(o, Obj) and o.cls == 'ExecFuture' and name in ('result', 'exception'):
                def result_now(E_, a, k):
                    """Future.result() does not wait: InvalidStateError unless the worker has already returned -- and the
                    worker returns only AFTER handing the end marker over, so the consumer may well get here first"""
                    if not E.branch(E.fresh('worker_future_done', z3.BoolSort())):
                        E.throw('InvalidStateError', origin='result() of a future that is not done')
                    st['future_awaited'] = True
                    kind, exc = o.fields['outcome']
                    if name == 'exception':
                        raise Unsupported('Future.exception()', node)
                    if kind == 'exc':
                        raise PyExc(exc)
                    return NONE
                return VStub('Future.' + name, result_now)
            if isinstance(o, Obj) and o.cls == 'ExecFuture' and name == 'done':
                # the worker hands the sentinel over and only then finishes: whether the future is already done
                # when the consumer looks is a race, either answer is possible
                return VStub('Future.done', lambda E_, a, k: VBool(E.fresh('worker_future_done', z3.BoolSort())))
            return None
        Bn['__getattr_ext__'] = loop_attr

        def producer_post(out):
            """Contract of the producer, proved here on its every exit and then used by the consumer."""
            chan = E.w['chan']
            QEn = Qn + '.<locals>._queue_elements'
            E.oblige(QEn + '/ensures.hands_over_every_element_then_the_sentinel_exactly_once_and_last',
                     chan == z3.Concat(S_.src, z3.Unit(DONE)), props={'C16'},
                     detail='on normal end and on a failing source alike (finally)')
            E.oblige(QEn + '/ensures.fails_exactly_when_the_source_does',
                     z3.And(z3.BoolVal(out[0] == 'exc') == S_.fails, z3.BoolVal(out[0] != 'exc' or out[1] is S_.exc)),
                     props={'C16'})
            n = z3.Length(S_.src)
            E.assume(z3.And(z3.Length(chan) == n + 1, chan[n] == DONE, z3.Extract(chan, 0, n) == S_.src))

        def chan_get(E_, v, node):
            suspend(E, 'q.get', node)
            chan = E.w['chan']
            d = E.w['deq']
            E.assume(z3.Implies(z3.And(d >= 0, d < z3.Length(S_.src)),
                                z3.And(chan[d] == S_.src[d], S_.src[d] != DONE)))   # private sentinel
            # blocks until the next element has been handed over; with the producer finished everything is
            # there, and a consumer that reads past the end would block forever (no continuation)
            if not E.branch(d < z3.Length(chan)):
                raise PathEnd()
            E.w['deq'] = d + 1
            st['avail_lb'] = None
            return VVal(chan[d])
        aio.AWAIT['chan_get'] = chan_get

        def aw_future(E_, v, node, fr):
            if isinstance(v, Obj) and v.cls == 'ExecFuture':
                st['future_awaited'] = True
                kind, exc = v.fields['outcome']
                if kind == 'exc':
                    raise PyExc(exc)
                return (NONE,)
            return None
        Bn['__await_ext__'] = aw_future
        executor_with(E, st, Qn)
        st['must_be_worker'] = is_iter.t
        sentinel_obligation(E, Qn)
        E.cover(Qn + '/requires')
        E.canary(Qn + '/canary@entry')
        try:
            E.run_body(f, [S_.obj], {})
            kind = 'end'
        except PyExc as pe:
            kind = 'raise'
            exc = pe.exc
        E.cover('%s/exit[%s]' % (Qn, kind))
        out = E.w['gen_out']
        # buffer.map() hands to_async_iter(iterable) to the buffer: C03 ("via map()") rests on this clause too
        E.oblige(Qn + '/ensures.yields_exactly_the_source_elements_in_order', out == S_.src, props={'C16', 'C03'})
        if kind == 'end':
            E.oblige(Qn + '/ensures.ends_normally_only_if_the_source_did', z3.Not(S_.fails), props={'C16'})
        else:
            E.oblige(Qn + '/signals.re_raises_the_sources_own_exception', z3.And(S_.fails, z3.BoolVal(exc is S_.exc)),
                     props={'C16'})
        E.oblige(Qn + '/resource.no_helper_thread_left', z3.BoolVal(not st.get('pool_open')), props={'C16'})
        if st.get('pools'):
            E.oblige(Qn + '/resource.worker_future_is_awaited_so_errors_surface',
                     z3.BoolVal(bool(st.get('future_awaited'))), props={'C16'})
    E.run_paths(body)


def _unsupp(m):
    raise Unsupported(m)



# ------------------------------------------------------------------ to_sync_iter
def t_to_sync_iter(E):
    engine(E, {'C16'})
    mod = E.modules[MOD]
    fn = mod.functions.get('to_sync_iter')
    if fn is None:
        raise Unsupported('to_sync_iter no longer exists')
    f = VFunc(fn, None, mod, MOD + '.to_sync_iter')
    Qn = f.qualname
    E.cur_func = Qn
    st = {}

    def body():
        st.clear()
        S_ = Source(E, True)
        E.w['chan'] = z3.Empty(VS)
        E.w['gen_out'] = z3.Empty(VS)
        E.w['deq'] = z3.IntVal(0)
        Bn = E.builtins
        src_of = lambda it: S_ if it is S_.obj else None   # noqa: E731

        def on_yield(E_, fr, v, node):
            if not (isinstance(v, VVal) and v.t.sort() == ValS):
                raise Unsupported('yield of %r' % (v,), node)
            E.w['gen_out'] = z3.Concat(E.w['gen_out'], z3.Unit(v.t))
            return NONE
        E.hooks[(Qn, 'yield')] = on_yield
        QE = Qn + '.<locals>._queue_elements'
        E.hooks[(QE, 'loop', 0)] = source_loop(E, src_of, st, Qn, lambda i: [
            ('handed_over_so_far_is_the_source_prefix', E.w['chan'] == z3.Extract(S_.src, 0, i))],
            modifies=('chan',))

        def consumer_loop(E_, stn, fr, kind, it):
            chan = E.w['chan']

            def inv(tag):
                d = E.w['deq']
                return [('consumed_prefix_was_yielded_in_order', z3.And(
                    d >= 0, d <= z3.Length(chan), E.w['gen_out'] == z3.Extract(chan, 0, d),
                    d <= z3.Length(S_.src)))]

            def havoc():
                E.w['deq'] = E.fresh('deq', I)
                E.w['gen_out'] = E.fresh('gen_out', VS)
                d = E.w['deq']
                E.assume(z3.Implies(z3.And(d >= 0, d < z3.Length(chan)),
                                    z3.Extract(chan, 0, d + 1) == z3.Concat(z3.Extract(chan, 0, d), z3.Unit(chan[d]))))
            E.cut_loop(stn, fr, inv, havoc, test=lambda: E.is_true(E.eval(stn.test, fr)), label='consume')
        E.hooks[(Qn, 'loop', 0)] = consumer_loop
        ns = Bn[('import', 'asyncio')]
        newloop = E.fresh_val('new_loop', LoopS)
        ns.attrs['new_event_loop'] = VStub('asyncio.new_event_loop', lambda E_, a, k: (st.__setitem__('made_loop', True), newloop)[1])
        ns.attrs['set_event_loop'] = VStub('asyncio.set_event_loop', lambda E_, a, k: (st.__setitem__('set_loop', a[0]), NONE)[1])

        def producer_post(out):
            chan = E.w['chan']
            E.oblige(QE + '/ensures.hands_over_every_element_then_the_sentinel_exactly_once_and_last',
                     chan == z3.Concat(S_.src, z3.Unit(DONE)), props={'C16'})
            E.oblige(QE + '/ensures.fails_exactly_when_the_source_does',
                     z3.And(z3.BoolVal(out[0] == 'exc') == S_.fails, z3.BoolVal(out[0] != 'exc' or out[1] is S_.exc)),
                     props={'C16'})
            n = z3.Length(S_.src)
            E.assume(z3.And(z3.Length(chan) == n + 1, chan[n] == DONE, z3.Extract(chan, 0, n) == S_.src))

        def attr(E_, o, name, node):
            if isinstance(o, Obj) and o.cls == 'TQueue':
                if name == 'put_nowait' or name == 'put':
                    def put(E_, a, k):
                        x = a[0]
                        if not isinstance(x, VVal):
                            raise Unsupported('put of %r' % (x,), node)
                        E.oblige(Qn + '/handover.queue_is_first_in_first_out', z3.BoolVal(o.fields.get('order', 'fifo') == 'fifo'),
                                 props={'C16'}, detail='queue.%s: once the producer is two items ahead the backlog comes out in '
                                                       'another order -- the end marker, put last, first' % {
                                     'lifo': 'LifoQueue', 'priority': 'PriorityQueue'}.get(o.fields.get('order'), 'Queue'))
                        if name == 'put_nowait':
                            ms = o.fields.get('maxsize')
                            E.oblige(Qn + '/pre(put_nowait).hand_over_queue_is_unbounded',
                                     z3.BoolVal(isinstance(ms, VInt) and ms.concrete() is not None and ms.concrete() <= 0),
                                     props={'C16'}, detail='a producer ahead of the consumer by more than the bound '
                                     'gets queue.Full: elements and the end marker are lost')
                        E.w['chan'] = z3.Concat(E.w['chan'], z3.Unit(x.t))
                        return NONE
                    return VStub('queue.Queue.put_nowait', put)
                if name == 'get':
                    def get(E_, a, k):
                        """queue.Queue.get(): blocks until an item is available; FIFO"""
                        if a or k:
                            raise Unsupported('q.get with arguments (polling)', node)
                        chan = E.w['chan']
                        d = E.w['deq']
                        E.assume(z3.Implies(z3.And(d >= 0, d < z3.Length(S_.src)),
                                            z3.And(chan[d] == S_.src[d], S_.src[d] != DONE)))
                        if not E.branch(d < z3.Length(chan)):
                            raise PathEnd()
                        E.w['deq'] = d + 1
                        return VVal(chan[d])
                    return VStub('queue.Queue.get', get)
            if isinstance(o, Obj) and o.cls == 'Executor' and name == 'submit':
                def submit(E_, a, k):
                    """pool.submit(fn, *args): fn(*args) runs in the pool's worker thread; the future carries its
                    outcome."""
                    E.oblige(Qn + '/resource.worker_runs_in_the_scoped_executor', z3.BoolVal(bool(st.get('pool_open'))))
                    st['in_worker'] = True
                    try:
                        E.call(a[0], list(a[1:]), {})
                        out = ('ok', None)
                    except PyExc as pe:
                        out = ('exc', pe.exc)
                    st['in_worker'] = False
                    producer_post(out)
                    return Obj('ConcFuture2', dict(outcome=out))
                return VStub('Executor.submit', submit)
            if isinstance(o, Obj) and o.cls == 'ConcFuture2' and name == 'result':
                def result(E_, a, k):
                    st['future_result_taken'] = True
                    kind, exc = o.fields['outcome']
                    if kind == 'exc':
                        raise PyExc(exc)
                    return NONE
                return VStub('Future.result', result)
            if isinstance(o, Obj) and o.cls == 'ConcFuture2' and name in ('done', 'running'):
                # the worker hands the end marker over and only then finishes; the consumer may look at any moment:
                # either answer is possible while elements are still to be taken
                return VStub('Future.' + name, lambda E_, a, k: VBool(E.fresh('worker_future_' + name, z3.BoolSort())))
            if isinstance(o, VVal) and o.t.sort() == LoopS and name == 'close':
                def close(E_, a, k):
                    st.setdefault('closed_loops', []).append(o)
                    return NONE
                return VStub('loop.close', close)
            if isinstance(o, VVal) and o.t.sort() == LoopS and name == 'run_until_complete':
                def ruc(E_, a, k):
                    st['ran_on'] = o
                    E.oblige(Qn + '/effect.source_is_iterated_in_the_helper_thread', z3.BoolVal(bool(st.get('in_worker'))),
                             props={'C16'})
                    return E.await_(a[0], node)
                return VStub('loop.run_until_complete', ruc)
            return None
        Bn['__getattr_ext__'] = attr
        executor_with(E, st, Qn)
        given = E.fresh_bool('loop_given')
        loop_arg = E.fresh_val('given_loop', LoopS) if E.branch(given.t) else NONE
        sentinel_obligation(E, Qn)
        E.cover(Qn + '/requires')
        E.canary(Qn + '/canary@entry')
        try:
            E.run_body(f, [S_.obj], dict(loop=loop_arg))
            kind = 'end'
        except PyExc as pe:
            kind = 'raise'
            exc = pe.exc
        E.cover('%s/exit[%s]' % (Qn, kind))
        E.oblige(Qn + '/ensures.yields_exactly_the_source_elements_in_order', E.w['gen_out'] == S_.src, props={'C16'})
        if kind == 'end':
            E.oblige(Qn + '/ensures.ends_normally_only_if_the_source_did', z3.Not(S_.fails), props={'C16'})
        else:
            E.oblige(Qn + '/signals.re_raises_the_sources_own_exception', z3.And(S_.fails, z3.BoolVal(exc is S_.exc)),
                     props={'C16'})
        E.oblige(Qn + '/resource.no_helper_thread_left', z3.BoolVal(not st.get('pool_open')), props={'C16'})
        E.oblige(Qn + '/resource.worker_future_result_is_taken_so_errors_surface',
                 z3.BoolVal(bool(st.get('future_result_taken'))), props={'C16'})
        E.oblige(Qn + '/resource.a_loop_supplied_by_the_caller_is_left_open',
                 z3.BoolVal(not any(c is loop_arg for c in st.get('closed_loops', []))), props={'C16'},
                 detail='the caller goes on using its loop: a second bridge over it would hang')
        ran = st.get('ran_on')
        E.oblige(Qn + '/ensures.iterates_on_the_given_loop_or_a_new_one',
                 z3.BoolVal(ran is not None and (ran is loop_arg if isinstance(loop_arg, VVal) else ran is newloop)),
                 props={'C16'})
    E.run_paths(body)


# ------------------------------------------------------------------ C17: cross-loop awaiting
LockIdS = usort('LockId')
ThreadS = stubs.ThreadS
aw_outcome = aio.aw_outcome


def c17_engine(E):
    engine(E, {'C17'})
    E.me = z3.Const('me', ThreadS)


def evaluate(E, st, aw, loop_t, node=None):
    """Evaluate awaitable `aw` with `loop_t` as the running loop; returns its value or raises."""
    prev = E.w.get('cur_loop')
    E.w['cur_loop'] = loop_t
    try:
        if isinstance(aw, VVal) and aw.t.sort() == ValS:
            st.setdefault('evaluated', []).append((aw.t, loop_t))
            suspend(E, 'user awaitable', node)
            out = aw_outcome(aw.t)
            if E.branch(is_exc(out)):
                raise PyExc(VExc(cls_of(out), (), ident=out, info={'origin': 'awaitable'}))
            return VVal(out)
        return E.await_(aw, node)
    finally:
        E.w['cur_loop'] = prev


def install_c17(E, st, Qn):
    Bn = E.builtins
    ns = Bn[('import', 'asyncio')]
    ns.attrs['get_running_loop'] = VStub('asyncio.get_running_loop', lambda E_, a, k: VVal(E.w['cur_loop']))
    ns.attrs['set_event_loop'] = VStub('asyncio.set_event_loop', lambda E_, a, k: (st.setdefault('set_loop', []).append(a[0]), NONE)[1])
    ns.attrs['iscoroutine'] = VStub('asyncio.iscoroutine', lambda E_, a, k: VBool(isinstance(a[0], VCoro)) if not isinstance(a[0], VVal)
                                    else VBool(z3.Function('is_coroutine_object', ValS, B)(a[0].t)))

    is_coro = z3.Function('is_coroutine_object', ValS, B)
    is_fut = z3.Function('is_future_object', ValS, B)

    def isfuture(E_, a, k):
        # futures (and tasks) are not coroutine objects; an awaitable may be neither (an object with __await__)
        if not isinstance(a[0], VVal):
            return VBool(False)
        E.assume(z3.Not(z3.And(is_coro(a[0].t), is_fut(a[0].t))))
        return VBool(is_fut(a[0].t))
    ns.attrs['isfuture'] = VStub('asyncio.isfuture', isfuture)
    st['is_coro'] = is_coro

    def await_user(E_, v, node, fr):
        if isinstance(v, VVal) and v.t.sort() == ValS:
            return (evaluate(E, st, v, E.w['cur_loop'], node),)
        return None
    Bn['__await_ext__'] = await_user
    running = lambda: wget(E, 'running', lambda: E.fresh('running', z3.ArraySort(LoopS, B)))     # noqa: E731
    closed = lambda: wget(E, 'closed', lambda: E.fresh('closed', z3.ArraySort(LoopS, B)))        # noqa: E731
    forever = lambda: wget(E, 'runs_forever', lambda: E.fresh('runs_forever', z3.ArraySort(LoopS, B)))  # noqa: E731
    st['running'], st['closed'], st['forever'] = running, closed, forever
    # a loop may be run by a thread of the USER (threading.Thread(target=loop.run_forever)): such a runner holds
    # none of the library's locks; it is running for the whole call (starting/stopping it meanwhile is the user's
    # race, not the helpers')
    foreign = lambda: wget(E, 'run_by_a_user_thread', lambda: E.fresh('run_by_a_user_thread', z3.ArraySort(LoopS, B)))  # noqa: E731
    st['foreign'] = foreign

    def rcts(E_, a, k):
        """run_coroutine_threadsafe(coro, loop): schedules coro on loop (RuntimeError iff closed); the coroutine
        runs ONLY if the loop keeps running -- with no time-out guarding the result the caller must know that
        (precondition target_keeps_running)."""
        coro, lp = a[0], a[1]
        E.oblige('%s/pre(run_coroutine_threadsafe).argument_is_a_coroutine_object' % st['top'],
                 z3.BoolVal(True) if isinstance(coro, VCoro) else
                 is_coro(coro.t) if isinstance(coro, VVal) and coro.t.sort() == ValS else z3.BoolVal(False),
                 props={'C17'}, detail='TypeError("A coroutine object is required") otherwise: the awaitable is never '
                                       'evaluated and the caller gets a foreign error')
        if E.branch(z3.Select(closed(), lp.t)):
            E.throw('RuntimeError', origin='closed-loop')
        E.oblige('%s/pre(run_coroutine_threadsafe).target_keeps_running' % st['top'],
                 z3.Select(forever(), lp.t), props={'C17'},
                 detail='is_running() is also true while another caller\'s run_until_complete is about to return')
        return Obj('ConcFuture', dict(coro=coro, loop=lp))
    Bn[('import', 'asyncio:run_coroutine_threadsafe')] = VStub('asyncio.run_coroutine_threadsafe', rcts)
    ns.attrs['wrap_future'] = VStub('asyncio.wrap_future', lambda E_, a, k: aio.mk_awaitable('wrapped', inner=a[0]))

    def aw_wrapped(E_, v, node):
        """await wrap_future(cf): outcome-preserving bridge; the coroutine is evaluated on cf's loop"""
        cf = v.fields['inner']
        if not (isinstance(cf, Obj) and cf.cls == 'ConcFuture'):
            raise Unsupported('wrap_future of %r' % (cf,), node)
        suspend(E, 'bridge', node)
        return evaluate(E, st, cf.fields['coro'], cf.fields['loop'].t, node)
    aio.AWAIT['wrapped'] = aw_wrapped

    # frame: the table of per-loop locks belongs to _get_loop_lock (and to the finaliser it registers); that function's
    # contract RELIES on entries of live loops staying put -- two callers must never get two different locks for one
    # loop -- so nobody else may store into, pop from or clear it
    lock_table = Obj('LockTableOfGetLoopLock')
    Bn[('module', MOD, '_LOOP_LOCKS')] = lock_table

    def table_touched(how, node):
        E.oblige('%s/frame.per_loop_lock_table_is_changed_only_by__get_loop_lock' % st['top'], z3.BoolVal(False),
                 props={'C17'}, detail='%s on _LOOP_LOCKS for a loop that is alive: the next caller creates a SECOND lock '
                                       'for the same loop and runs it while its current runner still holds the first' % how)
        raise PathEnd()
    prev_set = Bn.get('__setitem__')

    def table_setitem(E_, o, k, v, node):
        if o is lock_table:
            table_touched('an item assignment', node)
        if prev_set is not None:
            return prev_set(E_, o, k, v, node)
        raise Unsupported('subscript store', node)
    Bn['__setitem__'] = table_setitem

    def attr(E_, o, name, node):
        if o is lock_table and name in ('pop', 'clear', 'popitem', 'update', 'setdefault', '__delitem__', '__setitem__'):
            return VStub('dict.' + name, lambda E_, a, k: table_touched('%s()' % name, node))
        if isinstance(o, VVal) and o.t.sort() == LoopS:
            if name == 'is_running':
                def is_running(E_, a, k):
                    r = E.branch(z3.Select(running(), o.t))
                    st['last_is_running'] = (o.t, r)
                    return VBool(r)
                return VStub('loop.is_running', is_running)
            if name == 'is_closed':
                return VStub('loop.is_closed', lambda E_, a, k: VBool(E.branch(z3.Select(closed(), o.t))))
            if name == 'run_until_complete':
                def ruc(E_, a, k):
                    """run_until_complete(aw): RuntimeError if the loop is already running or closed; runs the
                    loop in THIS thread until aw is done; returns/raises aw's outcome."""
                    E.oblige('%s/pre(run_until_complete).holds_the_per_loop_lock' % st['top'],
                             z3.BoolVal(any(z3.eq(l, o.t) and w == bool(st.get('in_worker')) for l, w in
                                            zip(st.get('held_loop_locks', []), st.get('lock_taken_in_worker', [])))),
                             props={'C17'},
                             detail='a loop must never be run by two threads at once: the lock is held BY THE THREAD THAT RUNS '
                                    'THE LOOP (a lock taken by the caller\'s coroutine and held across its await blocks the '
                                    'caller\'s whole event loop as soon as a second caller wants it)')
                    if E.branch(z3.Select(running(), o.t)):
                        E.throw('RuntimeError', origin='already-running')
                    st.setdefault('ran', []).append(('until_complete', o.t))
                    return evaluate(E, st, a[0], o.t, node)
                return VStub('loop.run_until_complete', ruc)
            if name == 'run_forever':
                def rf(E_, a, k):
                    E.oblige('%s/pre(run_forever).holds_the_per_loop_lock' % st['top'],
                             z3.BoolVal(any(z3.eq(l, o.t) for l in st.get('held_loop_locks', []))), props={'C17'})
                    st.setdefault('ran', []).append(('forever', o.t))
                    E.w['running'] = z3.Store(running(), o.t, True)
                    st['forever_started'] = True
                    # runs until loop.stop() is called from somewhere; then returns
                    E.w['running'] = z3.Store(running(), o.t, False)
                    st['forever_returned'] = True
                    return NONE
                return VStub('loop.run_forever', rf)
            if name == 'run_in_executor':
                def rie(E_, a, k):
                    fn_ = a[1]
                    st['executor_used'] = a[0]
                    return aio.mk_awaitable('in_executor', fn=fn_, args=list(a[2:]))
                return VStub('loop.run_in_executor', rie)
            if name == 'call_soon_threadsafe':
                def cst(E_, a, k):
                    st.setdefault('scheduled', []).append(a)
                    return NONE
                return VStub('loop.call_soon_threadsafe', cst)
            if name == 'stop':
                def stop_directly(E_, a, k):
                    # loop.stop() called right here, i.e. in the CURRENT thread (a callback scheduled with
                    # call_soon_threadsafe is recorded by that stub and never comes through here)
                    st.setdefault('stopped_directly', []).append(o.t)
                    return NONE
                return VStub('loop.stop', stop_directly, attrs={'loop': o})
        if isinstance(o, VVal) and o.t.sort() == ValS and name in ('done', 'cancelled'):
            # the caller's awaitable, if it is a future or a task, may already be settled
            return VStub('Future.' + name, lambda E_, a, k: VBool(
                z3.Function('awaitable_is_already_' + name, ValS, B)(o.t)))
        if isinstance(o, VVal) and o.t.sort() == ValS and name == 'result':
            def settled_result(E_, a, k):
                """Future.result() of the caller's own (settled) future: its outcome, read in the CALLING thread"""
                st.setdefault('read_without_evaluating', []).append(o.t)
                out = aw_outcome(o.t)
                if E.branch(is_exc(out)):
                    raise PyExc(VExc(cls_of(out), (), ident=out, info={'origin': 'awaitable'}))
                return VVal(out)
            return VStub('Future.result', settled_result)
        if isinstance(o, Obj) and o.cls == 'ConcFuture' and name in ('result', 'exception'):
            def blocking_result(E_, a, k):
                E.oblige('%s/bridge.waiting_for_the_target_never_blocks_the_callers_loop' % st['top'], z3.BoolVal(False),
                         props={'C17'},
                         detail='concurrent.futures.Future.%s() blocks the calling THREAD -- the caller\'s event loop: an '
                                'awaitable that needs that loop to make progress (the target is the caller\'s own loop, or '
                                'it awaits something back on it) never finishes, and nothing else runs meanwhile' % name)
                raise PathEnd()
            return VStub('Future.' + name, blocking_result)
        if isinstance(o, Obj) and o.cls == 'LoopLock' and name == 'locked':
            # held by whoever runs the loop THROUGH THIS LIBRARY; a loop run by a plain thread of the user holds no
            # such lock: says nothing about loop.is_running()
            return VStub('Lock.locked', lambda E_, a, k: VBool(E.fresh('loop_lock_locked', B)))
        if isinstance(o, Obj) and o.cls == 'Executor' and name == 'submit':
            def submit(E_, a, k):
                st['submitted'] = (a[0], list(a[1:]))
                return Obj('ConcFuture2', dict(fn=a[0], args=list(a[1:])))
            return VStub('Executor.submit', submit)
        if isinstance(o, Obj) and o.cls == 'ConcFuture2' and name in ('running', 'done'):
            # the pool thread has picked the function up / has finished it: says nothing about what the function
            # has got to (the loop is running only once run_forever() has been entered)
            return VStub('Future.' + name, lambda E_, a, k: VBool(E.fresh('future_' + name, B)))
        if isinstance(o, Obj) and o.cls == 'ConcFuture2' and name == 'result':
            def result(E_, a, k):
                """Future.result(): blocks until the submitted function has returned"""
                st['joined'] = True
                if not st.get('thread_ran'):
                    run_thread(o)
                return NONE
            return VStub('Future.result', result)
        return None
    Bn['__getattr_ext__'] = attr

    def run_thread(futobj):
        st['thread_ran'] = True
        st['in_worker'] = True
        try:
            return E.call(futobj.fields['fn'], futobj.fields['args'], {})
        finally:
            st['in_worker'] = False
    st['run_thread'] = run_thread

    def aw_exec(E_, v, node):
        """await loop.run_in_executor(pool, fn): fn runs in a pool thread; its outcome comes back"""
        suspend(E, 'executor', node)
        st['in_worker'] = True
        try:
            return E.call(v.fields['fn'], v.fields['args'], {})
        finally:
            st['in_worker'] = False
    aio.AWAIT['in_executor'] = aw_exec

    class _LockSpec:
        """_get_loop_lock(loop): THE lock of that loop (same object for every caller; proved separately)"""
        def apply(self, E_, args, kwargs, node=None):
            lp = args[0]
            return Obj('LoopLock', dict(loop=lp.t))
    E.specs[MOD + '._get_loop_lock'] = _LockSpec()

    def with_(E_, cm, is_async, node):
        if isinstance(cm, Obj) and cm.cls == 'LoopLock':
            def enter():
                # blocks until no other thread runs the loop (lock invariant: free => nobody runs it)
                st.setdefault('held_loop_locks', []).append(cm.fields['loop'])
                st.setdefault('lock_taken_in_worker', []).append(bool(st.get('in_worker')))
                E.w['running'] = z3.Store(running(), cm.fields['loop'], z3.Select(st['foreign'](), cm.fields['loop']))
                return cm

            def exit_(exc):
                st['held_loop_locks'].remove(cm.fields['loop'])
                st['lock_taken_in_worker'].pop()
                return False
            return enter, exit_
        return None
    Bn['__with_ext__'] = with_
    Bn[('module', MOD, '_CROSS_LOOP_POOL')] = Obj('Executor', dict(workers=VInt(32), shared=True))


def pool_capacity_obligation(E, mod, Qn):
    """Every borrowed idle loop and every loop_in_thread loop occupies one thread of the shared pool for as long as it
    runs; "every call completes when its awaitable does" is proved under the assumption that fewer loops are run this
    way at a time than the pool has threads (32 as documented).  A capacity left to the host (ThreadPoolExecutor():
    min(32, cpu_count + 4), i.e. 5 on a one-CPU container) or a smaller one voids that assumption."""
    import ast as _ast
    expr = mod.assigns.get('_CROSS_LOOP_POOL')
    n = None
    if isinstance(expr, _ast.Call) and _ast.unparse(expr.func).split('.')[-1] == 'ThreadPoolExecutor':
        arg = expr.args[0] if expr.args else next((k.value for k in expr.keywords if k.arg == 'max_workers'), None)
        if isinstance(arg, _ast.Name) and isinstance(mod.assigns.get(arg.id), _ast.Constant):
            arg = mod.assigns[arg.id]          # a named module constant
        if isinstance(arg, _ast.Constant) and isinstance(arg.value, int):
            n = arg.value
    E.oblige(Qn + '/resource.cross_loop_pool_has_a_fixed_capacity_of_at_least_32', z3.BoolVal(n is not None and n >= 32),
             props={'C17'}, detail='_CROSS_LOOP_POOL = %s' % (_ast.unparse(expr) if expr is not None else None))
    E.used('assume: fewer than 32 loops are borrowed through ensure_aw or run through loop_in_thread at any one time '
           '(capacity of the shared pool)')


def t_ensure_aw(E):
    c17_engine(E)
    mod = E.modules[MOD]
    fn = mod.functions.get('ensure_aw')
    if fn is None:
        raise Unsupported('ensure_aw no longer exists')
    f = VFunc(fn, None, mod, MOD + '.ensure_aw')
    Qn = f.qualname
    E.cur_func = Qn
    E.inline |= {MOD + '.run_aw_threadsafe', MOD + '._aw_to_coro'}
    st = {}

    def body():
        st.clear()
        st['top'] = Qn
        install_c17(E, st, Qn)
        me_loop = z3.Const('callers_loop', LoopS)
        target = E.fresh('target_loop', LoopS)
        E.w['cur_loop'] = me_loop
        aw = E.fresh_val('aw')
        E.assume(z3.Select(st['running'](), me_loop))
        E.assume(z3.Implies(z3.Select(st['closed'](), target), z3.Not(z3.Select(st['running'](), target))))
        E.assume(z3.Implies(z3.Select(st['foreign'](), target), z3.Select(st['running'](), target)))
        pre_closed = z3.Select(st['closed'](), target)
        pre_running = z3.Select(st['running'](), target)
        E.cover(Qn + '/requires')
        E.canary(Qn + '/canary@entry')
        try:
            r = E.await_(E.call(f, [aw, VVal(target)], {}), None)
            kind = 'return'
        except PyExc as pe:
            kind = 'raise'
            exc = pe.exc
        E.cover('%s/exit[%s]' % (Qn, kind))
        ev = st.get('evaluated', [])
        out = aw_outcome(aw.t)
        if kind == 'return':
            E.oblige(Qn + '/ensures.returns_exactly_the_awaitables_result',
                     z3.And(z3.BoolVal(isinstance(r, VVal)), z3.Not(is_exc(out)), r.t == out if isinstance(r, VVal) else False))
        elif exc.info.get('origin') == 'awaitable':
            E.oblige(Qn + '/signals.raises_exactly_the_awaitables_exception', z3.And(is_exc(out), exc.ident == out))
        else:
            E.oblige(Qn + '/signals.RuntimeError_only_for_a_closed_target',
                     z3.And(z3.BoolVal(E.exc_isinstance(exc, EXC['RuntimeError']) is True), pre_closed,
                            target != me_loop),
                     detail='origin: %s' % exc.info.get('origin'))
        if kind == 'return' or exc.info.get('origin') == 'awaitable':
            E.oblige(Qn + '/ensures.awaitable_evaluated_exactly_once_on_the_target_loop',
                     z3.And(z3.BoolVal(len(ev) == 1), ev[0][0] == aw.t if ev else False,
                            ev[0][1] == target if ev else False), props={'C17', 'C07'},
                     detail='wait_from_anywhere() runs the buffer\'s wait() through this: on the buffer\'s loop, once')
        E.oblige(Qn + '/ensures.loop_lock_released', z3.BoolVal(not st.get('held_loop_locks')))
        pool_capacity_obligation(E, mod, Qn)
        if 'executor_used' in st:
            ex = st['executor_used']
            E.oblige(Qn + '/resource.idle_target_is_run_in_the_dedicated_cross_loop_pool',
                     z3.BoolVal(isinstance(ex, Obj) and ex.cls == 'Executor' and bool(ex.fields.get('shared'))),
                     detail='the caller loop\'s default executor may be shut down, tiny or busy: borrowing an idle '
                            'loop must not depend on it (got %r)' % (ex,))
    E.run_paths(body)


def t_run_aw_threadsafe(E):
    c17_engine(E)
    mod = E.modules[MOD]
    fn = mod.functions.get('run_aw_threadsafe')
    if fn is None:
        raise Unsupported('run_aw_threadsafe no longer exists')
    f = VFunc(fn, None, mod, MOD + '.run_aw_threadsafe')
    Qn = f.qualname
    E.cur_func = Qn
    E.inline |= {MOD + '._aw_to_coro'}
    st = {}

    def body():
        st.clear()
        st['top'] = Qn
        install_c17(E, st, Qn)
        target = E.fresh('target_loop', LoopS)
        E.w['cur_loop'] = z3.Const('callers_loop', LoopS)
        E.assume(target != E.w['cur_loop'])
        # the documented precondition of this thin wrapper: the target is running in another thread and keeps running
        E.assume(z3.And(z3.Select(st['forever'](), target), z3.Not(z3.Select(st['closed'](), target))))
        aw = E.fresh_val('aw')
        E.cover(Qn + '/requires')
        E.canary(Qn + '/canary@entry')
        out = aw_outcome(aw.t)
        try:
            r = E.await_(E.call(f, [aw, VVal(target)], {}), None)
            E.oblige(Qn + '/ensures.returns_exactly_the_awaitables_result',
                     z3.And(z3.BoolVal(isinstance(r, VVal)), z3.Not(is_exc(out)), r.t == out if isinstance(r, VVal) else False))
        except PyExc as pe:
            E.oblige(Qn + '/signals.raises_exactly_the_awaitables_exception',
                     z3.And(z3.BoolVal(pe.exc.info.get('origin') == 'awaitable'), is_exc(out),
                            pe.exc.ident == out if pe.exc.ident is not None else False))
        ev = st.get('evaluated', [])
        E.oblige(Qn + '/ensures.awaitable_evaluated_exactly_once_on_the_target_loop',
                 z3.And(z3.BoolVal(len(ev) == 1), ev[0][0] == aw.t if ev else False, ev[0][1] == target if ev else False))
    E.run_paths(body)


def t_loop_in_thread(E):
    c17_engine(E)
    mod = E.modules[MOD]
    fn = mod.functions.get('loop_in_thread')
    if fn is None:
        raise Unsupported('loop_in_thread no longer exists')
    f = VFunc(fn, None, mod, MOD + '.loop_in_thread')
    Qn = f.qualname
    E.cur_func = Qn
    st = {}

    def wait_loop(E_, stn, fr, kind, it):
        """`while not loop.is_running(): sleep(0)`: leaves only having observed the loop running"""
        def inv(tag):
            return [('nothing_to_maintain', z3.BoolVal(True))]

        def havoc():
            E.w['running'] = E.fresh('running', z3.ArraySort(LoopS, B))

        def test():
            st['last_is_running'] = None
            r = E.is_true(E.eval(stn.test, fr))
            if not r:
                # the wait is left: only an is_running() of THE loop answering True counts as having seen it run
                lr = st.get('last_is_running')
                st['observed_running'] = bool(lr is not None and z3.eq(lr[0], st['target']) and lr[1] is True)
            return r
        E.cut_loop(stn, fr, inv, havoc, test=test, label='wait-running')
    E.hooks[(Qn, 'loop', 0)] = wait_loop

    def body():
        st.clear()
        st['top'] = Qn
        install_c17(E, st, Qn)
        E.builtins[('import', 'time:sleep')] = VStub('time.sleep', lambda E_, a, k: NONE)
        target = E.fresh('target_loop', LoopS)
        st['target'] = target
        E.w['cur_loop'] = z3.Const('no_loop', LoopS)
        E.cover(Qn + '/requires')
        E.canary(Qn + '/canary@entry')
        stopper = E.call(f, [VVal(target)], {})
        E.oblige(Qn + '/ensures.returns_only_once_the_loop_is_running', z3.BoolVal(bool(st.get('observed_running'))))
        sub_ = st.get('submitted')
        E.oblige(Qn + '/ensures.loop_thread_submitted_to_the_pool', z3.BoolVal(sub_ is not None))
        E.oblige(Qn + '/ensures.returns_a_stop_function', z3.BoolVal(isinstance(stopper, VFunc)))
        if not isinstance(stopper, VFunc) or sub_ is None:
            return
        # the stop function -- called at any later time: what loop_in_thread saw running may have been another caller's
        # run_until_complete that has ended since, with this thread's run_forever() still to come
        E.w['running'] = E.fresh('running', z3.ArraySort(LoopS, B))
        E.call(stopper, [], {})
        sched = st.get('scheduled', [])
        ok = len(sched) == 1 and isinstance(sched[0][0], VStub) and sched[0][0].name == 'loop.stop' and \
            z3.eq(sched[0][0].attrs['loop'].t, target)
        E.oblige(Qn + '.<locals>._stopper/ensures.asks_the_target_loop_to_stop_thread_safely',
                 z3.BoolVal(bool(ok) and not st.get('stopped_directly')),
                 detail='exactly one loop.stop, through call_soon_threadsafe: a direct loop.stop() from the stopping thread '
                        'is not thread-safe, and with the scheduled one it leaves a stale stop request behind that ends the '
                        'NEXT run of the loop at once (scheduled: %d, direct: %d)' % (len(sched), len(st.get('stopped_directly', []))))
        E.oblige(Qn + '.<locals>._stopper/ensures.returns_only_after_the_loop_thread_has_finished',
                 z3.BoolVal(bool(st.get('joined')) and bool(st.get('forever_returned'))))
        ran = st.get('ran', [])
        E.oblige(Qn + '.<locals>._loop_thread/ensures.runs_the_target_loop_forever_under_its_lock',
                 z3.BoolVal(len(ran) == 1 and ran[0][0] == 'forever' and z3.eq(ran[0][1], target)))
        E.oblige(Qn + '/ensures.loop_lock_released', z3.BoolVal(not st.get('held_loop_locks')))
    E.run_paths(body)


def t_get_loop_lock(E):
    """_get_loop_lock under thread interference: every caller gets THE lock of the loop; entries are created
    only under the creation lock and never replaced."""
    c17_engine(E)
    mod = E.modules[MOD]
    fn = mod.functions.get('_get_loop_lock')
    if fn is None:
        raise Unsupported('_get_loop_lock no longer exists')
    f = VFunc(fn, None, mod, MOD + '._get_loop_lock')
    Qn = f.qualname
    E.cur_func = Qn
    st = {}

    def interfere(site):
        """other threads run _get_loop_lock too (rely): an existing entry stays, with the same lock; while I hold
        the creation lock nobody creates an entry"""
        has, lk = E.w['ll_has'], E.w['ll_lock']
        nh, nl = E.fresh('ll_has', B), E.fresh('ll_lock', LockIdS)
        E.assume(z3.Implies(has, z3.And(nh, nl == lk)))
        if st.get('create_lock_held'):
            E.assume(nh == has)
        E.w['ll_has'], E.w['ll_lock'] = nh, nl
        E.used('rely: entries of the per-loop lock table are created only under the creation lock and never replaced '
               'while the loop is alive')

    def body():
        st.clear()
        Bn = E.builtins
        table = Obj('LockTable')
        clock = Obj('CreateLock')
        Bn[('module', MOD, '_LOOP_LOCKS')] = table
        Bn[('module', MOD, '_LOOP_LOCKS_CREATE_LOCK')] = clock
        target = E.fresh_val('loop', LoopS)
        E.w['ll_has'] = E.fresh('ll_has', B)
        E.w['ll_lock'] = E.fresh('ll_lock', LockIdS)
        st['key'] = None

        def key_ok(k, node):
            if st['key'] is None:
                st['key'] = k
            E.oblige(Qn + '/frame.table_subscripted_only_with_id(loop)', z3.BoolVal(k is st['key']))

        def ident(E_, a, k):
            st['id_of'] = a[0]
            return VInt(E.fresh('id', I)) if False else Obj('IdOf', dict(of=a[0]))
        Bn['id'] = VStub('id', ident)

        def getitem(E_, o, k, node):
            if o is table:
                key_ok(k, node)
                interfere('read')
                if E.branch(E.w['ll_has']):
                    return Obj('Lock', dict(ident=E.w['ll_lock']))
                E.throw('KeyError')
            return None
        Bn['__getitem__'] = getitem

        def setitem(E_, o, k, v, node):
            if o is table:
                key_ok(k, node)
                interfere('write')
                E.oblige(Qn + '/guarantee.entry_created_only_under_the_creation_lock',
                         z3.BoolVal(bool(st.get('create_lock_held'))))
                E.oblige(Qn + '/guarantee.existing_entry_never_replaced', z3.Not(E.w['ll_has']))
                E.w['ll_has'] = z3.BoolVal(True)
                E.w['ll_lock'] = v.fields['ident']
                st['created'] = v
                return
            raise Unsupported('subscript store', node)
        Bn['__setitem__'] = setitem
        Bn[('import', 'threading:Lock')] = VStub('threading.Lock', lambda E_, a, k: Obj('Lock', dict(ident=E.fresh('lock', LockIdS))))

        def with_(E_, cm, is_async, node):
            if cm is clock:
                def enter():
                    interfere('lock')
                    st['create_lock_held'] = True
                    return cm

                def exit_(exc):
                    st['create_lock_held'] = False
                    return False
                return enter, exit_
            return None
        Bn['__with_ext__'] = with_

        def attr(E_, o, name, node):
            if o is table and name == 'pop':
                return VStub('dict.pop', lambda E_, a, k: NONE, attrs={'table': True})
            return None
        Bn['__getattr_ext__'] = attr
        E.cover(Qn + '/requires')
        E.canary(Qn + '/canary@entry')
        r = E.call(f, [target], {})
        interfere('exit')
        ok = isinstance(r, Obj) and r.cls == 'Lock'
        E.oblige(Qn + '/ensures.returns_a_lock', z3.BoolVal(ok))
        if ok:
            E.oblige(Qn + '/ensures.returns_THE_lock_registered_for_the_loop',
                     z3.And(E.w['ll_has'], r.fields['ident'] == E.w['ll_lock']),
                     detail='every caller gets the same Lock object for the same live loop')
        E.oblige(Qn + '/ensures.keyed_by_the_identity_of_the_loop',
                 z3.BoolVal(isinstance(st.get('key'), Obj) and st['key'].cls == 'IdOf' and st['key'].fields['of'] is target))
        fin = [e for e in E.effects if e[0] == 'weakref.finalize']
        if st.get('created') is not None:
            E.oblige(Qn + '/ensures.entry_removed_only_when_the_loop_is_destroyed',
                     z3.BoolVal(len(fin) == 1 and fin[0][1] is target))
    E.run_paths(body)


def t_lemmas(E):
    stubs.install_all(E)
    E.cur_func = 'bridges.lemmas'
    E.props_default = frozenset({'C16'})

    def body():
        s_ = E.fresh('s', VS)
        d = E.fresh('d', I)
        E.oblige('C16/lemma.prefix_extends_by_one_element',
                 z3.Implies(z3.And(d >= 0, d < z3.Length(s_)),
                            z3.Extract(s_, 0, d + 1) == z3.Concat(z3.Extract(s_, 0, d), z3.Unit(s_[d]))))
    E.run_paths(body)


TASKS = {
    'bridges.to_async_iter': (t_to_async_iter, {'C16', 'C03'}),
    'bridges.to_sync_iter': (t_to_sync_iter, {'C16'}),
    'bridges.lemmas': (t_lemmas, {'C16'}),
    'bridges.ensure_aw': (t_ensure_aw, {'C17', 'C07'}),
    'bridges.run_aw_threadsafe': (t_run_aw_threadsafe, {'C17'}),
    'bridges.loop_in_thread': (t_loop_in_thread, {'C17'}),
    'bridges._get_loop_lock': (t_get_loop_lock, {'C17'}),
}
