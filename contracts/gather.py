"""
Sidecar contracts for gather_excs / raise_first_exc (C20).

R   = outcomes_in_input_order(aws)          (stub of asyncio.gather(*aws, return_exceptions=True))
F(R, only, n) = the exceptions among R[:n] that are instances of `only`, in order
                (prefix-recursive spec function, definitional unfolding below)
gather_excs    yields exactly  F(R, only, |R|)
raise_first_exc raises F(...)[0] if there is one, else returns None
"""
import z3

from pyvc.values import *  # noqa: F401,F403
from pyvc.engine import PyExc, PathEnd, Unsupported, Frame
from pyvc.spec import Spec, Args, Snap
from pyvc import stubs, aio
from pyvc.aio import VS, is_exc, cls_of, OUTCOMES, VStar

I = z3.IntSort()
# `only` is what isinstance() accepts: a class or a tuple of classes -- modelled as a PAIR of classes (a single class
# c is the pair (c, c))
_F = z3.Function('excs_matching_only', VS, ClsS, ClsS, I, VS)


def F(R, only, n):
    return _F(R, only[0], only[1], n)


def terms(only):
    """the pair of class terms of a filter value (VClass or VTuple of two VClass)"""
    if isinstance(only, VClass):
        return (only.term, only.term)
    if isinstance(only, VTuple) and len(only.items) == 2 and all(isinstance(c, VClass) for c in only.items):
        return (only.items[0].term, only.items[1].term)
    raise Unsupported('filter value %r' % (only,))


def match(r, only):
    return z3.And(is_exc(r), z3.Or(sub(cls_of(r), only[0]), sub(cls_of(r), only[1])))


def unfoldF(R, only, n):
    return z3.And(F(R, only, 0) == z3.Empty(VS),
                  z3.Implies(n >= 1, F(R, only, n) == z3.Concat(
                      F(R, only, n - 1), z3.If(match(R[n - 1], only), z3.Unit(R[n - 1]), z3.Empty(VS)))))


def mk_only(E):
    c = VClass('sym:only', term=E.fresh('only', ClsS))
    E.need_hierarchy()
    E.assume(sub(c.term, EXC['BaseException'].term))
    if E.choose([('a_class', None), ('a_tuple_of_classes', None)], 'kind of filter') == 'a_class':
        return c
    c2 = VClass('sym:only2', term=E.fresh('only2', ClsS))
    E.assume(sub(c2.term, EXC['BaseException'].term))
    return VTuple([c, c2])


NO_TB = z3.Function('traceback_is_None', ValS, z3.BoolSort())


def engine(E):
    stubs.install_all(E)
    aio.install(E)
    E.props_default = frozenset({'C20'})
    Bn = E.builtins
    ns = Bn[('import', 'asyncio')]
    for nm in ('create_task', 'ensure_future'):
        ns.attrs[nm] = VStub('asyncio.' + nm, (lambda n: lambda E_, a, k: _unsupp('asyncio.%s of one awaitable' % n))(nm))

    def plain_gather(E_, v, node):
        E.oblige(E.cur_func + '/call.every_awaitable_runs_to_completion_whatever_fails', z3.BoolVal(False), props={'C20'},
                 detail='gather(*aws) without return_exceptions=True raises the failure that happens FIRST IN TIME, at '
                        'once, while the other awaitables are still running: neither "after all finish" nor "in input '
                        'order"')
        raise PathEnd()
    Bn['__gather_first_failure_wins__'] = plain_gather

    NON_EXC = ('tuple', 'list', 'str', 'int', 'dict', 'set', 'frozenset', 'type', 'bool', 'float', 'bytes')

    def _type(E_, a, k):
        """type(x) of a filter value: `type` for a class, `tuple` for a tuple of classes"""
        if len(a) == 1 and isinstance(a[0], VClass):
            return Bn['type']
        if len(a) == 1 and isinstance(a[0], VTuple):
            return Bn['tuple']
        raise Unsupported('type(%r)' % (a,))
    Bn['type'] = VClass('type', ctor=_type)

    def _isinst_ext(E_, o, c):
        if isinstance(c, VClass) and c.name == 'type' and isinstance(o, (VClass, VTuple)):
            return VBool(isinstance(o, VClass))
        if isinstance(c, VClass) and c.name in NON_EXC and isinstance(o, VVal) and o.t.sort() == ValS:
            # an outcome that is an exception is never an instance of these
            return VBool(z3.And(z3.Not(is_exc(o.t)), E.fresh('result_is_a_' + c.name, z3.BoolSort())))
        return None
    Bn['__isinstance_ext__'] = _isinst_ext

    def _zip(E_, a, k):
        """zip(...) over the given awaitables AFTER they went to gather(): the caller's iterable is read a second time -- a
        one-shot iterator is empty by then, a registry that tasks leave when done has shrunk: failures are cut off"""
        at = E_.w.get('aws_term')
        if at is not None and any(isinstance(x, VSeq) and z3.eq(x.t, at) for x in a):
            E_.oblige(E_.cur_func + '/call.the_given_awaitables_are_read_once_by_gather_only', z3.BoolVal(False),
                      props={'C20'}, detail='zip(aws, results): what is reported depends on what `aws` still yields afterwards')
            raise PathEnd()
        raise Unsupported('zip(%r)' % (a,))
    Bn['zip'] = VStub('zip', _zip)

    def _any_all(name):
        def fn(E_, a, k):
            """any()/all() over the given awaitables: an Iterable may be one-shot -- looking at it consumes what
            gather() should have got"""
            if a and isinstance(a[0], VSeq):
                E_.w['aws_touched'] = True
                return VBool(z3.Length(a[0].t) > 0) if name == 'any' else VBool(True)
            raise Unsupported('%s(%r)' % (name, a))
        return VStub(name, fn)
    Bn['any'] = _any_all('any')
    Bn['all'] = _any_all('all')

    def _dedup(name):
        def fn(E_, a, k):
            """dict.fromkeys(xs) / set(xs) / frozenset(xs): hashes every element (a result may be unhashable: a list,
            a dict -> TypeError) and keeps ONE of each class of equal elements (two awaitables may well fail with
            equal, or the very same, exception object) -- some other sequence, not longer than xs"""
            if a and isinstance(a[0], VSeq):
                if E.choose([('all_hashable', None), ('an_unhashable_result', None)], name) != 'all_hashable':
                    E.throw('TypeError', origin=name)
                new = E.fresh('distinct_outcomes', VS)
                E.assume(z3.Length(new) <= z3.Length(a[0].t))
                return VSeq(new, a[0].wrap)
            raise Unsupported('%s(%r)' % (name, a))
        return VStub(name, fn)
    Bn['dict'] = VNamespace('dict', dict(fromkeys=_dedup('dict.fromkeys')))
    Bn['set'] = _dedup('set')
    Bn['frozenset'] = _dedup('frozenset')

    def _map(E_, a, k):
        """map(f, aws): lazy; only create_task / ensure_future over the given awaitables is understood"""
        if len(a) == 2 and isinstance(a[0], VStub) and a[0].name in ('asyncio.create_task', 'asyncio.ensure_future') \
                and isinstance(a[1], VSeq):
            return Obj('MappedAws', dict(seq=a[1].t, via=a[0].name))
        raise Unsupported('map(%r, ...)' % (a[0],))
    Bn['map'] = VStub('map', _map)

    def _unpack_ext(E_, v, node):
        if isinstance(v, Obj) and v.cls == 'MappedAws':
            if v.fields['via'] == 'asyncio.create_task':
                # create_task() accepts coroutines only: a Task, a Future or an object with __await__ among the
                # awaitables makes it raise TypeError while the arguments are being expanded
                if E.choose([('all_coroutines', None), ('some_other_awaitable', None)], 'create_task') != 'all_coroutines':
                    E.throw('TypeError', origin='create_task')
            return [aio.VStar(v.fields['seq'])]
        return None
    Bn['__unpack_ext__'] = _unpack_ext

    def _attr(E_, o, name, node):
        if isinstance(o, VSeq) and name in ('sort', 'reverse'):
            def reorder(E_, a, k):
                """list.sort()/reverse() of the gathered outcomes: some permutation of them, in place"""
                new = E.fresh('reordered_outcomes', VS)
                E.assume(z3.Length(new) == z3.Length(o.t))
                o.t = new
                return NONE
            return VStub('list.' + name, reorder)
        if isinstance(o, VVal) and o.t.sort() == ValS and name in ('__cause__', '__context__'):
            # the exception this one was raised `from` (or during): another object, or None
            return VOpt(E.fresh('has_no_' + name.strip('_'), z3.BoolSort()), E.fresh_val(name.strip('_')))
        if isinstance(o, VVal) and o.t.sort() == ValS and name == '__traceback__':
            # an exception object that was never raised (future.set_exception(Err())) has no traceback
            return VOpt(NO_TB(o.t), E.fresh_val('traceback'))
        return None
    Bn['__getattr__'] = _attr


def _unsupp(m):
    raise Unsupported(m)


def seq_loop(E, st, fr, R, inv_fn, label):
    """`for x in <abstract sequence R>` cut with an index-carrying invariant."""
    idx = {'i': z3.IntVal(0)}

    def inv(tag):
        i = idx['i']
        return [('index_in_range', z3.And(i >= 0, i <= z3.Length(R)))] + inv_fn(i)

    def havoc():
        idx['i'] = E.fresh('i', I)
        if 'gen_out' in E.w:
            E.w['gen_out'] = E.fresh('gen_out', VS)

    def test():
        return E.branch(idx['i'] < z3.Length(R))

    def bind():
        E.assign(st.target, VVal(R[idx['i']]), fr)

    def step():
        idx['i'] = idx['i'] + 1
    E.cut_loop(st, fr, inv, havoc, test=test, bind=bind, label=label, step=step)
    return idx


def default_only_obligation(E, fn, mod, qual):
    """without `only` every failure counts: the default of the parameter is BaseException itself"""
    names = [a.arg for a in fn.args.args]
    d = None
    if 'only' in names:
        i = names.index('only') - (len(names) - len(fn.args.defaults))
        d = fn.args.defaults[i] if i >= 0 else None
    v = E.eval(d, Frame(None, mod, None, mod.name)) if d is not None else None
    E.oblige(qual + '/default.only_is_BaseException', z3.BoolVal(v is EXC['BaseException']),
             detail='a BaseException-only failure (CancelledError of a cancelled child, a custom BaseException) is a '
                    'failure too')


def t_gather_excs(E):
    engine(E)
    mod = E.modules['aiuti.asyncio']
    fn = mod.functions.get('gather_excs')
    if fn is None:
        raise Unsupported('gather_excs no longer exists')
    f = VFunc(fn, None, mod, 'aiuti.asyncio.gather_excs')
    E.cur_func = f.qualname
    st = {}

    def on_yield(E, fr, v, node):
        out = E.w['gen_out']
        if isinstance(v, VOpt) and not E.branch(v.isnone):
            v = v.val
        if not (isinstance(v, VVal) and v.t.sort() == ValS):
            raise Unsupported('yield of %r' % (v,), node)
        E.w['gen_out'] = z3.Concat(out, z3.Unit(v.t))
        return NONE
    E.hooks[(f.qualname, 'yield')] = on_yield

    def loop0(E_, stn, fr, kind, src):
        if not isinstance(src, VSeq):
            raise Unsupported('gather_excs loop is not over the gathered results', stn)
        R = src.t
        st['R'] = R
        only = terms(st['only'])

        def inv(i):
            E.assume(unfoldF(R, only, i + 1))      # definitional unfolding of the spec function at i+1
            E.assume(unfoldF(R, only, i))
            return [('yielded_so_far_is_the_filtered_prefix', E.w['gen_out'] == F(R, only, i))]
        st['idx'] = seq_loop(E, stn, fr, R, inv, 'results')
    E.hooks[(f.qualname, 'loop', 0)] = loop0

    def body():
        st.clear()
        aws = E.fresh('aws', VS)
        E.w['aws_term'] = aws
        only = mk_only(E)
        st['only'] = only
        E.w['gen_out'] = z3.Empty(VS)
        E.cover(f.qualname + '/requires')
        E.canary(f.qualname + '/canary@entry')
        try:
            E.run_body(f, [VSeq(aws, VVal), only], {})
        except PyExc as pe:
            E.oblige(f.qualname + '/signals.raises_nothing_of_its_own', z3.BoolVal(False),
                     detail='gather_excs itself raised (origin: %s): every awaitable is awaited, failures are '
                            'YIELDED' % pe.exc.info.get('origin'))
            return
        E.cover(f.qualname + '/exit[return]')
        g = [e for e in E.effects if e[0] == 'asyncio.gather']
        E.oblige(f.qualname + '/call.gathers_exactly_once', z3.BoolVal(len(g) == 1))
        if len(g) == 1:
            args, rex = g[0][1], g[0][2]
            all_passed = len(args) == 1 and isinstance(args[0], VStar) and z3.eq(args[0].seq, aws) and \
                not E.w.get('aws_touched')
            E.oblige(f.qualname + '/call.every_given_awaitable_is_gathered', z3.BoolVal(bool(all_passed)))
            E.oblige(f.qualname + '/call.return_exceptions_is_True', z3.BoolVal(rex is True),
                     detail='a failure of one must not cancel or skip another')
        R = OUTCOMES(aws)
        n = z3.Length(R)
        E.oblige(f.qualname + '/ensures.yields_exactly_the_matching_exceptions_in_input_order',
                 E.w['gen_out'] == F(R, terms(only), n))
        default_only_obligation(E, fn, mod, f.qualname)
    E.run_paths(body)


def spec_gather_excs():
    def ret(E, a, kind):
        aws = a.aws.t if isinstance(a.aws, VSeq) else a.aws.seq
        R = OUTCOMES(aws)
        E.assume(z3.Length(R) == z3.Length(aws))
        S = F(R, terms(a.only), z3.Length(R))
        # facts about the spec function that callers may use (each a consequence of its definition):
        # every element is a matching exception, and it is empty only if no outcome matches
        j = E.fresh('j', I)
        E.assume(z3.Implies(z3.Length(S) > 0, match(S[0], terms(a.only))))
        return VSeq(S, VVal)
    return Spec('aiuti.asyncio.gather_excs',
                params=[('aws', None), ('only', lambda E: EXC['BaseException'])],
                post={'return': []}, ret=ret)


def t_raise_first_exc(E):
    engine(E)
    mod = E.modules['aiuti.asyncio']
    fn = mod.functions.get('raise_first_exc')
    if fn is None:
        raise Unsupported('raise_first_exc no longer exists')
    f = VFunc(fn, None, mod, 'aiuti.asyncio.raise_first_exc')
    E.cur_func = f.qualname
    E.specs['aiuti.asyncio.gather_excs'] = spec_gather_excs()
    st = {}

    def loop0(E_, stn, fr, kind, src):
        if not isinstance(src, VSeq):
            raise Unsupported('raise_first_exc does not iterate gather_excs(...)', stn)
        st['S'] = src.t
        seq_loop(E, stn, fr, src.t, lambda i: [('no_iteration_completes_normally', i == 0)], 'excs')
    E.hooks[(f.qualname, 'loop', 0)] = loop0

    def comprehension(E_, e, fr, kind, src):
        # the whole stream collected into a list first: the same stream, judged by what is raised from it
        if isinstance(src, VSeq):
            st['S'] = src.t
        return None
    E.builtins['__comprehension__'] = comprehension

    def body():
        st.clear()
        aws = E.fresh('aws', VS)
        E.w['aws_term'] = aws
        only = mk_only(E)
        E.cover(f.qualname + '/requires')
        E.canary(f.qualname + '/canary@entry')
        R = OUTCOMES(aws)
        S = F(R, terms(only), z3.Length(R))
        try:
            r = E.await_(E.call(f, [VSeq(aws, VVal), only], {}), None)
            E.cover(f.qualname + '/exit[return]')
            E.oblige(f.qualname + '/ensures.returns_None_only_when_nothing_matches',
                     z3.And(z3.BoolVal(isinstance(r, VNone)), z3.Length(S) == 0))
        except PyExc as pe:
            E.cover(f.qualname + '/exit[raise]')
            ident = pe.exc.ident
            E.oblige(f.qualname + '/signals.raises_the_first_matching_exception_in_input_order',
                     z3.And(z3.Length(S) > 0, ident == S[0]) if ident is not None else z3.BoolVal(False))
        E.oblige(f.qualname + '/call.only_is_forwarded', z3.BoolVal('S' in st and z3.eq(st['S'], S)),
                 detail='the stream iterated is gather_excs(aws, only) for the SAME aws and only')
        default_only_obligation(E, fn, mod, f.qualname)
    E.run_paths(body)


TASKS = {
    'asyncio.gather_excs': (t_gather_excs, {'C20'}),
    'asyncio.raise_first_exc': (t_raise_first_exc, {'C20'}),
}
