"""
Sidecar contracts for aiuti/filelock.py  (C02, C12, C13).

Abstract view of one FileLock object `o` seen by the calling thread `me`:
    mine(o)  :=  tl_depth >= 1 /\\ tl_owner = me          (I hold the in-process lock)
    WF(o)    :=  mine => fd /= None /\\ counter = tl_depth /\\ fd open /\\
                         flock_owner = ofd_of[fd] /\\ (not reentrant => tl_depth = 1)
Lock invariant of o._thread_lock (ownership discipline, checked at every release to depth 0
and assumed at every fresh acquisition):   fd = None /\\ counter = 0.
While `me` does not hold the in-process lock the fields belong to whoever does: they are
havocked (any interleaving of any number of other threads), only the lock invariant is known.
"""
import z3

from pyvc.values import *  # noqa: F401,F403
from pyvc.engine import PyExc, PathEnd, Unsupported, Frame
from pyvc.spec import Spec, Args, Snap, prove, classify_exception
from pyvc import stubs
from pyvc.stubs import lock_state, lock_keys, fs, now, wget

MOD = 'aiuti.filelock'
CLS = 'UnixFileLock'
FILES = ['aiuti/filelock.py']
I = z3.IntSort()

ALLOWED_EFFECTS = {'os.open', 'os.close', 'fcntl.flock', 'flock.mode', 'time.sleep', 'os.fstat', 'os.stat', 'os.lstat',
                   'TLock.release', 'TLock.release.notheld'}


# ------------------------------------------------------------------ symbolic object
def mk_self(E):
    mod = E.modules[MOD]
    ci = mod.classes[CLS]
    re = E.fresh_bool('reentrant')
    tl = stubs.new_lock(E, re, fresh=False)
    o = Obj(ci, dict(
        _lock_file=E.fresh_val('lock_file'),
        _lock_file_fd=VOpt(E.fresh('fd_none', z3.BoolSort()), E.fresh_int('fd')),
        timeout=E.fresh_real('self_timeout'),
        _reentrant=re,
        _thread_lock=tl,
        _lock_counter=E.fresh_int('counter'),
    ))
    lock_state(E, tl)
    fs(E)
    now(E)
    E.w['n_open_mine'] = z3.IntVal(0)
    E.w['my_fds'] = z3.K(I, False)
    E.assume(E.w['next_ofd'] >= 1)
    E.assume(E.w['flock_owner'] >= 0)
    E.assume(E.w['flock_owner'] < E.w['next_ofd'])
    install_protection(E, o)
    return o


def fd_none(v):
    if isinstance(v, VNone):
        return z3.BoolVal(True)
    if isinstance(v, VOpt):
        return v.isnone
    return z3.BoolVal(False)


def fd_val(v):
    if isinstance(v, VOpt):
        return v.val.t
    if isinstance(v, VInt):
        return v.t
    return z3.IntVal(-1)


def view(E, o, w=None, fields=None):
    w = E.w if w is None else w
    f = o.fields if fields is None else fields
    tl = o.fields['_thread_lock']
    kd, ko = lock_keys(tl)
    d, ow = w[kd], w[ko]
    fdv = f['_lock_file_fd']
    return dict(depth=d, owner=ow, mine=z3.And(d >= 1, ow == E.me), fd_none=fd_none(fdv), fd=fd_val(fdv),
                counter=f['_lock_counter'].t, re=o.fields['_reentrant'].t,
                open_fds=w['open_fds'], ofd_of=w['ofd_of'], flock_owner=w['flock_owner'],
                next_ofd=w['next_ofd'], n_open=w['n_open_mine'], my_fds=w['my_fds'], now=w['now'])


def old_view(E, o, old):
    return view(E, o, old.w, old.fields[o.oid])


def holds(v):
    """I hold the file lock: in-process lock mine, descriptor present and open, flock on its OFD."""
    return z3.And(v['mine'], z3.Not(v['fd_none']), v['counter'] == v['depth'],
                  z3.Select(v['open_fds'], v['fd']),
                  v['flock_owner'] == z3.Select(v['ofd_of'], v['fd']),
                  z3.Select(v['ofd_of'], v['fd']) >= 1)


def WF(v):
    return z3.And(z3.Implies(v['mine'], z3.And(holds(v), z3.Implies(z3.Not(v['re']), v['depth'] == 1))),
                  v['depth'] >= 0)


def lock_inv(E, o):
    f = o.fields
    return z3.And(fd_none(f['_lock_file_fd']), f['_lock_counter'].t == 0)


def install_protection(E, o):
    tl = o.fields['_thread_lock']

    def prot(what):
        if what == 'acquired':
            # fields now belong to me; whoever had them left the lock invariant behind
            o.fields['_lock_file_fd'] = VOpt(E.fresh('fd_none', z3.BoolSort()), E.fresh_int('fd'))
            o.fields['_lock_counter'] = E.fresh_int('counter')
            E.assume(lock_inv(E, o))
            E.used('rely: while the in-process lock is free the lock invariant fd=None/\\counter=0 holds '
                   '(every thread obeys the ownership discipline proved here for one)')
        else:
            E.oblige('%s/ownership.lock_invariant_restored_before_release_to_depth_0' % E.cur_func,
                     lock_inv(E, o), props={'C02', 'C12'})
            # the OS lock must already be dropped when the in-process lock is handed over (C02 ordering)
            v = view(E, o)
            E.oblige('%s/order.os_lock_dropped_before_in_process_lock' % E.cur_func,
                     z3.Not(z3.Select(v['my_fds'], z3.Select(z3.K(I, 0), 0))) if False else
                     (v['n_open'] == 0), props={'C02'})
    E.builtins[('lock_protects', tl.oid)] = prot

    def guard_write(E_, obj, name, val, node):
        if obj is o and name in ('_lock_file_fd', '_lock_counter'):
            v = view(E, o)
            E.oblige('%s/ownership.write(%s)_only_while_holding_in_process_lock' % (E.cur_func, name),
                     v['mine'], props={'C02', 'C12'}, site=getattr(node, 'lineno', None))
        return False
    E.builtins['__setattr__'] = guard_write


# ------------------------------------------------------------------ argument normalisation (spec side)
def eff(a, o_timeout):
    """(block_eff, timeout_eff) as the docstring of acquire defines them."""
    bl = a.blocking.t
    to = a.timeout
    if isinstance(to, VNone):
        isn, tv = z3.BoolVal(True), z3.RealVal(0)
    elif isinstance(to, VOpt):
        isn, tv = to.isnone, to.val.t
    else:
        isn, tv = z3.BoolVal(False), stubs._real(to)
    to_eff = z3.If(isn, z3.If(bl, o_timeout, z3.RealVal(-1)), tv)
    bl_eff = z3.If(isn, bl, z3.If(tv < 0, bl, z3.BoolVal(True)))
    return bl_eff, to_eff


def valid_timeout(t):
    return z3.Or(t == -1, t >= 0)


# ------------------------------------------------------------------ Spec: acquire
def acquire_pre():
    def timeout_ok(E, a):
        to = a.timeout
        ok_self = valid_timeout(a.self.fields['timeout'].t)
        if isinstance(to, VNone):
            return ok_self
        if isinstance(to, VOpt):
            return z3.And(ok_self, z3.Or(to.isnone, valid_timeout(to.val.t)))
        return z3.And(ok_self, valid_timeout(stubs._real(to)))
    return [
        ('wf', lambda E, a: WF(view(E, a.self))),
        ('timeout_is_None_-1_or_nonnegative', timeout_ok),
        ('poll_nonnegative', lambda E, a: stubs._real(a.poll_interval) >= 0),
    ]


def _unchanged(v0, v1):
    return z3.And(v1['depth'] == v0['depth'], v1['owner'] == v0['owner'], v1['fd_none'] == v0['fd_none'],
                  z3.Implies(z3.Not(v0['fd_none']), v1['fd'] == v0['fd']), v1['counter'] == v0['counter'],
                  v1['open_fds'] == v0['open_fds'], v1['flock_owner'] == v0['flock_owner'])


def _nothing_kept(v0, v1):
    """Unsuccessful exit when I did not hold the lock before: I hold nothing now, leaked nothing."""
    return z3.And(z3.Not(v1['mine']), v1['n_open'] == 0,
                  z3.Or(v1['flock_owner'] < v0['next_ofd'], v1['flock_owner'] == 0))


def acquire_post():
    def true_means_held(E, a, old, res):
        v0, v1 = old_view(E, a.self, old), view(E, a.self)
        r = res.t
        return z3.Implies(r, z3.And(
            holds(v1), WF(v1),
            v1['depth'] == z3.If(v0['mine'], v0['depth'] + 1, 1),
            z3.Implies(v0['mine'], z3.And(v1['fd'] == v0['fd'], v1['n_open'] == 0,
                                          v1['open_fds'] == v0['open_fds'])),
            z3.Implies(z3.Not(v0['mine']), z3.And(v1['n_open'] == 1, z3.Select(v1['my_fds'], v1['fd']),
                                                  z3.Select(v1['ofd_of'], v1['fd']) >= v0['next_ofd']))))

    def false_changes_nothing(E, a, old, res):
        v0, v1 = old_view(E, a.self, old), view(E, a.self)
        r = res.t
        return z3.Implies(z3.Not(r), z3.If(v0['mine'], _unchanged(v0, v1), _nothing_kept(v0, v1)))

    def nonreentrant_refuses_second(E, a, old, res):
        v0 = old_view(E, a.self, old)
        return z3.Implies(z3.And(v0['mine'], z3.Not(v0['re'])), z3.Not(res.t))

    def reentrant_owner_always_gets_it(E, a, old, res):
        v0 = old_view(E, a.self, old)
        return z3.Implies(z3.And(v0['mine'], v0['re']), res.t)

    def blocking_untimed_only_returns_true(E, a, old, res):
        bl, to = eff(a, a.self.fields['timeout'].t)
        return z3.Implies(z3.And(bl, to < 0), res.t)

    def nonblocking_returns_at_once(E, a, old, res):
        bl, to = eff(a, a.self.fields['timeout'].t)
        return z3.Implies(z3.Not(bl), E.w['now'] == old.w['now'])

    def timed_within_two_stages_plus_poll(E, a, old, res):
        bl, to = eff(a, a.self.fields['timeout'].t)
        slack = E.w.get('slack', z3.RealVal(0))
        return z3.Implies(z3.And(bl, to >= 0),
                          E.w['now'] - old.w['now'] <= 2 * to + stubs._real(a.poll_interval) + slack)

    def exc_leaves_no_residue(E, a, old, exc):
        v0, v1 = old_view(E, a.self, old), view(E, a.self)
        return z3.If(v0['mine'], _unchanged(v0, v1), _nothing_kept(v0, v1))

    def exc_only_from_close(E, a, old, exc):
        return z3.BoolVal(exc.info.get('origin') == 'os.close')

    return {
        'return': [
            ('true_means_lock_held_by_caller', {'C02', 'C12'}, true_means_held),
            ('false_leaves_everything_as_it_was', {'C12', 'C13'}, false_changes_nothing),
            ('nonreentrant_refuses_second_acquire', {'C12'}, nonreentrant_refuses_second),
            ('reentrant_owner_reacquires', {'C12'}, reentrant_owner_always_gets_it),
            ('blocking_untimed_acquire_only_returns_True', {'C12'}, blocking_untimed_only_returns_true),
            ('nonblocking_returns_at_once', {'C12'}, nonblocking_returns_at_once),
            ('timed_returns_within_2_timeouts_plus_poll', {'C12'}, timed_within_two_stages_plus_poll),
        ],
        'OSError': [
            ('failed_attempt_keeps_nothing', {'C12', 'C02', 'C13'}, exc_leaves_no_residue),
            ('only_a_failing_close_propagates', {'C12'}, exc_only_from_close),
        ],
        'KeyboardInterrupt': [
            # C13 too: a survivor whose wait behind a (dying) holder is cut short must be able to try again
            ('interrupted_attempt_keeps_nothing', {'C12', 'C02', 'C13'}, exc_leaves_no_residue),
            ('only_an_interrupt_of_the_wait_propagates', {'C12'},
             lambda E, a, old, exc: z3.BoolVal(exc.info.get('origin') == 'interrupt')),
        ],
    }


def acquire_frame(E, a, kind):
    """Call-site havoc: everything acquire may modify."""
    o = a.self
    tl = o.fields['_thread_lock']
    kd, ko = lock_keys(tl)
    E.w[kd] = E.fresh('tl_depth', I)
    E.w[ko] = E.fresh('tl_owner', stubs.ThreadS)
    o.fields['_lock_file_fd'] = VOpt(E.fresh('fd_none', z3.BoolSort()), E.fresh_int('fd'))
    o.fields['_lock_counter'] = E.fresh_int('counter')
    for k, srt in (('open_fds', z3.ArraySort(I, z3.BoolSort())), ('ofd_of', z3.ArraySort(I, I)),
                   ('flock_owner', I), ('next_ofd', I), ('n_open_mine', I),
                   ('my_fds', z3.ArraySort(I, z3.BoolSort())), ('now', z3.RealSort())):
        old = E.w.get(k)
        E.w[k] = E.fresh(k, srt)
        if k == 'now' and old is not None:
            E.assume(E.w[k] >= old)
        if k == 'next_ofd' and old is not None:
            E.assume(E.w[k] >= old)


SPEC_ACQUIRE = Spec(
    MOD + '.BaseFileLock.acquire',
    params=[('self', None), ('blocking', VBool(True)), ('timeout', NONE), ('poll_interval', VReal(z3.RealVal('0.05')))],
    pre=acquire_pre(), post=acquire_post(), frame=acquire_frame,
    ret=lambda E, a, kind: (E.fresh_bool('acquired') if kind == 'return' else
                            E.mk_exc('OSError', origin='os.close') if kind == 'OSError' else
                            E.mk_exc('KeyboardInterrupt', origin='interrupt')),
)


# ------------------------------------------------------------------ Spec: release
def release_pre():
    return [
        ('wf', lambda E, a: WF(view(E, a.self))),
        # "release is called by the acquiring thread; releasing an unheld lock is a no-op":
        # either I hold it, or nobody does (and no other thread is racing to take it: assumption A-rel)
        # ... or ANOTHER thread is in the middle of an acquire on this object (it owns the in-process lock and polls
        # for the OS lock: no descriptor yet): for the caller the lock is unheld, its release must be a no-op
        ('held_by_caller_or_unheld', lambda E, a: z3.Or(
            view(E, a.self)['mine'],
            z3.And(view(E, a.self)['depth'] == 0, lock_inv(E, a.self)),
            z3.And(view(E, a.self)['depth'] >= 1, view(E, a.self)['owner'] != E.me, view(E, a.self)['fd_none'],
                   view(E, a.self)['counter'] >= 1))),
    ]


def release_post():
    def noop_when_unheld(E, a, old, res):
        v0, v1 = old_view(E, a.self, old), view(E, a.self)
        return z3.Implies(z3.Not(v0['mine']), z3.And(_unchanged(v0, v1), v1['now'] == v0['now']))

    def inner_release_keeps_lock(E, a, old, res):
        v0, v1 = old_view(E, a.self, old), view(E, a.self)
        f = E.truth(a.force)
        f = z3.BoolVal(f) if isinstance(f, bool) else f
        return z3.Implies(z3.And(v0['mine'], v0['depth'] > 1, z3.Not(f)),
                          z3.And(holds(v1), v1['depth'] == v0['depth'] - 1, v1['fd'] == v0['fd'],
                                 v1['open_fds'] == v0['open_fds'], v1['flock_owner'] == v0['flock_owner']))

    def full_release(E, a, old, res):
        v0, v1 = old_view(E, a.self, old), view(E, a.self)
        f = E.truth(a.force)
        f = z3.BoolVal(f) if isinstance(f, bool) else f
        return z3.Implies(z3.And(v0['mine'], z3.Or(v0['depth'] == 1, f)),
                          z3.And(v1['fd_none'], v1['counter'] == 0, v1['depth'] == 0,
                                 z3.Not(z3.Select(v1['open_fds'], v0['fd'])),
                                 v1['flock_owner'] != z3.Select(v0['ofd_of'], v0['fd'])))
    return {'return': [
        ('releasing_unheld_lock_is_noop', {'C12'}, noop_when_unheld),
        ('inner_release_of_reentrant_keeps_the_lock', {'C12', 'C02'}, inner_release_keeps_lock),
        ('outermost_or_forced_release_frees_everything', {'C12', 'C02'}, full_release),
    ]}


SPEC_RELEASE = Spec(
    MOD + '.BaseFileLock.release',
    params=[('self', None), ('force', VBool(False))],
    pre=release_pre(), post=release_post(), frame=acquire_frame,
    ret=lambda E, a, kind: NONE,
)


def stubs_truth(E, v):
    t = E.truth(v)
    return z3.BoolVal(t) if isinstance(t, bool) else t


# ------------------------------------------------------------------ loop invariants
def acquire_poll_loop(E, st, fr, kind, src):
    """`while True:` polling loop of acquire (loop #0)."""
    o = fr.lookup('self')
    ent = {}

    def inv(tag):
        v = view(E, o)
        if tag == 'entry':
            ent.update(depth=v['depth'], now=v['now'], next_ofd=v['next_ofd'], open_fds=v['open_fds'])
        start = fr.lookup('start_time').t
        to = stubs._real(E.unopt(fr.lookup('timeout')))
        poll = stubs._real(fr.lookup('poll_interval'))
        return [
            ('holds_in_process_lock_only', z3.And(v['mine'], v['fd_none'], v['counter'] == v['depth'],
                                                  v['depth'] == ent['depth'])),
            ('no_descriptor_open', v['n_open'] == 0),
            ('os_lock_not_ours', z3.Or(v['flock_owner'] == 0, v['flock_owner'] < ent['next_ofd'])),
            ('clock', z3.And(v['now'] >= start, z3.Implies(to >= 0, v['now'] <= start + to + poll))),
            ('nonblocking_spends_no_time', z3.Implies(z3.Not(stubs_truth(E, fr.lookup('blocking'))),
                                                      v['now'] == ent['now'])),
            ('ofd_counter_monotone', v['next_ofd'] >= ent['next_ofd']),
        ]

    def havoc():
        o.fields['_lock_file_fd'] = VOpt(E.fresh('fd_none', z3.BoolSort()), E.fresh_int('fd'))
        for k, srt in (('open_fds', z3.ArraySort(I, z3.BoolSort())), ('ofd_of', z3.ArraySort(I, I)),
                       ('flock_owner', I), ('next_ofd', I), ('n_open_mine', I),
                       ('my_fds', z3.ArraySort(I, z3.BoolSort())), ('now', z3.RealSort())):
            E.w[k] = E.fresh(k, srt)
        E.assume(E.w['flock_owner'] >= 0)
        E.assume(E.w['flock_owner'] < E.w['next_ofd'])
    E.cut_loop(st, fr, inv, havoc, label='poll')


def release_levels_loop(E, st, fr, kind, src):
    """`for _ in range(levels): self._thread_lock.release()` (loop #0 of release)."""
    o = fr.lookup('self')
    if not (isinstance(src, Obj) and src.cls == 'range'):
        raise Unsupported('release loop is not over range(levels)', st)
    n = src.fields['n'].t
    tl = o.fields['_thread_lock']
    kd, ko = lock_keys(tl)
    ent = {}
    idx = {'i': z3.IntVal(0)}

    def inv(tag):
        v = view(E, o)
        if tag == 'entry':
            ent.update(depth=v['depth'], mine=v['mine'])
        i = idx['i']
        return [('index', z3.And(i >= 0, i <= n)),
                ('depth_drops_by_one_per_iteration',
                 z3.Implies(ent['mine'], z3.And(v['depth'] == ent['depth'] - i, v['owner'] == E.me))),
                ('unheld_stays_unheld', z3.Implies(z3.Not(ent['mine']), z3.Not(v['mine'])))]

    def havoc():
        idx['i'] = E.fresh('i', I)
        E.w[kd] = E.fresh('tl_depth', I)
        E.w[ko] = E.fresh('tl_owner', stubs.ThreadS)

    def test():
        return E.branch(idx['i'] < n)

    def bind():
        E.assign(st.target, VInt(idx['i']), fr)

    def step():
        idx['i'] = idx['i'] + 1
    E.cut_loop(st, fr, inv, havoc, test=test, bind=bind, label='levels', step=step)


# ------------------------------------------------------------------ harness
def base_engine(E, inline_all=True):
    stubs.install_all(E)
    E.rare_oserrors = True
    E.timer_slack = True
    # preconditions of the kernel stubs (flock / close on an OPEN descriptor of ours) decide C02 as well: a
    # descriptor number used after close() may by then belong to somebody else's lock
    E.stub_props = frozenset({'C12', 'C02'})
    E.me = z3.Const('me', stubs.ThreadS)
    # platform selection at import time (checked on the real module by the conformance run):
    # fcntl imports, msvcrt does not -> FileLock is UnixFileLock
    E.builtins[('module', MOD, 'fcntl')] = E.builtins[('import', 'fcntl')]
    E.builtins[('module', MOD, 'msvcrt')] = NONE
    q = MOD + '.BaseFileLock.'
    E.inline |= {q + '_acquire', q + '_release', q + '_decrement_lock_counter', q + 'is_locked',
                 MOD + '.UnixFileLock._lock', MOD + '.UnixFileLock._unlock'}
    # private helpers of the lock classes without a contract of their own are executed inline (a helper
    # extracted by a refactoring stays decidable); public methods go by contract
    E.inline_prefixes = (MOD + '.BaseFileLock._', MOD + '.UnixFileLock._')
    E.hooks[(q + 'acquire', 'loop', 0)] = acquire_poll_loop
    E.hooks[(q + 'release', 'loop', 0)] = release_levels_loop
    # a blocked thread can be interrupted: time.sleep() either sleeps its time or is cut short by a
    # KeyboardInterrupt (BaseException-only), the way Ctrl-C / a signal handler reaches the main thread
    plain_sleep = E.builtins[('import', 'time')].attrs['sleep']

    def sleep(E_, args, kw):
        if E_.choose([('slept', None), ('interrupted', None)], 'time.sleep') == 'slept':
            return (plain_sleep.fn if isinstance(plain_sleep, VStub) else plain_sleep)(E_, args, kw)
        E_.effect('time.sleep', args[0])
        stubs.advance(E_, hi=stubs._real(args[0]))
        E_.throw('KeyboardInterrupt', origin='interrupt')
    sl = VStub('time.sleep', sleep)
    E.builtins[('import', 'time')].attrs['sleep'] = sl
    E.builtins[('import', 'time:sleep')] = sl


def method(E, name):
    mod = E.modules[MOD]
    ci = mod.classes[CLS]
    c, m = ci.find(name)
    if m is None:
        raise Unsupported('method %s.%s no longer exists' % (CLS, name))
    return VFunc(m, None, c.module, '%s.%s.%s' % (c.module.name, c.name, name), cls=c)


def frame_obligations(E, o, qual):
    """C13 (frame condition) + C02 (lock mode): judged on the effects this path performed."""
    fl = E.builtins['__fcntl_consts__']
    import os as _os
    bad = [e for e in E.effects if e[0] not in ALLOWED_EFFECTS]
    # C12 too: "fully released" means the flock itself is dropped by flock(LOCK_UN) -- a lockf()/fcntl() in its place is a
    # no-op on a flock, the OS lock then lives on in every duplicate of the descriptor (a forked child, os.dup)
    E.oblige('%s/frame.world_effects_within_{open,flock,close,sleep}' % qual, len(bad) == 0, props={'C13', 'C02', 'C12'},
             detail='offending effects: %r' % ([b[0] for b in bad],))
    for e in E.effects:
        if e[0] == 'os.open':
            path, flags = e[1], e[2]
            fc = flags.concrete() if isinstance(flags, VInt) else None
            E.oblige('%s/frame.open_has_O_CREAT_and_no_O_EXCL' % qual,
                     fc is not None and (fc & _os.O_CREAT) != 0 and (fc & _os.O_EXCL) == 0
                     and (fc & 3) == _os.O_RDWR, props={'C13'})
            E.oblige('%s/frame.open_path_is_the_lock_file' % qual, path is o.fields['_lock_file'] or
                     (isinstance(path, VVal) and z3.eq(path.t, o.fields['_lock_file'].t)), props={'C13', 'C02'})
        if e[0] == 'flock.mode':
            E.oblige('%s/os_lock.is_exclusive_never_shared' % qual, e[1] == 'EX', props={'C02'})


def t_acquire(E):
    base_engine(E)
    f = method(E, 'acquire')
    E.cur_func = f.qualname
    E.props_default = frozenset({'C12'})

    def setup(E):
        o = mk_self(E)
        return Args(dict(self=o, blocking=E.fresh_bool('blocking'),
                         timeout=VOpt(E.fresh('timeout_none', z3.BoolSort()), E.fresh_real('timeout')),
                         poll_interval=E.fresh_real('poll')))

    def body():
        prove(E, SPEC_ACQUIRE, f, setup)
        # non-blocking path: no sleep, no blocking flock (property C12) -- judged on this path's effects
        a_self = None
    def body2():
        a = {}

        def setup2(E):
            a['args'] = setup(E)
            return a['args']
        try:
            prove(E, SPEC_ACQUIRE, f, setup2)
        finally:
            if 'args' in a:
                ar = a['args']
                frame_obligations(E, ar.self, f.qualname)
                bl, to = eff(ar, ar.self.fields['timeout'].t)
                slept = any(e[0] == 'time.sleep' for e in E.effects)
                blockflock = any(e[0] == 'flock.mode' and e[2] == 'BLOCK' for e in E.effects)
                if slept or blockflock:
                    E.oblige('%s/nonblocking.never_sleeps_or_blocks_in_flock' % f.qualname, bl, props={'C12'})
                if blockflock:
                    E.oblige('%s/timed.never_blocks_in_flock' % f.qualname, z3.Not(to >= 0), props={'C12'})
    E.run_paths(body2)


def t_release(E):
    base_engine(E)
    f = method(E, 'release')
    E.cur_func = f.qualname
    E.props_default = frozenset({'C12'})
    a = {}

    def setup(E):
        a['args'] = Args(dict(self=mk_self(E), force=E.fresh_bool('force')))
        return a['args']

    def body():
        a.clear()
        try:
            prove(E, SPEC_RELEASE, f, setup)
        finally:
            if 'args' in a:
                frame_obligations(E, a['args'].self, f.qualname)
                # C02 ordering: unlock/close happen before the in-process lock is released
                names = [e[0] for e in E.effects]
                if 'TLock.release' in names and 'os.close' in names:
                    E.oblige('%s/order.close_precedes_in_process_release' % f.qualname,
                             names.index('os.close') < names.index('TLock.release'), props={'C02'})
    E.run_paths(body)


# --- context-manager forms: use acquire/release BY CONTRACT (modular) -----------------
def _ctx_engine(E):
    base_engine(E)
    q = MOD + '.BaseFileLock.'
    E.specs[q + 'acquire'] = SPEC_ACQUIRE
    E.specs[q + 'release'] = SPEC_RELEASE


def t_enter(E):
    _ctx_engine(E)
    f = method(E, '__enter__')
    E.cur_func = f.qualname
    E.props_default = frozenset({'C02', 'C12'})
    spec = Spec(f.qualname, params=[('self', None)],
                pre=[('wf', lambda E, a: WF(view(E, a.self))),
                     ('default_timeout_valid', lambda E, a: valid_timeout(a.self.fields['timeout'].t))],
                post={'return': [('entering_the_with_block_means_holding_the_lock', {'C02', 'C12'},
                                  lambda E, a, old, res: holds(view(E, a.self))),
                                 ('returns_self', {'C12'}, lambda E, a, old, res: z3.BoolVal(res is a.self))],
                      'TimeoutError': [('not_acquired_keeps_nothing', {'C12'},
                                        lambda E, a, old, exc: z3.If(
                                            old_view(E, a.self, old)['mine'],
                                            _unchanged(old_view(E, a.self, old), view(E, a.self)),
                                            _nothing_kept(old_view(E, a.self, old), view(E, a.self))))],
                      'OSError': [('failed_attempt_keeps_nothing', {'C12'},
                                   lambda E, a, old, exc: z3.If(
                                       old_view(E, a.self, old)['mine'],
                                       _unchanged(old_view(E, a.self, old), view(E, a.self)),
                                       _nothing_kept(old_view(E, a.self, old), view(E, a.self))))],
                      'KeyboardInterrupt': [('interrupted_attempt_keeps_nothing', {'C12'},
                                             lambda E, a, old, exc: z3.If(
                                                 old_view(E, a.self, old)['mine'],
                                                 _unchanged(old_view(E, a.self, old), view(E, a.self)),
                                                 _nothing_kept(old_view(E, a.self, old), view(E, a.self))))]})
    E.run_paths(lambda: prove(E, spec, f, lambda E: Args(dict(self=mk_self(E)))))


def t_exit(E):
    _ctx_engine(E)
    f = method(E, '__exit__')
    E.cur_func = f.qualname
    E.props_default = frozenset({'C12'})

    def post(E, a, old, res):
        v0, v1 = old_view(E, a.self, old), view(E, a.self)
        return z3.And(
            z3.Implies(z3.And(v0['mine'], v0['depth'] == 1),
                       z3.And(v1['fd_none'], v1['depth'] == 0, v1['counter'] == 0)),
            z3.Implies(z3.And(v0['mine'], v0['depth'] > 1), z3.And(holds(v1), v1['depth'] == v0['depth'] - 1)))
    spec = Spec(f.qualname, params=[('self', None), ('et', NONE), ('ev', NONE), ('tb', NONE)],
                pre=release_pre(),
                post={'return': [('releases_exactly_one_level', {'C12', 'C02'}, post)]})

    def setup(E):
        # the with-block ended normally (None, None, None) or by an exception (type, value, traceback)
        raised = E.fresh('with_body_raised', z3.BoolSort())
        mk = lambda n: VOpt(z3.Not(raised), E.fresh_val(n))   # noqa: E731
        return Args(dict(self=mk_self(E), et=mk('exc_type'), ev=mk('exc_value'), tb=mk('traceback')))
    E.run_paths(lambda: prove(E, spec, f, setup))


def t_acquire_ctx(E):
    _ctx_engine(E)
    f = method(E, 'acquire_ctx')
    E.cur_func = f.qualname
    # C13 too: "mutual exclusion among the survivors continues to hold" -- a survivor that fails to get the lock through
    # this form must not release what another survivor holds
    E.props_default = frozenset({'C12', 'C02', 'C13'})
    st = {}

    def on_yield(E, fr, v, node):
        o = fr.lookup('self')
        st['yielded'] = True
        vv = view(E, o)
        st['depth_in_body'] = vv['depth']
        E.oblige('%s/ensures.with_body_runs_holding_the_lock' % f.qualname, holds(vv), props={'C02', 'C12'})
        # the with-body: arbitrary user code that uses the lock in a balanced way, then ends normally
        # or raises anything (assumption A-body)
        E.used('assume: the body of `with lock.acquire_ctx()` leaves the lock as it found it')
        E.w['now'] = E.fresh('now', z3.RealSort())
        tag = E.choose([('normal', None), ('raises', None)], 'with-body')
        if tag == 'raises':
            st['body_raised'] = True
            c = E.fresh('body_exc', ClsS)
            E.need_hierarchy()
            E.assume(sub(c, EXC['BaseException'].term))
            raise PyExc(VExc(c, (), info={'origin': 'with-body'}))
        return NONE
    E.hooks[(f.qualname, 'yield')] = on_yield

    class _Recording:
        """acquire() by contract, remembering what it was called with"""
        def apply(self, E_, args, kwargs, node=None):
            names = ['self', 'blocking', 'timeout', 'poll_interval']
            got = dict(zip(names, args))
            got.update(kwargs)
            st.setdefault('acquire_calls', []).append(got)
            return SPEC_ACQUIRE.apply(E_, args, kwargs, node)
    E.specs[MOD + '.BaseFileLock.acquire'] = _Recording()

    def body():
        st.clear()
        o = mk_self(E)
        blocking = E.fresh_bool('blocking')
        timeout = VOpt(E.fresh('timeout_none', z3.BoolSort()), E.fresh_real('timeout'))
        poll = E.fresh_real('poll')
        a = Args(dict(self=o, blocking=blocking, timeout=timeout, poll_interval=poll))
        for name, g in acquire_pre():
            E.assume(g(E, a))
        E.cover(f.qualname + '/requires')
        E.canary(f.qualname + '/canary@entry')
        old = Snap(E, [o])
        v0 = old_view(E, o, old)
        try:
            E.run_body(f, [o, blocking, timeout, poll], {})
            kind = 'return'
        except PyExc as pe:
            kind = 'raise'
            exc = pe.exc
        v1 = view(E, o)
        E.cover('%s/exit[%s]' % (f.qualname, kind))
        calls = st.get('acquire_calls', [])
        E.oblige('%s/call.acquires_once_with_the_callers_blocking_timeout_and_poll_interval' % f.qualname,
                 z3.BoolVal(len(calls) == 1 and calls[0].get('blocking') is blocking and
                            calls[0].get('timeout') is timeout and calls[0].get('poll_interval') is poll),
                 props={'C12'}, detail='acquire_ctx(blocking, timeout, poll_interval) is acquire(blocking, timeout, '
                                       'poll_interval) as a context manager: same waiting, same polling')
        if st.get('yielded'):
            # released exactly once on every exit of the body: back to the depth before the with
            E.oblige('%s/ensures.released_exactly_once_after_body[%s]' % (f.qualname, kind),
                     z3.If(v0['mine'], z3.And(v1['depth'] == v0['depth'], holds(v1)),
                           z3.And(z3.Not(v1['mine']), v1['fd_none'], v1['counter'] == 0)), props={'C12', 'C02'})
            if kind == 'raise':
                E.oblige('%s/signals.body_exception_propagates' % f.qualname,
                         z3.BoolVal(exc.info.get('origin') == 'with-body'), props={'C12'})
        else:
            E.oblige('%s/ensures.body_skipped_only_by_raising' % f.qualname, z3.BoolVal(kind == 'raise'),
                     props={'C02', 'C12'})
            if kind == 'raise':
                E.oblige('%s/signals.TimeoutError_iff_acquire_returned_False' % f.qualname,
                         z3.BoolVal(E.exc_isinstance(exc, EXC['OSError']) is True or
                                    exc.info.get('origin') == 'interrupt'), props={'C12'},
                         detail='(or the interrupt that cut the wait short)')
                E.oblige('%s/signals.not_acquired_keeps_nothing' % f.qualname,
                         z3.If(v0['mine'], _unchanged(v0, v1), _nothing_kept(v0, v1)), props={'C12'})
    E.run_paths(body)


def t_del(E):
    _ctx_engine(E)
    f = method(E, '__del__')
    E.cur_func = f.qualname
    E.props_default = frozenset({'C12'})

    def post(E, a, old, res):
        v0, v1 = old_view(E, a.self, old), view(E, a.self)
        return z3.Implies(v0['mine'], z3.And(v1['fd_none'], v1['depth'] == 0, v1['counter'] == 0))
    spec = Spec(f.qualname, params=[('self', None)], pre=release_pre(),
                post={'return': [('finaliser_force_releases_everything', {'C12'}, post)]})
    a = {}

    def setup(E):
        a['args'] = Args(dict(self=mk_self(E)))
        return a['args']

    def body():
        a.clear()
        try:
            prove(E, spec, f, setup)
        finally:
            if 'args' in a:
                # the finaliser too touches nothing but the lock protocol: removing or renaming the lock file lets a
                # waiter lock the orphaned inode while newcomers lock a new file of the same name (C02, C13)
                bad = [e for e in E.effects if e[0] not in ALLOWED_EFFECTS]
                E.oblige('%s/frame.world_effects_within_{open,flock,close,sleep}' % f.qualname, len(bad) == 0,
                         props={'C13', 'C02', 'C12'}, detail='offending effects: %r' % ([b[0] for b in bad],))
    E.run_paths(body)


def t_init(E):
    """__init__ establishes the lock invariant and picks Lock / RLock by `reentrant`."""
    base_engine(E)
    f = method(E, '__init__')
    E.cur_func = f.qualname
    E.props_default = frozenset({'C12'})

    def body():
        mod = E.modules[MOD]
        o = Obj(mod.classes[CLS])
        re = E.fresh_bool('reentrant')
        to = E.fresh_real('timeout')
        path = E.fresh_val('lock_file')
        E.builtins.pop('__setattr__', None)
        E.cover(f.qualname + '/requires')
        E.canary(f.qualname + '/canary@entry')
        E.run_function(f, [o, path, to, re], {})
        E.cover(f.qualname + '/exit[return]')
        tl = o.fields.get('_thread_lock')
        ok = isinstance(tl, Obj) and tl.cls == 'TLock'
        E.oblige(f.qualname + '/ensures.in_process_lock_created', z3.BoolVal(ok))
        if ok:
            d, ow = lock_state(E, tl)
            E.oblige(f.qualname + '/ensures.lock_kind_follows_reentrant', tl.fields['reentrant'].t == re.t)
            E.oblige(f.qualname + '/ensures.starts_unlocked_with_lock_invariant',
                     z3.And(d == 0, lock_inv(E, o)))
            E.oblige(f.qualname + '/ensures.default_timeout_stored',
                     stubs._real(o.fields['timeout']) == to.t)
        lf = o.fields.get('_lock_file')
        E.oblige(f.qualname + '/ensures.lock_file_is_the_path_given_unchanged',
                 z3.BoolVal(lf is path or (isinstance(lf, VVal) and z3.eq(lf.t, path.t))), props={'C02', 'C12', 'C13'},
                 detail='two contenders that name the same file lock the same file only if the path reaches open() as '
                        'the OS would resolve it: abspath/normpath collapse `..` textually (before a symlinked '
                        'directory is resolved), expanduser/realpath pick another spelling at construction time')
    E.run_paths(body)


def t_lemmas(E):
    """Property-level lemmas over the contracts (pure SMT, no code)."""
    stubs.install_all(E)
    E.cur_func = 'lemma'
    E.props_default = frozenset({'C02'})

    def body():
        Th = stubs.ThreadS
        t1, t2 = z3.Consts('t1 t2', Th)
        depth = z3.Int('depth')
        owner = z3.Const('owner', Th)
        # (same object) two threads cannot both satisfy `mine`
        E.oblige('C02/lemma.one_thread_per_object',
                 z3.Implies(z3.And(depth >= 1, owner == t1, depth >= 1, owner == t2), t1 == t2), props={'C02'})
        # (objects / processes) holds() pins flock_owner to the holder's OFD; OFDs of different
        # acquisitions are distinct (os.open stub: fresh OFD per call), so two holders coincide
        fo = z3.Int('flock_owner')
        ofd_a, ofd_b = z3.Ints('ofd_a ofd_b')
        E.oblige('C02/lemma.one_open_file_description_per_inode',
                 z3.Implies(z3.And(fo == ofd_a, fo == ofd_b), ofd_a == ofd_b), props={'C02'})
        # C13: exclusion state is the flock table alone (frame condition, proved per function) and the kernel
        # stub says: when a process dies every OFD only it holds is closed, which drops the flock it held.
        proc_of = z3.Function('process_of_ofd', z3.IntSort(), z3.IntSort())
        alive = z3.Function('process_alive', z3.IntSort(), z3.BoolSort())
        fo0, fo1, dead = z3.Int('flock_owner0'), z3.Int('flock_owner1'), z3.Int('dead_process')
        kernel_inv = lambda f: z3.Implies(f != 0, alive(proc_of(f)))          # noqa: E731
        alive1 = z3.Function('process_alive_after', z3.IntSort(), z3.BoolSort())
        p_ = z3.Int('p')
        crash = z3.And(alive(dead), z3.Not(alive1(dead)),
                       z3.ForAll([p_], z3.Implies(p_ != dead, alive1(p_) == alive(p_))),
                       fo1 == z3.If(proc_of(fo0) == dead, z3.IntVal(0), fo0))
        E.oblige('C13/lemma.after_a_crash_the_lock_is_free_or_held_by_a_live_process',
                 z3.Implies(z3.And(kernel_inv(fo0), crash), z3.Implies(fo1 != 0, alive1(proc_of(fo1)))), props={'C13'},
                 detail='with the frame condition (no other persistent ownership state) a survivor\'s acquire meets the '
                        'same precondition as on a fresh lock file, whatever statement the victim was killed at')
        E.oblige('C13/lemma.a_dead_holder_never_blocks_survivors',
                 z3.Implies(z3.And(kernel_inv(fo0), crash, proc_of(fo0) == dead), fo1 == 0), props={'C13'})
    E.run_paths(body)


TASKS = {
    'filelock.__init__': (t_init, {'C12', 'C02', 'C13'}),
    'filelock.acquire': (t_acquire, {'C02', 'C12', 'C13'}),
    'filelock.release': (t_release, {'C02', 'C12', 'C13'}),
    'filelock.__enter__': (t_enter, {'C02', 'C12'}),
    'filelock.__exit__': (t_exit, {'C02', 'C12'}),
    'filelock.acquire_ctx': (t_acquire_ctx, {'C02', 'C12', 'C13'}),
    'filelock.__del__': (t_del, {'C12', 'C02', 'C13'}),
    'filelock.lemmas': (t_lemmas, {'C02', 'C13'}),
}
