"""
Sidecar contracts for the decorator forms (C15) and the constructors that store the options.

* options form:  D(None, **opts)  ==  partial(D, **opts')  with opts'[p] is opts[p] for EVERY keyword-only
  parameter p of D -- generated from D's own signature in the AST, so a new option is covered without
  touching this file;
* direct forms: each option reaches the place where the other contracts read it.
"""
import z3

from pyvc.values import *  # noqa: F401,F403
from pyvc.engine import PyExc, PathEnd, Unsupported, Frame
from pyvc import stubs, aio
from pyvc.aio import LoopS

MOD = 'aiuti.asyncio'
DECOS = ['threadsafe_async_cache', 'buffer_until_timeout', 'async_background_batcher']


def engine(E):
    stubs.install_all(E)
    aio.install(E)
    aio.install_objects(E)
    E.props_default = frozenset({'C15'})


# which other property reads each option (the option form / the direct form must hand it over for THAT property
# to hold for decorated functions too)
OPTION_PROPS = {'cache': {'C14'}, 'timeout': {'C08'}, 'max_batch_size': {'C10'}, 'max_concurrent_batches': {'C10'},
                'batch_timeout': {'C10'}, 'retention_timeout': {'C11'}}


def oprops(name):
    return {'C15'} | OPTION_PROPS.get(name, set())


def same_value(E, a, b):
    """the value bound is the value given (identity for objects, equality for literals)"""
    if a is b or (isinstance(a, VNone) and isinstance(b, VNone)):
        return True
    for T in (VInt, VReal, VBool, VStr):
        if isinstance(a, T) and isinstance(b, T):
            return z3.is_true(z3.simplify(a.t == b.t))
    return False


def fresh_opt(E, name):
    if 'size' in name or 'concurrent' in name:
        return E.fresh_int(name)
    if 'timeout' in name:
        return E.fresh_real(name)
    return Obj('opt:' + name)


def t_options_forms(E):
    engine(E)
    mod = E.modules[MOD]
    E.cur_func = MOD + '.<decorators>'

    def body():
        E.builtins['__dict_literal__'] = lambda E_, pairs: Obj('PyDict', dict(pairs=list(pairs)))
        for d in DECOS:
            fn = mod.functions.get(d)
            if fn is None:
                raise Unsupported('%s no longer exists' % d)
            f = VFunc(fn, None, mod, MOD + '.' + d)
            E.cur_func = f.qualname
            opts = {p.arg: fresh_opt(E, p.arg) for p in fn.args.kwonlyargs}
            E.cover(f.qualname + '/requires')
            r = E.call(f, [NONE], dict(opts))
            ok = isinstance(r, VPartial) and r.func is not None and isinstance(r.func, VFunc) and r.func.node is fn \
                and not r.args
            E.oblige(f.qualname + '/ensures.options_form_returns_partial_of_itself', z3.BoolVal(bool(ok)),
                     detail='@deco(opt=...) must be partial(deco, ...)')
            if not ok:
                continue
            for p in fn.args.kwonlyargs:
                E.oblige('%s/ensures.partial_binds[%s]' % (f.qualname, p.arg),
                         z3.BoolVal(r.kwargs.get(p.arg) is opts[p.arg]), props=oprops(p.arg),
                         detail='every keyword-only parameter of the decorator must be re-bound with the value given')
            E.oblige(f.qualname + '/ensures.partial_binds_nothing_else',
                     z3.BoolVal(set(r.kwargs) <= set(opts)))
            # the options form with NO option given: whatever it binds must be the documented default itself (a
            # default replaced early, e.g. None by a fresh dict, is then shared by everything decorated with it)
            r0 = E.call(f, [NONE], {})
            ok0 = isinstance(r0, VPartial) and isinstance(r0.func, VFunc) and r0.func.node is fn and not r0.args
            E.oblige(f.qualname + '/ensures.options_form_without_options_returns_partial_of_itself', z3.BoolVal(bool(ok0)))
            if ok0:
                fr0 = Frame(None, mod, None, mod.name)
                for p, dflt in zip(fn.args.kwonlyargs, fn.args.kw_defaults):
                    if p.arg in r0.kwargs and dflt is not None:
                        E.oblige('%s/ensures.partial_binds_the_default_unchanged[%s]' % (f.qualname, p.arg),
                                 z3.BoolVal(bool(same_value(E, r0.kwargs[p.arg], E.eval(dflt, fr0)))),
                                 props=oprops(p.arg))
    E.run_paths(body)


def t_buffer_direct(E):
    """buffer_until_timeout(func, timeout=t) builds BufferAsyncCalls(func, timeout=t); __init__ stores them."""
    engine(E)
    mod = E.modules[MOD]
    fn = mod.functions.get('buffer_until_timeout')
    f = VFunc(fn, None, mod, MOD + '.buffer_until_timeout')
    E.cur_func = f.qualname
    E.inline.add(MOD + '.BufferAsyncCalls.__init__')

    def body():
        func = Obj('callable', tag='wrapped')
        t = E.fresh_real('timeout')
        E.cover(f.qualname + '/requires')
        E.canary(f.qualname + '/canary@entry')
        r = E.call(f, [func], dict(timeout=t))
        ci = mod.classes.get('BufferAsyncCalls')
        ok = isinstance(r, Obj) and r.cls is ci
        E.oblige(f.qualname + '/ensures.returns_a_BufferAsyncCalls', z3.BoolVal(ok))
        if not ok:
            return
        E.oblige(f.qualname + '/ensures.timeout_option_takes_effect', z3.BoolVal(r.fields.get('timeout') is t),
                 props={'C15', 'C08'})
        E.oblige(f.qualname + '/ensures.wraps_the_given_function', z3.BoolVal(r.fields.get('func') is func),
                 props={'C15', 'C03'})
        tasks = E.w.get('tasks_created', [])
        # exactly one background task per instance, running _waiter (C08: serial calls)
        coros = [x.fields['coro'] for x in tasks]
        one = len(tasks) == 1 and isinstance(coros[0], VCoro) and coros[0].func.qualname.endswith(
            'BufferAsyncCalls._waiter')
        E.oblige(MOD + '.BufferAsyncCalls.__init__/ensures.exactly_one_background_task_running__waiter',
                 z3.BoolVal(bool(one)), props={'C15', 'C08', 'C03', 'C07'})
        if one:
            E.oblige(MOD + '.BufferAsyncCalls.__init__/ensures.task_runs_on_the_instances_loop',
                     z3.BoolVal(tasks[0].fields['loop'] is r.fields.get('loop')), props={'C15', 'C08'})
        q = r.fields.get('q')
        E.oblige(MOD + '.BufferAsyncCalls.__init__/ensures.argument_queue_is_a_plain_unbounded_queue',
                 z3.BoolVal(isinstance(q, Obj) and q.cls == 'AQueue' and isinstance(q.fields.get('maxsize'), VInt)
                            and q.fields['maxsize'].concrete() == 0), props={'C03', 'C08', 'C07', 'C15'},
                 detail='_put() hands over with put_nowait from a loop callback: on a bounded queue a burst beyond the '
                        'bound raises QueueFull there and the argument is dropped')
        ev = r.fields.get('event')
        okev = isinstance(ev, Obj) and ev.cls == 'AEvent'
        E.oblige(MOD + '.BufferAsyncCalls.__init__/ensures.completion_flag_starts_set',
                 z3.Select(E.w['ev_set'], ev.fields['ident']) if okev else z3.BoolVal(False), props={'C07', 'C15'})
    E.run_paths(body)


def t_batcher_direct(E):
    """async_background_batcher(func, **opts): per-loop registry; constructor gets every option."""
    engine(E)
    mod = E.modules[MOD]
    fn = mod.functions.get('async_background_batcher')
    f = VFunc(fn, None, mod, MOD + '.async_background_batcher')
    E.cur_func = f.qualname
    W = f.qualname + '.<locals>._wrapper'
    st = {}

    class _BatcherSpec:
        """AsyncBackgroundBatcher(func, **kw): records what it is constructed with."""
        def apply(self, E_, args, kwargs, node=None):
            b = Obj('Batcher', dict(func=args[1] if len(args) > 1 else kwargs.get('func'), kw=dict(kwargs)))
            st.setdefault('created', []).append(b)
            return b

    def body():
        st.clear()
        E.specs[MOD + '.AsyncBackgroundBatcher'] = _BatcherSpec()
        func = Obj('callable', tag='batchfn')
        opts = {p.arg: fresh_opt(E, p.arg) for p in fn.args.kwonlyargs}
        Bn = E.builtins
        def attr_ext(E_, o, name, node):
            if o is func and name.startswith('__'):
                return E.fresh_val('meta')
            if isinstance(o, VVal) and o.t.sort() == LoopS and name in ('is_running', 'is_closed'):
                # a loop used successively (run_until_complete, then again later) is not running in between, e.g. while
                # ANOTHER loop calls the function; it is closed only when its owner is done with it for good
                if name == 'is_closed':
                    return VStub('loop.is_closed', lambda E_, a, k: VBool(False))
                return VStub('loop.is_running', lambda E_, a, k: VBool(
                    True if z3.eq(o.t, loops[cur['i']]) else E.fresh('other_loop_is_running_right_now', z3.BoolSort())))
            return None
        Bn['__getattr_ext__'] = attr_ext
        loops = [z3.Const('loopA', LoopS), z3.Const('loopB', LoopS)]
        E.assume(loops[0] != loops[1])
        cur = {'i': 0}
        ns = Bn[('import', 'asyncio')]
        ns.attrs['get_running_loop'] = VStub('asyncio.get_running_loop', lambda E_, a, k: VVal(loops[cur['i']]))
        reg = {}

        def getitem(E_, o, k, node):
            if isinstance(o, Obj) and o.cls == 'WeakKeyDict':
                st['registry'] = o
                for l, b in reg.items():
                    if isinstance(k, VVal) and z3.eq(k.t, l):
                        return b
                E.throw('KeyError')
            return None

        def setitem(E_, o, k, v, node):
            if isinstance(o, Obj) and o.cls == 'WeakKeyDict' and isinstance(k, VVal):
                reg[k.t] = v
                return
            raise Unsupported('subscript store', node)
        Bn['__getitem__'] = getitem
        Bn['__setitem__'] = setitem

        def delitem(E_, o, k, node):
            if isinstance(o, Obj) and o.cls == 'WeakKeyDict' and isinstance(k, VVal):
                for l in list(reg):
                    if z3.eq(k.t, l):
                        st.setdefault('dropped', []).append(reg.pop(l))
                        return
                E.throw('KeyError')
            raise Unsupported('del', node)
        Bn['__delitem__'] = delitem
        Bn['__iterate__'] = lambda E_, o, node: (VList([VVal(l) for l in reg]) if isinstance(o, Obj) and
                                                 o.cls == 'WeakKeyDict' else None)
        called = []

        def call_batcher(E_, fobj, args, kwargs, node):
            if isinstance(fobj, Obj) and fobj.cls == 'Batcher':
                called.append((fobj, args, kwargs))
                return aio.mk_awaitable('batcher_call', batcher=fobj)
            return None
        Bn['__call__'] = call_batcher
        aio.AWAIT['batcher_call'] = lambda E_, v, node: E.fresh_val('batcher_result')
        E.cover(f.qualname + '/requires')
        E.canary(f.qualname + '/canary@entry')
        w = E.call(f, [func], dict(opts))
        if not isinstance(w, VFunc):
            raise Unsupported('direct form does not return a function defined in it')
        E.cur_func = w.qualname
        arg, key = E.fresh_val('arg'), E.fresh_str('key')
        # loop A twice, loop B once, loop A again: A,A,B,A
        seq = [0, 0, 1, 0]
        used = []
        for i in seq:
            cur['i'] = i
            E.await_(E.call(w, [arg], dict(key=key)), None)
            used.append(called[-1][0])
        created = st.get('created', [])
        E.oblige(W + '/ensures.one_batcher_per_loop_created_iff_absent', z3.BoolVal(len(created) == 2))
        E.oblige(W + '/ensures.same_loop_reuses_its_batcher',
                 z3.BoolVal(len(used) == 4 and used[0] is used[1] and used[0] is used[3]))
        E.oblige(W + '/ensures.different_loops_get_independent_batchers',
                 z3.BoolVal(len(used) == 4 and used[2] is not used[0]))
        E.oblige(W + '/ensures.registry_is_weak_keyed_by_the_running_loop',
                 z3.BoolVal(st.get('registry') is not None and len(reg) == 2))
        for b in created:
            E.oblige(W + '/ensures.batcher_wraps_the_decorated_function', z3.BoolVal(b.fields['func'] is func),
                     props={'C15', 'C04'})
            for p in fn.args.kwonlyargs:
                E.oblige('%s/ensures.option_reaches_the_batcher[%s]' % (W, p.arg),
                         z3.BoolVal(b.fields['kw'].get(p.arg) is opts[p.arg]), props=oprops(p.arg),
                         detail='AsyncBackgroundBatcher(...) must be constructed with the decorator parameter of the same name')
        for (b, a, k) in called:
            E.oblige(W + '/ensures.forwards_argument_and_key', z3.BoolVal(len(a) == 1 and a[0] is arg and
                                                                          k.get('key') is key), props={'C15', 'C04', 'C11'})
    E.run_paths(body)


def t_batcher_init(E):
    """AsyncBackgroundBatcher.__init__ stores every option where the other contracts read it."""
    engine(E)
    mod = E.modules[MOD]
    ci = mod.classes.get('AsyncBackgroundBatcher')
    if ci is None:
        raise Unsupported('AsyncBackgroundBatcher no longer exists')
    c, m = ci.find('__init__')
    f = VFunc(m, None, mod, MOD + '.AsyncBackgroundBatcher.__init__', cls=ci)
    E.cur_func = f.qualname
    E.inline.add(MOD + '.AsyncBackgroundBatcher._daemon_task')

    def body():
        o = Obj(ci)
        func = Obj('callable', tag='batchfn')
        mbs, mcb = E.fresh_int('max_batch_size'), E.fresh_int('max_concurrent_batches')
        bt, rt = E.fresh_real('batch_timeout'), E.fresh_real('retention_timeout')
        E.cover(f.qualname + '/requires')
        E.canary(f.qualname + '/canary@entry')
        E.run_function(f, [o, func], dict(max_batch_size=mbs, max_concurrent_batches=mcb, batch_timeout=bt,
                                          retention_timeout=rt))
        F = o.fields
        E.oblige(f.qualname + '/ensures.func_stored', z3.BoolVal(F.get('func') is func), props={'C15', 'C04'})
        E.oblige(f.qualname + '/ensures.max_batch_size_stored', z3.BoolVal(F.get('max_batch_size') is mbs),
                 props={'C15', 'C10'})
        E.oblige(f.qualname + '/ensures.batch_timeout_stored', z3.BoolVal(F.get('batch_timeout') is bt),
                 props={'C15', 'C10'})
        E.oblige(f.qualname + '/ensures.retention_timeout_stored', z3.BoolVal(F.get('retention_timeout') is rt),
                 props={'C15', 'C11'})
        sem = F.get('_semaphore')
        E.oblige(f.qualname + '/ensures.semaphore_has_max_concurrent_batches_permits',
                 z3.BoolVal(isinstance(sem, Obj) and sem.cls == 'ASemaphore' and sem.fields['value'] is mcb),
                 props={'C15', 'C10'})
        q = F.get('_queue')
        E.oblige(f.qualname + '/ensures.queue_is_a_plain_unbounded_FIFO_queue',
                 z3.BoolVal(isinstance(q, Obj) and q.cls == 'AQueue' and isinstance(q.fields['maxsize'], VInt)
                            and q.fields['maxsize'].concrete() == 0), props={'C10', 'C09', 'C11', 'C04'},
                 detail='__call__ registers the key and only then puts: a put that can block (bounded queue) or reorder '
                        'breaks the accounting of every caller')
        rc = F.get('_retention_cache')
        E.oblige(f.qualname + '/ensures.retention_cache_starts_empty', z3.BoolVal(isinstance(rc, Obj) and rc.cls == 'PyDict'),
                 props={'C11'})
        tasks = E.w.get('tasks_created', [])
        one = len(tasks) == 1 and isinstance(tasks[0].fields['coro'], VCoro) and \
            tasks[0].fields['coro'].func.qualname.endswith('._processing_loop')
        E.oblige(f.qualname + '/ensures.exactly_one_processing_loop_task', z3.BoolVal(bool(one)), props={'C10', 'C15', 'C04'})
        E.oblige(f.qualname + '/ensures.bound_to_the_running_loop',
                 z3.BoolVal(isinstance(F.get('_loop'), VVal) and str(F['_loop'].t) == 'running_loop'),
                 props={'C15'})
    E.builtins['__dict_literal__'] = lambda E_, pairs: Obj('PyDict', dict(pairs=list(pairs)))
    E.run_paths(body)


TASKS = {
    'decorators.options_forms': (t_options_forms, {'C15', 'C08', 'C10', 'C11', 'C14'}),
    'decorators.buffer_direct': (t_buffer_direct, {'C15', 'C08', 'C07', 'C03'}),
    'decorators.batcher_direct': (t_batcher_direct, {'C15', 'C10', 'C11', 'C04'}),
    'decorators.batcher_init': (t_batcher_init, {'C15', 'C10', 'C11', 'C04', 'C09'}),
}
