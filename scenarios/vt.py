"""
Virtual-time event loop used by witness scenarios and the bounded stand-in.

Runs under /venv/bin/python (CPython 3.12, the interpreter the repository is
installed in).  ``time()`` is a counter.  It jumps to the next timer only when
nothing is ready AND no hand-off from another thread is outstanding
(``run_in_executor`` futures, ``call_soon_threadsafe`` callbacks), so outcomes do
not depend on machine load.
"""
import asyncio
import heapq
import selectors
import threading


class _Sel(selectors.DefaultSelector):
    """Selector that never sleeps on the wall clock for timers."""

    def __init__(self, loop):
        super().__init__()
        self._vt_loop = loop

    def select(self, timeout=None):
        loop = self._vt_loop
        if timeout is None or timeout > 0:
            # nothing ready: either wait for a foreign hand-off, or jump time
            if loop._vt_outstanding() or loop._vt_hold > 0:
                # block (really) until a foreign thread wakes us, bounded
                return super().select(0.05)
            if timeout is None:
                # no timers, nothing outstanding: idle forever -> deadlock guard
                loop._vt_idle_rounds += 1
                if loop._vt_idle_rounds > loop.vt_idle_limit:
                    raise VirtualDeadlock("loop idle with no timers and no hand-offs")
                return super().select(0.01)
            loop._vt_idle_rounds = 0
            loop._vt_now += timeout
            return super().select(0)
        return super().select(0)


class VirtualDeadlock(RuntimeError):
    pass


class VTLoop(asyncio.SelectorEventLoop):
    vt_idle_limit = 200

    def __init__(self):
        self._vt_now = 0.0
        self._vt_exec = 0          # outstanding run_in_executor futures
        self._vt_hold = 0          # explicit holds (scenario drivers)
        self._vt_idle_rounds = 0
        self._vt_lock = threading.Lock()
        super().__init__(_Sel(self))

    def time(self):
        return self._vt_now

    def _vt_outstanding(self):
        with self._vt_lock:
            return self._vt_exec > 0

    def run_in_executor(self, executor, func, *args):
        with self._vt_lock:
            self._vt_exec += 1

        fut = super().run_in_executor(executor, func, *args)

        def _done(_):
            with self._vt_lock:
                self._vt_exec -= 1

        fut.add_done_callback(_done)
        return fut

    def hold(self):
        with self._vt_lock:
            self._vt_hold += 1

    def unhold(self):
        with self._vt_lock:
            self._vt_hold -= 1
        try:
            self._write_to_self()
        except Exception:
            pass


def new_loop():
    return VTLoop()


def run(coro, *, loop=None, shutdown=True):
    """asyncio.run() equivalent on a VTLoop (same shutdown: cancel leftovers)."""
    own = loop is None
    if own:
        loop = VTLoop()
    asyncio.set_event_loop(loop)
    try:
        return loop.run_until_complete(coro)
    finally:
        if shutdown:
            try:
                _cancel_all(loop)
                loop.run_until_complete(loop.shutdown_asyncgens())
            finally:
                asyncio.set_event_loop(None)
                if own:
                    loop.close()


def _cancel_all(loop):
    to_cancel = asyncio.all_tasks(loop)
    if not to_cancel:
        return
    for t in to_cancel:
        t.cancel()
    loop.run_until_complete(asyncio.gather(*to_cancel, return_exceptions=True))
