"""
Witness scenario of the KNOWN FINDING D8 (C17): a second ensure_aw caller that finds the target loop
`is_running()` only because another caller's run_until_complete is still in progress submits its
awaitable with run_coroutine_threadsafe; the loop stops before running it and the second caller hangs.

Deterministic: caller 1's awaitable parks on a threading.Event inside the target loop until caller 2 has
passed its is_running() check (we wrap the target loop's is_running).  exit 1 = finding reproduced
(caller 2 did not complete within the bound although its awaitable is trivial), 0 = not reproduced.
"""
import asyncio as aio
import os
import sys
import threading
import time

from aiuti.asyncio import ensure_aw


def main():
    target = aio.new_event_loop()
    seen_running = threading.Event()
    real_is_running = target.is_running

    def is_running():
        r = real_is_running()
        if r and threading.current_thread().name == 'caller2':
            # caller 2 is pre-empted right after the check: caller 1's awaitable finishes and its
            # run_until_complete returns before caller 2 submits (a source-line interleaving)
            seen_running.set()
            t0 = time.time()
            while real_is_running() and time.time() - t0 < 10:
                time.sleep(0.001)
        return r
    target.is_running = is_running
    started1 = threading.Event()
    res = {}

    async def aw1():
        started1.set()
        # keep the target loop running (inside caller 1's run_until_complete) until caller 2 has seen it
        await aio.get_running_loop().run_in_executor(None, seen_running.wait, 10)
        return 'one'

    async def aw2():
        return 'two'

    def caller(name, aw_factory, pre=None):
        def run():
            async def m():
                if pre:
                    pre()
                return await aio.wait_for(ensure_aw(aw_factory(), target), 5)
            try:
                res[name] = aio.run(m())
            except BaseException as e:  # noqa
                res[name] = repr(e)
        t = threading.Thread(target=run, name=name, daemon=True)
        t.start()
        return t
    t1 = caller('caller1', aw1)
    if not started1.wait(10):
        print('harness: caller 1 did not start')
        return 3
    t2 = caller('caller2', aw2)
    t1.join(20)
    t2.join(20)
    print('outcomes:', res)
    if res.get('caller2') != 'two':
        print('D8 reproduced: second caller did not complete: %r' % (res.get('caller2'),))
        return 1
    return 0


if __name__ == '__main__':
    rc = main()
    sys.stdout.flush()
    os._exit(rc)
