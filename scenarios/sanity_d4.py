import asyncio, logging, time
from scenarios import vt as vt_helper
from aiuti.asyncio import BufferAsyncCalls, buffer_until_timeout
logging.disable(logging.CRITICAL)

# 1. wait(cancel=True) flushes immediately; wait(cancel=False) waits for timeout
for cancel in (True, False):
    loop = vt_helper.new_loop(); asyncio.set_event_loop(loop)
    got = []
    async def f(s): got.append(set(s))
    buf = BufferAsyncCalls(f, timeout=100)
    async def main():
        buf(1); buf.map([2, 3])
        await buf.wait(cancel=cancel)
    vt_helper.run(main(), loop=loop)
    print(f"wait(cancel={cancel}): calls={got} vt={loop.time():.1f} waiting_done={buf._waiting.done()}")
    loop.close()

# 2. failing func keeps inputs and retries; flush twice in a row works
loop = vt_helper.new_loop(); asyncio.set_event_loop(loop)
got = []; n = [0]
async def g(s):
    n[0] += 1
    if n[0] == 1: raise ValueError("boom")
    got.append(set(s))
buf = BufferAsyncCalls(g, timeout=5)
async def main2():
    buf(1); await buf.wait()
    t1 = loop.time()
    buf(2); await buf.wait()
    print(f"retry: attempts={n[0]} calls={got} vt_first={t1:.1f} vt_second={loop.time():.1f}")
vt_helper.run(main2(), loop=loop); loop.close()

# 3. real asyncio.run with a pending item returns (wall clock)
got = []
async def main3():
    @buffer_until_timeout(timeout=30)
    async def h(s): got.append(set(s))
    h(1)
    await asyncio.sleep(0.05)
t0 = time.monotonic(); asyncio.run(main3())
print(f"asyncio.run with pending item returned in {time.monotonic()-t0:.2f}s calls={got}")

# 4. same, but shutdown while func is running
async def main4():
    @buffer_until_timeout(timeout=0.01)
    async def h(s): await asyncio.sleep(3600)
    h(1)
    await asyncio.sleep(0.1)
t0 = time.monotonic(); asyncio.run(main4())
print(f"asyncio.run while func running returned in {time.monotonic()-t0:.2f}s")
