"""Bounded stand-in for C14 (cache keys: same arguments share, different arguments never do; a
caller-supplied mapping is the only store) on the real code. Everything runs on ONE long-lived
virtual-time event loop (scenarios.vt), sequentially: the quantifier is over inputs and cache
configurations, not schedules.

Oracle (from the property statement). Two calls "have the same key" iff their positional
arguments are pairwise == in order and their keyword arguments are the same set of name/value
pairs (names equal, values ==), whatever the keyword order and whatever the identity of the
objects. The wrapped function returns a record of the very argument objects it was invoked with:
  * SHARE     - a call whose key equals an earlier (still stored) one causes no invocation and
                returns that earlier record;
  * SEPARATE  - a call with a new key causes exactly one invocation, with exactly its own
                argument objects, and gets that record (never another key's);
  * STORE     - with a caller-supplied mapping: the returned record is held by the mapping, the
                mapping holds exactly the entries of the model, evicting an entry (any way the
                mapping allows) causes exactly one recomputation on the next call and the newly
                computed record is returned.

BOUNDED domain:
  K1 partition : one cached function per pass, called with every signature of
                 positional tuples (length 0..3) x keyword dicts (0..3 of the names a, b, c, every
                 insertion order) over small value domains containing 1 / 1.0 / True (equal,
                 hash-equal, distinct), 2, runtime-built tuples ('a', 1), ('b', 2) (which look like
                 keyword items) and runtime-built strings; every signature is called twice; passes
                 in forward / reverse / shuffled(seed 0) order; default dict, an EMPTY (falsy)
                 non-dict mapping, a huge LRU; function suspending or not. All pairs of signatures
                 are judged at once through the partition they induce.
  K2 pairs     : fresh function per unordered pair of signatures from a smaller domain
                 (positional length 0..2, keywords a, b), calls s1 s2 s1 s2.
  K3 eviction  : every sequence of <= 5 (thorough 6) operations from {call key 0..2, evict entry
                 0..2, clear()} on dict / empty falsy mapping, function suspending or not, no loop
                 iteration between the operations.
  K4 LRU       : every call sequence of length <= 6 (thorough 7) over 4 keys on LRU-like mappings of
                 capacity 1..3 (own MutableMapping and lru.LRU when installed), against an LRU model.
"""
import asyncio as aio
import itertools
import random
import time
from collections import OrderedDict
from collections.abc import MutableMapping

from scenarios import vt
from aiuti.asyncio import threadsafe_async_cache

try:
    from lru import LRU as _LRU
except Exception:  # pragma: no cover
    _LRU = None


class HarnessError(Exception):
    pass


# ------------------------------------------------------------------ value domains
# (label, equality class, factory producing a fresh object where the type allows)
V_ONE = ('1', 'one', lambda: int('1'))
V_FLOAT = ('1.0', 'one', lambda: float('1'))
V_TRUE = ('True', 'one', lambda: bool(1))
V_TWO = ('2', 'two', lambda: int('2'))
V_TA1 = ("('a', 1)", 'ta1', lambda: tuple(['a', 1]))
V_TA1B = ("('a', True)", 'ta1', lambda: tuple(['a', True]))
V_TB2 = ("('b', 2)", 'tb2', lambda: tuple(['b', 2]))
V_STR = ("'ab'", 'ab', lambda: ''.join(['a', 'b']))
V_STR2 = ("'a'", 'a', lambda: 'ab'[:1])
V_NONE = ('None', 'none', lambda: None)
V_T12 = ('(1, 2)', 't12', lambda: tuple([1, 2]))
V_T12F = ('(1.0, 2)', 't12', lambda: tuple([1.0, 2]))
ALL_VALUES = [V_ONE, V_FLOAT, V_TRUE, V_TWO, V_TA1, V_TA1B, V_TB2, V_STR, V_STR2, V_NONE, V_T12, V_T12F]


def _selfcheck_domain():
    for a in ALL_VALUES:
        for b in ALL_VALUES:
            x, y = a[2](), b[2]()
            if (x == y) != (a[1] == b[1]) or ((x == y) and hash(x) != hash(y)):
                raise HarnessError('value domain classes inconsistent with ==: %s vs %s' % (a[0], b[0]))


class Sig:
    """a call signature: positional value specs + keyword (name, value spec) in insertion order"""
    __slots__ = ('pos', 'kw', 'mkey')

    def __init__(self, pos, kw):
        self.pos = tuple(pos)
        self.kw = tuple(kw)
        # model key: by the property's definition of equality, independent of how the
        # implementation builds its key
        self.mkey = (tuple(v[1] for v in self.pos), tuple(sorted((n, v[1]) for n, v in self.kw)))

    def build(self):
        args = tuple(v[2]() for v in self.pos)
        kwargs = {}
        for n, v in self.kw:
            kwargs[n] = v[2]()
        return args, kwargs

    def __repr__(self):
        parts = [v[0] for v in self.pos] + ['%s=%s' % (n, v[0]) for n, v in self.kw]
        return 'f(%s)' % ', '.join(parts)


def pos_tuples(values, maxlen, values_long=None, long_from=3):
    out = []
    for n in range(maxlen + 1):
        dom = values if (values_long is None or n < long_from) else values_long
        out.extend(itertools.product(dom, repeat=n))
    return out


def kw_dicts(names, values, maxn):
    out = []
    for n in range(maxn + 1):
        for subset in itertools.combinations(names, n):
            for order in itertools.permutations(subset):
                for vals in itertools.product(values, repeat=n):
                    out.append(tuple(zip(order, vals)))
    return out


class Rec:
    """what one invocation of the wrapped function saw"""
    __slots__ = ('n', 'args', 'kwargs')

    def __init__(self, n, args, kwargs):
        self.n, self.args, self.kwargs = n, args, kwargs

    def __repr__(self):
        return '<invocation #%d args=%r kwargs=%r>' % (self.n, self.args, self.kwargs)


# ------------------------------------------------------------------ mappings
class EmptyFalsy(MutableMapping):
    """a MutableMapping that is not a dict; bool(EmptyFalsy()) is False while it is empty"""

    def __init__(self):
        self.d = {}

    def __getitem__(self, k):
        return self.d[k]

    def __setitem__(self, k, v):
        self.d[k] = v

    def __delitem__(self, k):
        del self.d[k]

    def __iter__(self):
        return iter(self.d)

    def __len__(self):
        return len(self.d)


class SmallLRU(MutableMapping):
    """LRU-like bounded mapping: a successful lookup refreshes, a store evicts the oldest"""

    def __init__(self, cap):
        self.cap = cap
        self.d = OrderedDict()

    def __getitem__(self, k):
        v = self.d[k]
        self.d.move_to_end(k)
        return v

    def __setitem__(self, k, v):
        self.d[k] = v
        self.d.move_to_end(k)
        while len(self.d) > self.cap:
            self.d.popitem(last=False)

    def __delitem__(self, k):
        del self.d[k]

    def __iter__(self):
        return iter(list(self.d))

    def __len__(self):
        return len(self.d)


def make_cache(kind):
    if kind == 'default':
        return None
    if kind == 'dict':
        return {}
    if kind == 'empty-falsy-mapping':
        return EmptyFalsy()
    if kind == 'huge-lru':
        return SmallLRU(10 ** 9)
    if kind.startswith('own-lru'):
        return SmallLRU(int(kind[-1]))
    if kind.startswith('lru.LRU'):
        return _LRU(int(kind[-1]))
    raise HarnessError(kind)


def make_func(cache, suspend):
    invs = []

    async def fn(*args, **kwargs):
        r = Rec(len(invs), args, kwargs)
        invs.append(r)
        if suspend:
            await aio.sleep(0)
        return r
    f = threadsafe_async_cache(fn) if cache is None else threadsafe_async_cache(fn, cache=cache)
    return f, invs


async def _call(f, args, kwargs):
    """-> ('ok', value) | ('raised', exc). The wrapped function never raises: an exception
    can only come from the cache itself."""
    try:
        return 'ok', await aio.wait_for(f(*args, **kwargs), 1000)
    except Exception as e:  # noqa
        return 'raised', e


def _same_objects(rec, args, kwargs):
    return (len(rec.args) == len(args) and all(x is y for x, y in zip(rec.args, args))
            and set(rec.kwargs) == set(kwargs) and all(rec.kwargs[n] is kwargs[n] for n in kwargs))


async def checked_call(f, invs, model, sig, where):
    """call f with sig; model: mkey -> Rec currently stored. Returns problem text or None.
    Updates the model on a miss."""
    args, kwargs = sig.build()
    n0 = len(invs)
    st, r = await _call(f, args, kwargs)
    if st != 'ok':
        return '%s: %r raised %s: %r (the wrapped function never raises)' % (where, sig, type(r).__name__, r)
    new = invs[n0:]
    if sig.mkey in model:
        exp = model[sig.mkey]
        if new:
            return ('%s: SHARE violated: %r has the same key as the stored %r but the wrapped function was '
                    'invoked again (%r)' % (where, sig, exp, new))
        if r is not exp:
            return ('%s: SHARE violated: %r returned %r, expected the record stored for its key %r'
                    % (where, sig, r, exp))
        return None
    if len(new) != 1:
        hint = ''
        if not new and isinstance(r, Rec):
            hint = ' and got %r which was computed for other arguments / an evicted entry' % (r,)
        return ('%s: SEPARATE violated: %r has a key that is not stored (model keys: %d) so exactly one '
                'invocation is due, saw %d%s' % (where, sig, len(model), len(new), hint))
    if r is not new[0] or not _same_objects(r, args, kwargs):
        return ('%s: SEPARATE violated: %r returned %r, its own invocation was %r'
                % (where, sig, r, new[0]))
    model[sig.mkey] = r
    return None


# ------------------------------------------------------------------ K1 / K2
async def partition_pass(sigs, order_name, cache_kind, suspend):
    cache = make_cache(cache_kind)
    f, invs = make_func(cache, suspend)
    model = {}
    if order_name == 'forward':
        seq = list(sigs)
    elif order_name == 'reverse':
        seq = list(sigs)[::-1]
    else:
        seq = list(sigs)
        random.Random(0).shuffle(seq)
    where = 'K1 order=%s cache=%s suspend=%r' % (order_name, cache_kind, suspend)
    calls = 0
    for phase in (seq, seq[::-1]):
        for sig in phase:
            calls += 1
            p = await checked_call(f, invs, model, sig, where)
            if p:
                return p, calls
    if len(invs) != len(model):
        return '%s: %d invocations for %d distinct keys' % (where, len(invs), len(model)), calls
    if cache is not None and len(cache) != len(model):
        return ('%s: STORE violated: caller-supplied mapping holds %d entries, %d distinct keys were computed'
                % (where, len(cache), len(model))), calls
    return None, calls


async def pair_check(s1, s2, cache_kind, suspend):
    cache = make_cache(cache_kind)
    f, invs = make_func(cache, suspend)
    model = {}
    where = 'K2 pair (%r, %r) cache=%s' % (s1, s2, cache_kind)
    for sig in (s1, s2, s1, s2):
        p = await checked_call(f, invs, model, sig, where)
        if p:
            return p
    exp = 1 if s1.mkey == s2.mkey else 2
    if len(invs) != exp:
        return '%s: %d invocations, expected %d' % (where, len(invs), exp)
    return None


# ------------------------------------------------------------------ K3
K3_SIGS = [Sig([V_ONE], []), Sig([V_TWO], []), Sig([], [('a', V_ONE)])]


def _keys_of(cache):
    return list(cache.keys())


async def eviction_seq(ops, cache_kind, suspend):
    cache = make_cache(cache_kind)
    f, invs = make_func(cache, suspend)
    model = {}
    keyof = {}   # sig index -> key object under which the mapping stored it
    where = 'K3 ops=%r cache=%s suspend=%r' % (ops, cache_kind, suspend)
    for op in ops:
        if op[0] == 'call':
            sig = K3_SIGS[op[1]]
            before = _keys_of(cache)
            missing = sig.mkey not in model
            p = await checked_call(f, invs, model, sig, where)
            if p:
                return p
            after = _keys_of(cache)
            if missing:
                added = [k for k in after if not any(k == b for b in before)]
                if len(added) != 1:
                    return ('%s: STORE violated: computing %r added %d entries to the caller-supplied mapping '
                            '(before %d, after %d entries)' % (where, sig, len(added), len(before), len(after)))
                keyof[op[1]] = added[0]
            if len(after) != len(model):
                return ('%s: STORE violated: mapping holds %d entries, model %d' % (where, len(after), len(model)))
            if not any(v is model[sig.mkey] for v in cache.values()):
                return '%s: STORE violated: the record returned for %r is not held by the mapping' % (where, sig)
        elif op[0] == 'evict':
            del cache[keyof.pop(op[1])]
            del model[K3_SIGS[op[1]].mkey]
        else:
            cache.clear()
            model.clear()
            keyof.clear()
    return None


def eviction_ops(maxlen):
    """all op sequences enabled w.r.t. the model (evict only what is stored)"""
    out = []

    def rec(seq, present):
        if seq:
            out.append(tuple(seq))
        if len(seq) >= maxlen:
            return
        for i in range(len(K3_SIGS)):
            rec(seq + [('call', i)], present | {i})
        for i in sorted(present):
            rec(seq + [('evict', i)], present - {i})
        if present:
            rec(seq + [('clear',)], frozenset())
    rec([], frozenset())
    # sequences must end with a call to observe anything new
    return [s for s in out if s[-1][0] == 'call']


# ------------------------------------------------------------------ K4
K4_SIGS = [Sig([V_ONE], []), Sig([V_TWO], []), Sig([V_ONE], [('a', V_TWO)]), Sig([], [('a', V_ONE), ('b', V_TWO)])]
K4_ALT = [Sig([V_TRUE], []), Sig([V_TWO], []), Sig([V_FLOAT], [('a', V_TWO)]), Sig([], [('b', V_TWO), ('a', V_TRUE)])]


async def lru_seq(seq, cache_kind, cap, suspend):
    cache = make_cache(cache_kind)
    f, invs = make_func(cache, suspend)
    lru = OrderedDict()   # model: mkey -> Rec, oldest first
    where = 'K4 calls=%r cache=%s suspend=%r' % (seq, cache_kind, suspend)
    for step, i in enumerate(seq):
        sig = (K4_SIGS if step % 2 == 0 else K4_ALT)[i]   # equal-but-distinct spellings alternate
        model = dict(lru)
        p = await checked_call(f, invs, model, sig, where)
        if p:
            return p
        if sig.mkey in lru:
            lru.move_to_end(sig.mkey)
        else:
            lru[sig.mkey] = model[sig.mkey]
            while len(lru) > cap:
                lru.popitem(last=False)
        if len(cache) != len(lru):
            return '%s: STORE violated: mapping holds %d entries, LRU model %d' % (where, len(cache), len(lru))
    return None


# ------------------------------------------------------------------ driver
async def run_all(thorough, counts):
    # ---- K1
    if thorough:
        pv = [V_ONE, V_FLOAT, V_TRUE, V_TWO, V_TA1, V_TB2, V_STR, V_NONE, V_T12, V_T12F, V_TA1B]
        pv3 = [V_ONE, V_FLOAT, V_TA1, V_TB2, V_TWO]
        kv = [V_ONE, V_TRUE, V_TWO, V_T12]
    else:
        pv = [V_ONE, V_FLOAT, V_TRUE, V_TWO, V_TA1, V_TB2, V_STR]
        pv3 = [V_ONE, V_FLOAT, V_TA1]
        kv = [V_ONE, V_TRUE, V_TWO]
    P = pos_tuples(pv, 3, pv3)
    K = kw_dicts('abc', kv, 3)
    sigs = [Sig(p, k) for p in P for k in K]
    counts['K1 signatures'] = len(sigs)
    passes = [('forward', 'default', False), ('reverse', 'empty-falsy-mapping', False), ('shuffled', 'huge-lru', True)]
    if thorough:
        passes += [('shuffled', 'default', True), ('forward', 'huge-lru', False), ('reverse', 'dict', True),
                   ('shuffled', 'empty-falsy-mapping', False)]
    for order_name, ck, susp in passes:
        p, calls = await partition_pass(sigs, order_name, ck, susp)
        counts['K1 calls'] = counts.get('K1 calls', 0) + calls
        if p:
            return p

    # ---- K2
    P2 = pos_tuples([V_ONE, V_TRUE, V_TA1, V_TWO] + ([V_TB2, V_FLOAT] if thorough else []), 2)
    K2 = kw_dicts('ab', [V_ONE, V_TWO], 2)
    small = [Sig(p, k) for p in P2 for k in K2]
    counts['K2 signatures'] = len(small)
    for i, s1 in enumerate(small):
        for s2 in small[i:]:
            p = await pair_check(s1, s2, 'default' if (i % 2 == 0) else 'empty-falsy-mapping', False)
            counts['K2 pairs'] = counts.get('K2 pairs', 0) + 1
            if p:
                return p

    # ---- K3
    ops = eviction_ops(6 if thorough else 5)
    for ck in ('dict', 'empty-falsy-mapping'):
        for susp in (False, True):
            for seq in ops:
                p = await eviction_seq(seq, ck, susp)
                counts['K3 sequences'] = counts.get('K3 sequences', 0) + 1
                if p:
                    return p

    # ---- K4
    kinds = ['own-lru'] + (['lru.LRU'] if _LRU is not None else [])
    counts['K4 lru.LRU available'] = int(_LRU is not None)
    for n in range(1, (7 if thorough else 6) + 1):
        for seq in itertools.product(range(4), repeat=n):
            if seq[0] != 0:      # symmetric in the key names
                continue
            for cap in (1, 2, 3):
                for kind in kinds:
                    for susp in ((False, True) if (thorough or n <= 5) else (False,)):
                        p = await lru_seq(seq, '%s-%d' % (kind, cap), cap, susp)
                        counts['K4 sequences'] = counts.get('K4 sequences', 0) + 1
                        if p:
                            return p
    return None


def main(thorough):
    t0 = time.time()
    _selfcheck_domain()
    counts = {}
    prob = vt.run(run_all(thorough, counts))
    runs = (counts.get('K1 calls', 0) + counts.get('K2 pairs', 0) + counts.get('K3 sequences', 0)
            + counts.get('K4 sequences', 0))
    print('C14 stand-in: %d scenario runs %r in %.1fs (bounded: positional tuples of length 0..3, keyword dicts '
          'of 0..3 names in every insertion order, value domain with 1/1.0/True and runtime-built tuples/strings; '
          'eviction sequences <=%d ops on 3 keys; LRU call sequences <=%d over 4 keys, capacity 1..3)'
          % (runs, counts, time.time() - t0, 6 if thorough else 5, 7 if thorough else 6))
    if prob:
        print('PROBLEM:', prob[:3000])
    return 1 if prob else 0
