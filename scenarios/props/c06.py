"""Bounded stand-in for C06 (cache callers see only their own outcome; failures and cancels are
not shared) on the real code.

Oracle (from the property statement; _cache_common.Harness):
  * WRONG VALUE          - a returned value is not the result of a successful invocation for the
                           caller's key;
  * FOREIGN EXCEPTION    - a caller got a harness exception raised by an invocation that another
                           caller performed;
  * BOOKKEEPING EXCEPTION- a caller ended with any exception no invocation raised (KeyError,
                           RuntimeError('Event loop is closed'), InvalidStateError, a timeout it
                           did not ask for ...);
  * FOREIGN CANCEL       - a caller ended with CancelledError although the harness never cancelled
                           its task (directly or by shutting down ITS loop);
  * PROBE                - after the history a fresh caller must get a value, and if no invocation
                           ever succeeded it must cause exactly one new invocation (failed /
                           cancelled computations cache nothing);
  * LATE / HANG / SLOW   - a caller nobody disturbed is still pending at a quiescent point (virtual
                           time about to move) although nothing is computing for its key and no
                           computation was lost with a stopped loop, i.e. it was delayed beyond a
                           recomputation.

BOUNDED domain (deterministic: director-serialised threads, shared virtual clock):
  H1 histories : every enabled sequence of <= 4 (thorough 5) events from {call X, call X with a
                 30 s timeout, stop X, drain X (shutdown cancelling leftovers, also proxy waits of
                 other loops), close X, computation returns / raises, cancel caller i, 61 s pass},
                 3 loops, 3 callers, 1 (thorough 2) priority schedules; length 5 (6) without tcall/close.
  H2 restarts  : same with {restart X} (a stopped loop hosting the computation and waiters runs
                 again and its computing caller is cancelled / finishes), length <= 5 (thorough 6).
  H3 faults    : every subset of the first invocations failing (plans r, xr, xxr), cancel / timeout
                 of the computing caller or a waiter at instants on a 0.5 s grid, waiters on the
                 same / other loops, single callers; probe afterwards.
  H4 windows   : loop B's call is advanced source point by source point (cache probe, lock, marker
                 lookup, run_coro_ts submission, waiter creation ...); at EVERY such point one of
                 {A stops, A stops+closes, A is shut down asyncio.run style and closed, the
                 computing caller is cancelled, B's caller is cancelled, the computation returns,
                 raises} happens on the computing loop A (with and without a same-loop waiter).
  H5 source    : 2 threads calling at once, first invocation raising, every interleaving of the
                 instrumented points with <= 2 (thorough 3) preemptions.
"""
import time

from scenarios.props import _cache_common as cc
from scenarios.props._cache_common import (
    Harness, HookedDict, PrioChooser, enumerate_histories, explore, finish_all, run_scenario)
from scenarios.props.c05 import caller_faults

NAMES = 'ABCD'
FINE = ('get', 'set', 'lock', 'rcts')
C06_KINDS = {'WRONG VALUE', 'FOREIGN EXCEPTION', 'BOOKKEEPING EXCEPTION', 'FOREIGN CANCEL', 'PROBE',
             'LATE', 'HANG', 'SLOW'}

ACTIONS = ('stopA', 'closeA', 'shutdownA', 'cancel_computing', 'cancel_B', 'ret', 'raise')


def window(k, action, with_waiter, b_timeout):
    """returns a scenario; sc.exhausted is set when B had fewer than k segments to run"""
    info = {}

    def sc(w):
        A, B = w.thread('A'), w.thread('B')
        h = Harness(w, [('gate', 'ret')], cache=HookedDict(), check_overlap=False, check_once=False)
        w.log('H4 k=%d action=%s same-loop waiter=%r B timeout=%r' % (k, action, with_waiter, b_timeout))
        w.start(A)
        w.start(B)
        c0 = h.call(A, 1)
        while w.step_thread(A):
            pass
        if with_waiter:
            h.call(A, 1)
            while w.step_thread(A):
                pass
        cb = h.call(B, 1, timeout=b_timeout)
        ran = 0
        for _ in range(k):
            if not w.step_thread(B):
                break
            ran += 1
        info['exhausted'] = ran < k
        info['at'] = B.state
        w.log('B advanced %d segments, now at %s' % (ran, B.state))
        # loop A is between two iterations (it never ran since): life-cycle events are legal
        if action in ('stopA', 'closeA', 'shutdownA'):
            w.stop(A)
            if action == 'closeA':
                w.close_loop(A)
            elif action == 'shutdownA':
                # asyncio.run style; B keeps interleaving while A drains
                h.shutdown(A, close=True)
        elif action == 'cancel_computing':
            h.cancel(c0)
        elif action == 'cancel_B':
            h.cancel(cb)
        else:
            h.release(h.invs[0], action)
        finish_all(w, h)
    sc.info = info
    return sc


def run(thorough):
    probs = []
    counts = {}
    orders = ([], [2, 1, 0])

    def both(sc, key):
        for order in orders:
            if probs:
                return
            probs.extend(run_scenario(sc, PrioChooser(order)))
            counts[key] = counts.get(key, 0) + 1

    # ---- H1 / H2
    full = {'call', 'tcall', 'stop', 'drain', 'close', 'release', 'fail', 'cancel', 'tick'}
    red = full - {'tcall', 'close'}
    rst = {'call', 'stop', 'drain', 'close', 'restart', 'release', 'fail', 'cancel'}
    L = 5 if thorough else 4
    for fam, events, ln, ords in (('H1', full, L, orders if thorough else orders[:1]), ('H1', red, L + 1, orders[:1]),
                                  ('H2', rst, 6 if thorough else 5, orders if thorough else orders[:1])):
        if not cc.want(fam):
            continue
        cfg = dict(nloops=3, max_len=ln, max_callers=3, events=events)
        strict = 'restart' not in events
        for order in ords:
            def onp(seq, p):
                probs.extend('%s priority=%r events=%r: %s' % (fam, order, seq, x) for x in p)
            counts[fam] = counts.get(fam, 0) + enumerate_histories(
                cfg, lambda w: Harness(w, [('gate', 'ret')], check_overlap=strict, check_once=strict),
                onp, lambda: PrioChooser(order))
            if probs:
                return probs, counts

    # ---- H3
    plans = ([(2, 'ret')], [(2, 'raise'), (2, 'ret')], [(2, 'raise'), (2, 'raise'), (2, 'ret')])
    placements = [[(0, 0)], [(0, 0), (0, 0.5)], [(0, 0), (1, 0.5)], [(0, 0), (0, 0.5), (1, 0.5)],
                  [(0, 0), (1, 0.5), (1, 1)], [(0, 0), (1, 0.5), (2, 1)], [(0, 0), (1, 0), (0, 1)]]
    if thorough:
        placements += [[(0, 0), (1, 0), (2, 0)], [(0, 0), (0, 0), (0, 1)], [(0, 0), (1, 1), (1, 2.5)],
                       [(0, 0), (1, 2), (2, 4)]]

    def after(w, h, lts):
        finish_all(w, h)
    for plan in plans:
        if not cc.want('H3'):
            continue
        for pl in placements:
            for target in range(len(pl)):
                faults = [('cancel', target, t) for t in (0, 0.5, 1, 2, 2.5, 3, 4, 4.5) if t >= pl[target][1]]
                faults += [('timeout', target, T) for T in (0.5, 1.5, 2, 2.5, 4)]
                if target == 0:
                    faults.append(('none', -1, 0))
                for f in faults:
                    both(caller_faults(plan, pl, f, after), 'H3')
                if probs:
                    return probs, counts

    # ---- H4
    for with_waiter in (False, True):
        if not cc.want('H4'):
            continue
        for b_timeout in ((None, 30) if thorough else (None,)):
            for action in ACTIONS:
                k = 0
                while True:
                    sc = window(k, action, with_waiter, b_timeout)
                    probs.extend(run_scenario(sc, PrioChooser([]), fine=FINE, step_budget=20000))
                    counts['H4'] = counts.get('H4', 0) + 1
                    if probs:
                        return probs, counts
                    if sc.info.get('exhausted', True) or k > 60:
                        break
                    k += 1

    # ---- H5
    for conf, pb in ((([1, 1], 3), ([2, 1], 2)) if thorough else (([1, 1], 2),)):
        if not cc.want('H5'):
            continue
        for dur in (0, 'y'):
            for plan in ([(dur, 'raise'), (dur, 'ret')], [(dur, 'raise'), (dur, 'raise'), (dur, 'ret')]):
                def sc(w):
                    lts = [w.thread(NAMES[i]) for i in range(len(conf))]
                    h = Harness(w, plan, cache=HookedDict(), check_overlap=False)
                    w.log('H5 callers per loop=%r plan=%r' % (conf, plan))
                    for lt in lts:
                        w.start(lt)
                    for lt, n in zip(lts, conf):
                        for _ in range(n):
                            h.call(lt, 1)
                    finish_all(w, h)

                def one(ch):
                    p = run_scenario(sc, ch, fine=FINE, step_budget=20000)
                    probs.extend(p)
                    return p
                r, _ = explore(one, pb=pb, max_runs=5000)
                counts['H5'] = counts.get('H5', 0) + r
                if probs:
                    return probs, counts
    return probs, counts


def main(thorough):
    t0 = time.time()
    cc.KINDS[0] = C06_KINDS
    del cc.NOTES[:]
    probs, counts = run(thorough)
    print('C06 stand-in: %d scenario runs %r in %.1fs (bounded: 3 loops/threads + probe loop, <=3 callers of one '
          'key, histories of <=%d events incl. restarts, fault instants on a 0.5 s grid, plans with <=2 failing '
          'invocations, life-cycle/cancel/finish events at every source point of a second loop\'s call, '
          'source-point interleavings with <=%d preemptions)'
          % (sum(counts.values()), counts, time.time() - t0, 6 if thorough else 5, 3 if thorough else 2))
    for p in probs[:3]:
        print('PROBLEM:', p)
    if cc.NOTES:
        print('NOTE: %d scenario(s) ended early on findings that are not C06 matters (see C01, C05), first: %s'
              % (len(cc.NOTES), cc.NOTES[0][:600]))
    return 1 if probs else 0
