"""Shared machinery of the bounded stand-ins C04 / C09 / C10 / C11 / C15 (AsyncBackgroundBatcher).

A *timed program* is a list of `Call`s (arrival gap, key, optional cancellation) run against a real
batcher on a virtual-time loop (scenarios.vt) with a harness-owned batch function (`Recorder.fn`) whose
behaviour per key, result order and durations come from a `Spec`.  Everything is single-threaded
asyncio on a virtual clock, so every arrival / duration / cancellation instant is exact and a run is
fully deterministic.  A caller that is not answered within GUARD virtual seconds is reported as
NEVER ANSWERED (the harness never blocks on it).

Times are dyadic rationals (multiples of 1/8) so that the virtual clock arithmetic is exact; comparisons
nevertheless use the margin EPS and exact timer ties are treated as "either outcome allowed".
"""
import asyncio as aio
import itertools
import random

from scenarios import vt
from aiuti.asyncio import AsyncBackgroundBatcher

GUARD = 100000.0       # virtual seconds a caller may stay unanswered before it is declared hung
EPS = 1e-6
TICK = -1              # gap: one `await sleep(0)` of the driver (next loop iteration, same instant)
TICK2 = -2             # gap: two loop iterations

VALUE, EXCVAL, OMIT, RAISE, TWICE, UNKNOWN = 'value', 'excval', 'omit', 'raise', 'twice', 'unknown'
BEHAVIOURS = (VALUE, EXCVAL, OMIT, RAISE, TWICE, UNKNOWN)


class Val(object):
    """A value yielded by the harness batch function: remembers key, batch and ordinal."""
    __slots__ = ('key', 'batch', 'n')

    def __init__(self, key, batch, n=0):
        self.key, self.batch, self.n = key, batch, n

    def __repr__(self):
        return 'Val(%s,batch#%d%s)' % (self.key, self.batch, '' if not self.n else ',dup%d' % self.n)


class KeyFailure(Exception):
    """Exception *value* yielded for one key."""

    def __init__(self, key, batch):
        Exception.__init__(self, key, batch)
        self.key, self.batch = key, batch

    def __repr__(self):
        return 'KeyFailure(%s,batch#%d)' % (self.key, self.batch)


class BatchBoom(Exception):
    """Exception *raised* by the batch function in the middle of a batch."""

    def __init__(self, batch, at_key):
        Exception.__init__(self, batch, at_key)
        self.batch, self.at_key = batch, at_key

    def __repr__(self):
        return 'BatchBoom(batch#%d at %s)' % (self.batch, self.at_key)


class Arg(object):
    """Argument of one call.  str(arg) is the key (default-key form); idx identifies the call."""
    __slots__ = ('key', 'idx')

    def __init__(self, key, idx):
        self.key, self.idx = key, idx

    def __str__(self):
        return self.key

    def __repr__(self):
        return '%s/%d' % (self.key, self.idx)


class Call(object):
    """gap: seconds after the previous call (0 = same loop tick, TICK/TICK2 = n loop iterations later)
    key: key string; explicit: pass key= (else the default str(arg) is used)
    cancel: None | ('at', T) task.cancel() at absolute instant T | ('now',) cancel in the loop
            iteration in which the call was started | ('hook', 'pre'|'post', key) cancel right before /
            right after the batch function yields `key` (same loop turn as the result) |
            ('timeout', dt) wrap the call into asyncio.wait_for(..., dt)"""
    __slots__ = ('gap', 'key', 'explicit', 'cancel')

    def __init__(self, gap, key, explicit=True, cancel=None):
        self.gap, self.key, self.explicit, self.cancel = gap, key, explicit, cancel

    def __repr__(self):
        g = {TICK: '+tick', TICK2: '+2ticks'}.get(self.gap, '+%g' % self.gap)
        s = '%s %s%s' % (g, self.key, '' if self.explicit else '(str)')
        if self.cancel:
            s += ' [%s]' % ' '.join(str(x) for x in self.cancel)
        return s


class Spec(object):
    """Behaviour of the harness batch function."""

    def __init__(self, beh=None, order='fwd', pre=0.0, item=0.0, post=0.0):
        self.beh = beh or {}          # key -> behaviour (default VALUE)
        self.order, self.pre, self.item, self.post = order, pre, item, post

    def __repr__(self):
        b = ','.join('%s:%s' % kv for kv in sorted(self.beh.items()) if kv[1] != VALUE)
        return 'batchfn(order=%s pre=%g item=%g post=%g%s)' % (
            self.order, self.pre, self.item, self.post, ' ' + b if b else '')


class Batch(object):
    def __init__(self, bid, start, items, loop):
        self.id, self.start, self.items, self.loop = bid, start, items, loop
        self.events = []      # ('yield', key, obj, t) in the order the function produced them
        self.raised = None    # exception raised by the function itself
        self.end = None       # instant the function's execution ended (finally)
        self.completed = False  # ran to its natural end
        self.occ = 0          # executions in progress right after this one started

    def keys(self):
        return [k for k, _ in self.items]

    def __repr__(self):
        return '#%d@%g%r' % (self.id, self.start, [a for _, a in self.items])


class Out(object):
    __slots__ = ('kind', 'obj', 't_arrive', 't_done', 'seq')

    def __init__(self):
        self.kind, self.obj, self.t_arrive, self.t_done, self.seq = 'never', None, None, None, None

    def __repr__(self):
        if self.kind == 'never':
            return 'NEVER ANSWERED'
        if self.kind in ('cancelled', 'timeout'):
            return '%s@%g' % (self.kind, self.t_done)
        return '%s %r@%g' % ('returned' if self.kind == 'val' else 'raised', self.obj, self.t_done)


class Recorder(object):
    """Owns the batch function; records every batch with (virtual) times and what it yielded."""

    def __init__(self, spec):
        self.spec = spec
        self.batches = []
        self.cur = 0
        self.maxocc = 0
        self.hooks = []           # callables (phase, key, batch)

    def _order(self, items, bid):
        o = self.spec.order
        if o == 'fwd':
            return list(items)
        if o == 'rev':
            return list(reversed(items))
        its = list(items)
        random.Random(1000 * len(its) + bid).shuffle(its)
        if its == list(items) and len(its) > 1:
            its = its[1:] + its[:1]
        return its

    def _hook(self, phase, key, b):
        for h in list(self.hooks):
            h(phase, key, b)

    async def fn(self, batch):
        loop = aio.get_running_loop()
        sp = self.spec
        items = list(batch)
        b = Batch(len(self.batches), loop.time(), items, loop)
        self.batches.append(b)
        self.cur += 1
        b.occ = self.cur
        self.maxocc = max(self.maxocc, self.cur)
        try:
            if sp.pre > 0:
                await aio.sleep(sp.pre)
            for key, _arg in self._order(items, b.id):
                if sp.item > 0:
                    await aio.sleep(sp.item)
                beh = sp.beh.get(key, VALUE)
                if beh == OMIT:
                    continue
                if beh == RAISE:
                    b.raised = BatchBoom(b.id, key)
                    raise b.raised
                if beh == UNKNOWN:
                    obj = Val('?unknown-%s' % key, b.id)
                    b.events.append(('yield', obj.key, obj, loop.time()))
                    yield obj.key, obj
                    continue
                obj = KeyFailure(key, b.id) if beh == EXCVAL else Val(key, b.id)
                self._hook('pre', key, b)
                b.events.append(('yield', key, obj, loop.time()))
                yield key, obj
                self._hook('post', key, b)
                if beh == TWICE:
                    obj = Val(key, b.id, 1)
                    b.events.append(('yield', key, obj, loop.time()))
                    yield key, obj
            if sp.post > 0:
                await aio.sleep(sp.post)
            b.completed = True
        finally:
            self.cur -= 1
            b.end = loop.time()


class Result(object):
    def __init__(self, cfg, calls, spec, rec, outs, args):
        self.cfg, self.calls, self.spec = cfg, calls, spec
        self.rec, self.batches, self.outs, self.args = rec, rec.batches, outs, args
        self.mbs_hist = []
        # owners: call index -> (batch, position) for every call whose argument reached a batch
        self.owners = {}
        self.item_problems = []
        for b in self.batches:
            for pos, (k, a) in enumerate(b.items):
                if not isinstance(a, Arg) or a.idx >= len(calls) or args[a.idx] is not a:
                    self.item_problems.append('batch %r carries a foreign item (%r, %r)' % (b, k, a))
                    continue
                if k != calls[a.idx].key:
                    self.item_problems.append('batch %r carries call %d under key %r, its key is %r'
                                              % (b, a.idx, k, calls[a.idx].key))
                if a.idx in self.owners:
                    self.item_problems.append('call %d handed to the batch function twice (%r and %r)'
                                              % (a.idx, self.owners[a.idx][0], b))
                self.owners[a.idx] = (b, pos)

    def describe(self):
        c = self.cfg
        return ('max_batch_size=%s max_concurrent_batches=%s batch_timeout=%g retention_timeout=%g; calls [%s]; %r'
                % (c['max_batch_size'], c['max_concurrent_batches'], c['batch_timeout'],
                   c['retention_timeout'], '; '.join('%d:%r' % (i, x) for i, x in enumerate(self.calls)),
                   self.spec))

    def observed(self):
        return 'batches %r; outcomes %s' % (
            self.batches, ', '.join('%d(%s)=%r' % (i, self.calls[i].key, o) for i, o in enumerate(self.outs)))


def default_make(fn, cfg):
    return AsyncBackgroundBatcher(fn, **cfg)


def run_program(cfg, calls, spec, make=default_make, mutations=(), settle=True, loop=None):
    """Run one timed program; returns a Result.  mutations: [(T, value)] sets max_batch_size at instant T."""
    rec = Recorder(spec)
    outs = [Out() for _ in calls]
    args = [Arg(c.key, i) for i, c in enumerate(calls)]
    hist = [(0.0, cfg['max_batch_size'])]
    counter = itertools.count()
    closed = []

    async def driver():
        lp = aio.get_running_loop()
        b = make(rec.fn, cfg)
        tasks = []

        async def _call(i):
            c, o = calls[i], Out()
            outs[i].seq = o.seq = next(counter)
            outs[i].t_arrive = o.t_arrive = lp.time()
            timed = c.cancel is not None and c.cancel[0] == 'timeout'
            try:
                aw = b(args[i], key=c.key) if c.explicit else b(args[i])
                if timed:
                    aw = aio.wait_for(aw, c.cancel[1])
                v = await aw
                o.kind, o.obj = 'val', v
            except aio.CancelledError:
                o.kind = 'cancelled'
            except aio.TimeoutError as e:
                if timed:
                    o.kind = 'timeout'
                else:
                    o.kind, o.obj = 'exc', e
            except Exception as e:  # the outcome under observation
                o.kind, o.obj = 'exc', e
            finally:
                o.t_done = lp.time()
                if not closed:
                    outs[i] = o

        def _not_started(i):
            # cancelled before its first step: the call never reached the batcher at all
            if outs[i].seq is None and not closed:
                outs[i].kind, outs[i].t_done = 'cancelled', lp.time()

        def _set_mbs(v):
            b.max_batch_size = v
            hist.append((lp.time(), v))

        for T, v in mutations:
            lp.call_at(T, _set_mbs, v)
        if settle:
            await aio.sleep(0)
        for i, c in enumerate(calls):
            if c.gap < 0:
                for _ in range(-c.gap):
                    await aio.sleep(0)
            elif c.gap > 0:
                await aio.sleep(c.gap)
            t = lp.create_task(_call(i))
            tasks.append(t)
            t.add_done_callback(lambda _t, _i=i: _not_started(_i))
            cn = c.cancel
            if cn is None or cn[0] == 'timeout':
                pass
            elif cn[0] == 'now':
                lp.call_soon(t.cancel)
            elif cn[0] == 'at':
                lp.call_at(cn[1], t.cancel)
            elif cn[0] == 'hook':
                def h(phase, key, batch, _t=t, _cn=cn, _fired=[]):
                    if not _fired and phase == _cn[1] and key == _cn[2]:
                        _fired.append(1)
                        _t.cancel()
                rec.hooks.append(h)
            else:
                raise ValueError('bad cancel spec %r' % (cn,))
        if tasks:
            await aio.wait(tasks, timeout=GUARD)
        # whoever is still unanswered now is hung: freeze the records, then clean up
        closed.append(1)
        if any(b.end is None for b in rec.batches):
            # let the tails (code after the last yield) of running executions finish
            await aio.sleep(spec.pre + 16 * spec.item + spec.post + 1.0)
        for t in tasks:
            if not t.done():
                t.cancel()
        for _ in range(4):
            await aio.sleep(0)

    vt.run(driver(), loop=loop)
    res = Result(cfg, calls, spec, rec, outs, args)
    res.mbs_hist = hist
    return res


# ----------------------------------------------------------------------------------------------------
# Oracle shared by C04 / C09 / C11: "each caller completes with the outcome the batch function produced
# for its key" (statement of C04).  The computation serving call c is the one whose batch item belongs to
# the latest call with c's key that arrived no later than c and whose argument reached the function.
# ----------------------------------------------------------------------------------------------------

def serving(res, i):
    c = res.calls[i]
    best = None
    for j, (b, pos) in res.owners.items():
        if res.calls[j].key != c.key or res.outs[j].seq is None or res.outs[i].seq is None:
            continue
        if res.outs[j].seq <= res.outs[i].seq and (best is None or res.outs[j].seq > res.outs[best].seq):
            best = j
    return best


def produced(b, key):
    """What batch b produced for key: ('obj', o) first thing yielded for it | ('raise', e) the function
    raised before answering it | ('error',) omitted / the function broke the protocol: some error"""
    for ev in b.events:
        if ev[1] == key:
            return ('obj', ev[2])
    if b.raised is not None:
        return ('raise', b.raised)
    return ('error',)


def judge_call(res, i):
    """Problem string or None for call i (which is expected to have been answered)."""
    c, o = res.calls[i], res.outs[i]
    who = 'call %d (key %s, arrived %s)' % (i, c.key, '@%g' % o.t_arrive if o.t_arrive is not None else 'never started')
    if o.kind == 'never':
        return '%s NEVER ANSWERED' % who
    if o.kind in ('cancelled', 'timeout'):
        return '%s ended as %s although nobody cancelled it' % (who, o.kind)
    own = getattr(o.obj, 'key', None)
    if isinstance(o.obj, (Val, KeyFailure)) and own != c.key:
        return '%s received %r which was yielded for a different key' % (who, o.obj)
    s = serving(res, i)
    if s is None:
        return '%s got %r but no batch ever carried its key' % (who, o)
    b = res.owners[s][0]
    exp = produced(b, c.key)
    if exp[0] == 'obj':
        if isinstance(exp[1], Exception):
            ok = o.kind == 'exc' and o.obj is exp[1]
        else:
            ok = o.kind == 'val' and o.obj is exp[1]
        if not ok:
            return '%s got %r, batch %r yielded %r for its key' % (who, o, b, exp[1])
    elif exp[0] == 'raise':
        if not (o.kind == 'exc' and o.obj is exp[1]):
            return '%s got %r, batch %r raised %r before answering it' % (who, o, b, exp[1])
    else:
        if o.kind != 'exc' or isinstance(o.obj, (KeyFailure, BatchBoom)):
            return '%s got %r, batch %r never produced a result for its key (expected an error)' % (who, o, b)
    return None


def judge(res, skip=()):
    probs = list(res.item_problems)
    for i in range(len(res.calls)):
        if i in skip:
            continue
        p = judge_call(res, i)
        if p:
            probs.append(p)
    return probs


def dup_key_batches(res):
    return [(b, k) for b in res.batches for k in sorted(set(b.keys())) if b.keys().count(k) > 1]


def tail(keys, gap=64.0, fresh=('p0', 'p1')):
    """Later round: every key of the program again plus fresh keys, well after every window."""
    ks = list(dict.fromkeys(keys)) + list(fresh)
    return [Call(gap if n == 0 else 0, k) for n, k in enumerate(ks)]
