"""Shared machinery of the bounded stand-ins for C03 / C07 / C08 (buffer_until_timeout / BufferAsyncCalls).

Everything runs the REAL code of aiuti.asyncio on the virtual-time loop of scenarios.vt:

* ``World``       one buffer on one fresh virtual-time loop, a recording wrapped function (start / end /
                  argument set / outcome / occupancy of every invocation), recorded submissions and wait()s,
                  bounded shutdown.  No wall-clock time is involved in any verdict.
* timed programs  lists of ``(t, kind, ...)`` actions executed on the loop's own thread at virtual instant t.
                  All instants are multiples of 1/32 so they are exact binary floats: intended ties between a
                  timer and a submission are exact ties, everything else is at least 1/32 apart.
* ``Hooks``       proxies around ``buf.event`` / ``buf.q`` / ``loop.call_soon_threadsafe`` / the wrapped
                  function that number every operation the loop thread performs on them; a foreign thread's
                  submission can be run to completion at exactly the i-th such operation (start + join), or a
                  foreign thread can be parked at its own j-th operation.  Rendez-vous are explicit (message
                  queue, bounded waits), never sleeps; a rendez-vous that does not happen is a HarnessError
                  (exit 3), never a verdict.
"""
import asyncio
import gc
import logging
import queue
import threading
import warnings
from concurrent.futures import ThreadPoolExecutor

from scenarios import vt
from aiuti.asyncio import BufferAsyncCalls

logging.disable(logging.CRITICAL)
warnings.simplefilter('ignore', RuntimeWarning)   # never-awaited producers left over at a forced shutdown

WALL = 30.0          # wall-clock bound (s) of any rendez-vous with another thread; exceeded -> HarnessError
MAX_ITERS = 60000    # loop iterations granted to one scenario run (guards against busy loops)
CLOSE_BOUND = 64.0   # virtual seconds granted to cancelled tasks to finish at shutdown
EPS = 1e-6           # margin around exact ties

_POOL = ThreadPoolExecutor(4, thread_name_prefix='bc-rendezvous')


class HarnessError(Exception):
    """The harness itself could not do what it wanted (never a verdict about the code under test)."""


class BudgetExceeded(HarnessError):
    pass


class Boom(Exception):
    """Raised on purpose by the wrapped function / by producers."""


# --------------------------------------------------------------------------------------------- loop

def new_loop(max_iters=MAX_ITERS):
    loop = vt.new_loop()
    loop.vt_idle_limit = 30
    loop._bc_iters = 0
    orig = loop._run_once

    def _run_once():
        loop._bc_iters += 1
        if loop._bc_iters > max_iters:
            raise BudgetExceeded('more than %d loop iterations in one scenario' % max_iters)
        orig()

    loop._run_once = _run_once
    return loop


# --------------------------------------------------------------------------------------------- producers
# action kinds (without the leading instant):
#   ('call', x)                                  buf(x)
#   ('await', x, delay|None, fail)               buf.await_(coroutine sleeping `delay` then returning x / raising)
#   ('awaitfut', x, delay, fail)                 buf.await_(future resolved / failed after `delay`)
#   ('map', flavour, (x, ...), fail_at|None)     buf.map(...): flavour 'list' | 'iterable' | 'iterator' (thread)
#   ('amap', ((delay, x), ...), fail_at|None, fail_delay)   buf.amap(async generator)
#   ('wait', cancel)                             a task doing `await buf.wait(cancel=cancel)`

def produced(action):
    """Elements the producer yields before it fails (these must all be delivered)."""
    k = action[0]
    if k == 'call':
        return [action[1]]
    if k in ('await', 'awaitfut'):
        return [] if action[3] else [action[1]]
    if k == 'map':
        xs = list(action[2])
        return xs if action[3] is None else xs[:action[3]]
    if k == 'amap':
        xs = [x for _, x in action[1]]
        return xs if action[2] is None else xs[:action[2]]
    raise HarnessError('unknown action %r' % (action,))


def producer_span(action):
    """Upper bound of the virtual time the producer needs."""
    k = action[0]
    if k in ('await', 'awaitfut'):
        return action[2] or 0
    if k == 'amap':
        return sum(d or 0 for d, _ in action[1]) + (action[3] or 0)
    return 0


class _Iterable:
    """A synchronous iterable that is not an iterator; optionally fails at a position."""

    def __init__(self, xs, fail_at):
        self.xs, self.fail_at = xs, fail_at

    def __iter__(self):
        return _gen(self.xs, self.fail_at)

    def __repr__(self):
        return '_Iterable(%r, fail_at=%r)' % (self.xs, self.fail_at)


def _gen(xs, fail_at):
    for i, x in enumerate(xs):
        if fail_at == i:
            raise Boom('sync producer failed at position %d' % i)
        yield x
    if fail_at is not None and fail_at >= len(xs):
        raise Boom('sync producer failed after its last element')


async def _agen(items, fail_at, fail_delay):
    for i, (d, x) in enumerate(items):
        if fail_at == i:
            if fail_delay is not None:
                await asyncio.sleep(fail_delay)
            raise Boom('async producer failed at position %d' % i)
        if d is not None:
            await asyncio.sleep(d)
        yield x
    if fail_at is not None and fail_at >= len(items):
        if fail_delay is not None:
            await asyncio.sleep(fail_delay)
        raise Boom('async producer failed after its last element')


async def _coro(x, delay, fail):
    if delay is not None:
        await asyncio.sleep(delay)
    if fail:
        raise Boom('awaitable failed')
    return x


def do_submit(buf, action):
    k = action[0]
    if k == 'call':
        buf(action[1])
    elif k == 'await':
        buf.await_(_coro(action[1], action[2], action[3]))
    elif k == 'awaitfut':
        loop = buf.loop
        fut = loop.create_future()

        def resolve():
            if not fut.done():
                if action[3]:
                    fut.set_exception(Boom('future failed'))
                else:
                    fut.set_result(action[1])
        loop.call_later(action[2] or 0, resolve)   # loop thread only
        buf.await_(fut)
    elif k == 'map':
        flavour, xs, fail_at = action[1], list(action[2]), action[3]
        if flavour == 'list':
            if fail_at is not None:
                raise HarnessError('a list cannot fail')
            buf.map(xs)
        elif flavour == 'iterable':
            buf.map(_Iterable(xs, fail_at))
        elif flavour == 'iterator':
            buf.map(_gen(xs, fail_at))
        else:
            raise HarnessError('unknown map flavour %r' % (flavour,))
    elif k == 'amap':
        buf.amap(_agen(action[1], action[2], action[3]))
    else:
        raise HarnessError('unknown action %r' % (action,))


# --------------------------------------------------------------------------------------------- hooks

class Hooks:
    """Numbers the operations the loop thread performs on the instrumented objects and runs planned
    injections at them; forwards operations of registered foreign threads to their controller."""

    def __init__(self):
        self.loop_ident = threading.get_ident()
        self.n = 0
        self.trace = []
        self.inject = {}          # operation index -> [callable]
        self.foreign = {}         # thread ident -> ForeignCtl
        self.fired = []

    def op(self, name, phase):
        me = threading.get_ident()
        if me == self.loop_ident:
            i = self.n
            self.n += 1
            self.trace.append((name, phase))
            acts = self.inject.pop(i, None)
            if acts:
                self.fired.append((i, name, phase))
                for a in acts:
                    a()
        else:
            ctl = self.foreign.get(me)
            if ctl is not None:
                ctl.op(name, phase)


class ForeignCtl:
    """Operation counter of one foreign thread; parks the thread before its `park_at`-th operation."""

    def __init__(self, msgs, park_at=None):
        self.n = 0
        self.trace = []
        self.park_at = park_at
        self.msgs = msgs
        self.release = threading.Event()
        self.parked_at = None

    def op(self, name, phase):
        i = self.n
        self.n += 1
        self.trace.append((name, phase))
        if i == self.park_at:
            self.parked_at = (name, phase)
            self.msgs.put('parked')
            if not self.release.wait(WALL):
                raise HarnessError('parked foreign thread was not released within %ss' % WALL)


class _Proxy:
    """Delegating proxy; the listed synchronous methods report 'before' / 'after' to the hooks."""

    def __init__(self, real, name, hooks, methods, coro_methods=()):
        self.__dict__['_real'] = real
        self.__dict__['_name'] = name
        self.__dict__['_hooks'] = hooks
        self.__dict__['_methods'] = frozenset(methods)
        self.__dict__['_coro_methods'] = frozenset(coro_methods)

    def __getattr__(self, attr):
        val = getattr(self._real, attr)
        if attr in self._methods:
            hooks, name = self._hooks, self._name + '.' + attr

            def wrapped(*a, **k):
                hooks.op(name, 'before')
                try:
                    return val(*a, **k)
                finally:
                    hooks.op(name, 'after')
            return wrapped
        if attr in self._coro_methods:
            hooks, name = self._hooks, self._name + '.' + attr

            async def cwrapped(*a, **k):
                r = await val(*a, **k)
                hooks.op(name, 'returned')
                return r
            return cwrapped
        return val

    def __setattr__(self, attr, value):
        setattr(self._real, attr, value)

    def __repr__(self):
        return '<proxy of %r>' % (self._real,)


# --------------------------------------------------------------------------------------------- world

class Call:
    __slots__ = ('k', 'start', 'end', 'args', 'ok', 'overlap', 'thread_ok')

    def __init__(self, k, start, args, overlap, thread_ok):
        self.k, self.start, self.args, self.overlap, self.thread_ok = k, start, args, overlap, thread_ok
        self.end = None
        self.ok = None        # True success / False raised / None still running or cancelled

    def __repr__(self):
        return 'call#%d[%s..%s %s %s]' % (self.k, _t(self.start), _t(self.end), sorted(self.args, key=str),
                                          {True: 'ok', False: 'RAISED', None: 'unfinished'}[self.ok])


def _t(x):
    return '-' if x is None else ('%g' % x)


class World:
    """One buffer on one fresh virtual-time loop.  `durations[k]` is the virtual time invocation k sleeps
    (None = returns without suspending), invocations beyond the list use `default_dur`; invocation k raises
    (after its sleep) iff k in `fails`."""

    def __init__(self, timeout, durations=(), fails=(), default_dur=None, hooks=False, max_iters=MAX_ITERS):
        self.timeout = timeout
        self.durations = tuple(durations)
        self.default_dur = default_dur
        self.fails = frozenset(fails)
        self.loop = new_loop(max_iters)
        asyncio.set_event_loop(self.loop)
        self.loop_ident = threading.get_ident()
        self.calls = []
        self.active = 0
        self.subs = []            # dicts: t, who, action, expected, seq
        self.waits = []           # dicts: t, cancel, who, need, ret_t, missing
        self.wait_tasks = []
        self.seq = 0
        self.lock = threading.Lock()
        self.harness_errors = []
        self.closed = False
        self.hooks = Hooks() if hooks else None
        self.buf = BufferAsyncCalls(self.func, timeout=timeout)
        self.daemon = self.buf._waiting
        if hooks:
            h = self.hooks
            self.buf.event = _Proxy(self.buf.event, 'event', h, ('set', 'clear', 'is_set'))
            self.buf.q = _Proxy(self.buf.q, 'q', h, ('put_nowait', 'get_nowait', 'task_done'), ('get',))
            orig_cst = self.loop.call_soon_threadsafe

            def cst(callback, *args, **kw):
                h.op('loop.call_soon_threadsafe', 'before')
                try:
                    return orig_cst(callback, *args, **kw)
                finally:
                    h.op('loop.call_soon_threadsafe', 'after')

            self.loop.call_soon_threadsafe = cst

    # ---- wrapped function
    async def func(self, args):
        k = len(self.calls)
        self.active += 1
        c = Call(k, self.loop.time(), frozenset(args), self.active > 1,
                 threading.get_ident() == self.loop_ident)
        self.calls.append(c)
        try:
            if self.hooks:
                self.hooks.op('func', 'entered')
            d = self.durations[k] if k < len(self.durations) else self.default_dur
            if d is not None:
                await asyncio.sleep(d)
            if k in self.fails:
                c.ok = False
                raise Boom('wrapped function fails on invocation %d' % k)
            c.ok = True
            if self.hooks:
                self.hooks.op('func', 'returning')
        finally:
            c.end = self.loop.time()
            self.active -= 1

    def ok_args(self):
        s = set()
        for c in self.calls:
            if c.ok:
                s |= c.args
        return s

    # ---- submissions / waits (any thread)
    def submit(self, action, who='loop'):
        rec = {'t': self.loop.time(), 'who': who, 'action': action, 'expected': produced(action), 'seq': None}
        self.subs.append(rec)
        do_submit(self.buf, action)
        with self.lock:
            self.seq += 1
            rec['seq'] = self.seq
        return rec

    def needed_now(self):
        """Arguments whose submission call has returned (in any thread) by now."""
        with self.lock:
            return set(x for s in self.subs if s['seq'] is not None for x in s['expected'])

    async def waiter(self, cancel, who='loop'):
        rec = {'t': self.loop.time(), 'cancel': cancel, 'who': who, 'need': self.needed_now(),
               'ret_t': None, 'missing': None}
        self.waits.append(rec)
        # the class attribute: an instance-level wrapper (run_parked) only sees wait_from_anywhere()'s call
        await type(self.buf).wait(self.buf, cancel=cancel)
        rec['ret_t'] = self.loop.time()
        rec['missing'] = rec['need'] - self.ok_args()
        if rec['missing']:
            rec['calls_then'] = fmt_calls(self.calls)
        return rec

    def spawn_wait(self, cancel):
        t = self.loop.create_task(self.waiter(cancel))
        self.wait_tasks.append(t)
        return t

    # ---- timed program on the loop's own thread
    async def drive(self, actions, horizon=None):
        loop = self.loop
        for act in actions:
            t = act[0]
            if t > loop.time():
                await asyncio.sleep(t - loop.time())
            if act[1] == 'wait':
                self.spawn_wait(act[2])
            else:
                self.submit(tuple(act[1:]))
        if horizon is not None and horizon > loop.time():
            await asyncio.sleep(horizon - loop.time())

    def run(self, coro):
        try:
            return self.loop.run_until_complete(coro)
        finally:
            self._raise_harness_errors()

    def _raise_harness_errors(self):
        if self.harness_errors:
            raise HarnessError('; '.join(map(str, self.harness_errors)))

    # ---- bounded wait for a message of another thread (virtual time stands still meanwhile)
    async def next_msg(self, msgs, *expected):
        try:
            m = await self.loop.run_in_executor(_POOL, msgs.get, True, WALL)
        except queue.Empty:
            raise HarnessError('no message from the other thread within %ss (expected %r)' % (WALL, expected))
        if expected and m not in expected:
            raise HarnessError('unexpected message %r from the other thread (expected %r)' % (m, expected))
        return m

    # ---- run a foreign thread's submission to completion, right here (called on the loop thread)
    def foreign_submit_now(self, action, who):
        box = []

        def body():
            try:
                self.submit(action, who=who)
            except BaseException as e:   # noqa
                box.append(e)

        t = threading.Thread(target=body, name=who, daemon=True)
        t.start()
        t.join(WALL)
        if t.is_alive():
            self.harness_errors.append('foreign submission %r did not return within %ss' % (action, WALL))
        if box:
            self.harness_errors.append('foreign submission %r raised %r' % (action, box[0]))

    # ---- shutdown, bounded; returns names of tasks that survived the first cancel round
    def close(self):
        if self.closed:
            return []
        self.closed = True
        loop = self.loop
        survivors = []
        try:
            for rnd in range(6):
                pending = [t for t in asyncio.all_tasks(loop) if not t.done()]
                if not pending:
                    break
                for t in pending:
                    t.cancel()
                try:
                    loop.run_until_complete(asyncio.wait(pending, timeout=CLOSE_BOUND))
                except (BudgetExceeded, vt.VirtualDeadlock):
                    pass
                if rnd == 0:
                    survivors = [t.get_name() for t in pending if not t.done()]
            try:
                loop.run_until_complete(loop.shutdown_asyncgens())
            except (BudgetExceeded, vt.VirtualDeadlock):
                pass
        finally:
            asyncio.set_event_loop(None)
            try:
                loop.close()
            except Exception:   # noqa
                pass
        return survivors


# --------------------------------------------------------------------------------------------- parked foreign thread

def run_parked(timeout, foreign_actions, park_at, span, own_before=(), flush_during_park=False,
               foreign_wait=None, dur=None, fails=(), settle=None):
    """A real foreign thread performs `foreign_actions` (submissions) and then, if `foreign_wait` is not
    None, ``asyncio.run(buf.wait_from_anywhere(cancel=foreign_wait))`` on a loop of its own, while the buffer's
    loop runs in this thread.  The foreign thread is parked right before its `park_at`-th operation on the
    instrumented shared objects (None: never); while it is parked the buffer's loop runs for `span` virtual
    seconds (0: three loop iterations), optionally with a loop-thread wait(cancel=True) started at the beginning
    of the park.  Virtual time only advances while the foreign thread is parked or blocked in its wait.
    Returns (world, info); the world is still open."""
    w = World(timeout, default_dur=dur, fails=fails, hooks=True)
    loop = w.loop
    msgs = queue.Queue()
    ctl = ForeignCtl(msgs, park_at)
    fw = {}
    returned = asyncio.Event()
    dmax = dur or 0
    if settle is None:
        settle = (len(fails) + 4) * (timeout + dmax) + 4 * timeout
    orig_wait = w.buf.wait

    async def wait_wrapper(*, cancel=True):      # runs on the buffer's loop, called by wait_from_anywhere()
        rec = fw['rec']
        rec['t'] = loop.time()
        fw['task'] = asyncio.current_task()
        msgs.put('entered')
        await orig_wait(cancel=cancel)
        rec['ret_t'] = loop.time()
        rec['missing'] = rec['need'] - w.ok_args()
        if rec['missing']:
            rec['calls_then'] = fmt_calls(w.calls)
        returned.set()

    w.buf.wait = wait_wrapper

    def body():
        w.hooks.foreign[threading.get_ident()] = ctl
        try:
            for a in foreign_actions:
                w.submit(a, who='foreign')
            msgs.put('submitted')
            if foreign_wait is not None:
                rec = {'t': None, 'cancel': foreign_wait, 'who': 'foreign', 'need': w.needed_now(),
                       'ret_t': None, 'missing': None}
                fw['rec'] = rec
                w.waits.append(rec)
                asyncio.run(w.buf.wait_from_anywhere(cancel=foreign_wait))
        except BaseException as e:   # noqa
            fw['exc'] = e
        finally:
            msgs.put('done')

    th = threading.Thread(target=body, name='foreign', daemon=True)
    info = {'ctl': ctl, 'fw': fw, 'parked': False, 'wait_timed_out': False}

    async def until(*targets):
        while True:
            m = await w.next_msg(msgs)
            if m == 'parked':
                info['parked'] = True
                loop.unhold()
                if flush_during_park:
                    w.spawn_wait(True)
                if span:
                    await asyncio.sleep(span)
                else:
                    for _ in range(3):
                        await asyncio.sleep(0)
                loop.hold()
                ctl.release.set()
            if m in targets:
                return m

    async def main():
        loop.hold()
        try:
            for a in own_before:
                w.submit(a)
            th.start()
            m = await until('entered', 'done')
            if m == 'entered':
                loop.unhold()
                try:
                    await asyncio.wait_for(returned.wait(), settle)
                except asyncio.TimeoutError:
                    info['wait_timed_out'] = True
                    fw['task'].cancel()      # un-stick the foreign thread
                loop.hold()
                await until('done')
        finally:
            loop._vt_hold = 0
        await asyncio.sleep(settle)

    try:
        w.run(main())
    finally:
        ctl.release.set()
    th.join(WALL)
    if th.is_alive():
        raise HarnessError('foreign thread did not finish')
    exc = fw.get('exc')
    if exc is not None and not (info['wait_timed_out'] and isinstance(exc, asyncio.CancelledError)):
        raise HarnessError('foreign thread raised %r' % (exc,))
    info['horizon'] = loop.time()
    return w, info


# --------------------------------------------------------------------------------------------- helpers

def default_horizon(timeout, actions, durations, fails, default_dur=None, extra_rounds=3):
    """A virtual instant by which a correct buffer has certainly delivered everything: every producer done,
    then one (quiet period + call) per failing invocation plus `extra_rounds` more."""
    last = max([a[0] for a in actions] or [0])
    span = sum(producer_span(tuple(a[1:])) for a in actions if a[1] != 'wait')
    dmax = max([d or 0 for d in tuple(durations) + (default_dur,)] or [0])
    rounds = (max(fails) + 1 if fails else 0) + len(durations) + extra_rounds
    return last + span + rounds * (timeout + dmax) + 4 * timeout


def fmt_actions(actions):
    out = []
    for a in actions:
        t, k = a[0], a[1]
        if k == 'call':
            s = 'buf(%r)' % (a[2],)
        elif k in ('await', 'awaitfut'):
            s = 'buf.await_(%s %s after %s)' % ('future' if k == 'awaitfut' else 'coroutine',
                                                'RAISING' if a[4] else 'returning %r' % (a[2],), _t(a[3]))
        elif k == 'map':
            s = 'buf.map(%s %r%s)' % (a[2], list(a[3]), '' if a[4] is None else ' RAISING at position %d' % a[4])
        elif k == 'amap':
            s = 'buf.amap(async gen %s%s)' % (
                ', '.join('%r after %s' % (x, _t(d)) for d, x in a[2]),
                '' if a[3] is None else ' RAISING at position %d after %s' % (a[3], _t(a[4])))
        elif k == 'wait':
            s = 'wait(cancel=%s)' % a[2]
        else:
            s = repr(a[1:])
        out.append('t=%g: %s' % (t, s))
    return '; '.join(out) if out else '(nothing submitted)'


def fmt_func(durations, fails, default_dur=None):
    return 'function durations=%s (then %s) raising on invocations %s' % (
        [_t(d) for d in durations], _t(default_dur), sorted(fails))


def fmt_calls(calls):
    return '[' + ', '.join(map(repr, calls)) + ']'


# --------------------------------------------------------------------------------------------- oracles shared

def delivery_problems(world, where, horizon):
    """C03 oracle: each produced element is in >=1 successful call; loop-thread ones in exactly one;
    the function only receives produced elements of submissions made no later than the call."""
    probs = []
    first_sub = {}
    for s in world.subs:
        for x in s['expected']:
            first_sub.setdefault(x, s)
    for s in world.subs:
        for x in s['expected']:
            n = sum(1 for c in world.calls if c.ok and x in c.args)
            if n == 0:
                probs.append('%s: argument %r (submitted at t=%g by %s thread via %s) was in no successful call '
                             'by t=%g; calls=%s' % (where, x, s['t'], s['who'], s['action'][0], horizon,
                                                    fmt_calls(world.calls)))
            elif n > 1 and s['who'] == 'loop':
                probs.append('%s: loop-thread argument %r (submitted at t=%g) was delivered to %d successful '
                             'calls, expected exactly 1; calls=%s' % (where, x, s['t'], n, fmt_calls(world.calls)))
    for c in world.calls:
        for x in c.args:
            s = first_sub.get(x)
            if s is None:
                probs.append('%s: %r received %r which no producer ever produced' % (where, c, x))
            elif s['t'] > c.start + EPS:
                probs.append('%s: %r received %r before it was submitted (t=%g)' % (where, c, x, s['t']))
        if not c.thread_ok:
            probs.append('%s: %r ran outside the thread of the loop the buffer was created on' % (where, c))
    return probs


def basic_call_problems(world, where):
    """C08 clause 1: never two invocations at once, never an empty set."""
    probs = []
    for c in world.calls:
        if c.overlap:
            probs.append('%s: %r started while another invocation was still running; calls=%s'
                         % (where, c, fmt_calls(world.calls)))
        if not c.args:
            probs.append('%s: %r was called with an EMPTY set; calls=%s' % (where, c, fmt_calls(world.calls)))
    return probs


def wait_problems(world, where, horizon):
    """C07 oracle for recorded wait()s: returned by the horizon; nothing submitted before it is missing."""
    probs = []
    for w in world.waits:
        if w['ret_t'] is None:
            probs.append('%s: wait(cancel=%s) called at t=%g (by %s thread) had not returned by t=%g although the '
                         'function can succeed; calls=%s' % (where, w['cancel'], w['t'], w['who'], horizon,
                                                            fmt_calls(world.calls)))
        elif w['missing']:
            probs.append('%s: wait(cancel=%s) called at t=%g (by %s thread) returned at t=%g but %s, submitted before '
                         'it, had not been in a successful call yet; calls at that instant=%s; all calls=%s'
                         % (where, w['cancel'], w['t'], w['who'], w['ret_t'], sorted(w['missing'], key=str),
                            w.get('calls_then'), fmt_calls(world.calls)))
    return probs


# --------------------------------------------------------------------------------------------- shared enumeration pieces

GAPS = (0, 0.5, 0.875, 1, 1.125, 2.5)          # x timeout


def catalogue(T, thorough):
    """name -> builder(prefix) -> action (without instant).  Elements are unique per prefix."""
    def el(p, i):
        return '%s%d' % (p, i)
    cat = {
        'call': lambda p: ('call', el(p, 0)),
        'await-now': lambda p: ('await', el(p, 0), None, False),
        'await-.5': lambda p: ('await', el(p, 0), 0.5 * T, False),
        'await-1.5': lambda p: ('await', el(p, 0), 1.5 * T, False),
        'await-fail': lambda p: ('await', el(p, 0), 0.5 * T, True),
        'fut-.5': lambda p: ('awaitfut', el(p, 0), 0.5 * T, False),
        'list2': lambda p: ('map', 'list', (el(p, 0), el(p, 1)), None),
        'list0': lambda p: ('map', 'list', (), None),
        'iterable-fail1': lambda p: ('map', 'iterable', (el(p, 0), el(p, 1)), 1),
        'iterator2': lambda p: ('map', 'iterator', (el(p, 0), el(p, 1)), None),
        'iterator-fail1': lambda p: ('map', 'iterator', (el(p, 0), el(p, 1)), 1),
        'iterator-fail2': lambda p: ('map', 'iterator', (el(p, 0), el(p, 1)), 2),
        'amap-now': lambda p: ('amap', ((None, el(p, 0)), (None, el(p, 1))), None, None),
        'amap-slow2nd': lambda p: ('amap', ((None, el(p, 0)), (1.5 * T, el(p, 1))), None, None),
        'amap-.5.5': lambda p: ('amap', ((0.5 * T, el(p, 0)), (0.5 * T, el(p, 1))), None, None),
        'amap-fail1': lambda p: ('amap', ((None, el(p, 0)), (0.5 * T, el(p, 1))), 1, 0.5 * T),
        'amap-fail2-late': lambda p: ('amap', ((None, el(p, 0)), (None, el(p, 1))), 2, 1.5 * T),
        'amap0': lambda p: ('amap', (), None, None),
    }
    if thorough:
        cat.update({
            'fut-fail': lambda p: ('awaitfut', el(p, 0), 0.5 * T, True),
            'fut-1.5': lambda p: ('awaitfut', el(p, 0), 1.5 * T, False),
            'iterable2': lambda p: ('map', 'iterable', (el(p, 0), el(p, 1)), None),
            'iterable-fail0': lambda p: ('map', 'iterable', (el(p, 0), el(p, 1)), 0),
            'iterable-fail2': lambda p: ('map', 'iterable', (el(p, 0), el(p, 1)), 2),
            'iterator0': lambda p: ('map', 'iterator', (), None),
            'iterator-fail0': lambda p: ('map', 'iterator', (el(p, 0), el(p, 1)), 0),
            'amap-fail0': lambda p: ('amap', ((None, el(p, 0)), (None, el(p, 1))), 0, 0.5 * T),
            'amap-fail1-now': lambda p: ('amap', ((None, el(p, 0)), (None, el(p, 1))), 1, None),
            'amap-slow-fail2': lambda p: ('amap', ((0.5 * T, el(p, 0)), (1.5 * T, el(p, 1))), 2, None),
        })
    return cat


CORE = ('call', 'await-1.5', 'list2', 'iterator-fail1', 'amap-slow2nd', 'amap-fail1')


class Stop(Exception):
    pass


class deterministic_gc:
    """Cyclic garbage of shut-down loops contains never-started coroutines; when the automatic collector
    happens to finalise one of them inside a frame without builtins (a namedtuple constructor) CPython prints an
    'Exception ignored ... KeyError: __import__' to stderr.  So: no automatic collection while scenarios run,
    explicit collections from a normal frame every 200 runs (Ctx.count) and at the end."""

    def __enter__(self):
        self.was = gc.isenabled()
        gc.disable()
        return self

    def __exit__(self, *exc):
        for _ in range(3):
            gc.collect()
        if self.was:
            gc.enable()
        return False


class Ctx:
    def __init__(self):
        self.runs = 0
        self.probs = []
        self.per = {}

    def count(self, fam):
        self.runs += 1
        self.per[fam] = self.per.get(fam, 0) + 1
        if self.runs % 200 == 0:
            gc.collect()      # see deterministic_gc

    def report(self, probs):
        if probs:
            self.probs.extend(probs)
            raise Stop()


def thin_ok(*key):
    """Deterministic across processes (no str hash)."""
    s = 0
    for k in key:
        for ch in str(k):
            s = (s * 131 + ord(ch)) % 1000003
    return s


def f_bases(T):
    """(name, loop-thread program, raising invocations, function duration)"""
    return [
        ('one own argument', [(0, 'call', 'own0')], (), None),
        ('two own arguments, first invocation raising, suspending function',
         [(0, 'call', 'own0'), (0.5 * T, 'call', 'own1')], (0,), 0.5 * T),
        ('slow async producer + forced flush', [(0, 'amap', ((None, 'own0'), (1.5 * T, 'own1')), None, None),
                                                (0.5 * T, 'wait', True)], (), None),
        ('submission while the function runs',
         [(0, 'call', 'own0'), (1.25 * T, 'map', 'list', ('own1', 'own2'), None)], (), 0.5 * T),
    ]
