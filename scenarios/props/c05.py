"""Bounded stand-in for C05 (cached calls always terminate, promptly, even if the computing
loop dies) on the real code, in exact virtual time.

Oracle (from the property statement; implemented by _cache_common.Harness._at_quiescence, which
is evaluated whenever nothing is runnable at the current virtual instant, i.e. before the clock
is allowed to move):
  * LATE          - a caller on a running loop is pending although no invocation for its key is
                    in progress anywhere and none was lost with a stopped loop: it should have
                    completed the very instant the computation ended (not 60 s later);
  * NOT RECOVERED - the computation was lost with its stopped/closed loop and the caller is
                    still pending with nothing recomputing 60 virtual seconds after the stop;
  * HANG          - as above and additionally nothing is runnable and no timer is armed on any
                    running loop: it would wait forever;
  * SPIN          - the scenario executes more than the segment budget at one virtual instant;
  * CANCEL NOT DELIVERED - a caller whose own task was cancelled is still pending;
  * SLOW          - explicit bound: an undisturbed caller needed more than the computations
                    it can possibly have waited for.

BOUNDED domain (deterministic: director-serialised threads, shared virtual clock):
  G1 histories : every enabled sequence of <= 4 events (thorough 5) from {call X, call X with a
                 30 s caller-side timeout, stop X, drain X, close X, computation returns,
                 computation raises, cancel caller i, 61 s pass} on 3 loops / 3 callers, one priority
                 schedule (thorough: two); plus length 5 (thorough 6) over the alphabet without
                 tcall/close.
  G2 loop death: computation with 3 scheduling points (timed (1,'y',1) or bare yields); the
                 computing loop is stopped at every one of them, then left / closed / drained
                 and closed; 1..2 other callers on the same or other loops arriving before or
                 after the stop (incl. 10 s and 70 s after).
  G3 caller    : cancelling, or timing out (caller-side wait_for), the computing caller or a
   faults        waiter at instants from a grid around the 2 s computation (incl. the exact end),
                 computations that succeed or raise, waiters on the same / another loop.
  G4 long      : computations of 61 s / 125 s with a live computing loop: waiters go through the
                 safety timeout and must still complete at the exact end.
  G5 source    : 2 threads calling at once, instrumented cache / lock / run_coro_ts points, every
                 interleaving with <= 2 preemptions (thorough 3), computation returning or raising
                 (lost wake-up window between marker lookup and proxy submission).
"""
import itertools
import time

from scenarios.props import _cache_common as cc
from scenarios.props._cache_common import (
    Harness, Hist, HookedDict, PrioChooser, enumerate_histories, explore, run_scenario)

NAMES = 'ABCD'
FINE = ('get', 'set', 'lock', 'rcts')
C05_KINDS = {'LATE', 'NOT RECOVERED', 'HANG', 'SPIN', 'CANCEL NOT DELIVERED', 'SLOW'}


def _finish(w, h, lts, horizon=400):
    """everybody on a running loop must get done; the monitors judge how fast"""
    alive = lambda: all(c.done or c.lt.state == 'idle' for c in h.callers)  # noqa
    w.run_until(alive, horizon)
    h.final_checks()


def loop_death(mode, pre, stop_at, death, others):
    """mode 'timed': computation (1,'y',1), stop_at = virtual time; mode 'yield': computation
    ('y','y','y'), stop_at = number of segments loop A ran after the first waiter arrived and
    pre = segments before. others = list of (loop index, when) with when = 'before' (arrives
    before the stop, after `pre`) or a delay after the stop."""
    def sc(w):
        lts = [w.thread(NAMES[i]) for i in range(3)]
        A = lts[0]
        steps = (1, 'y', 1) if mode == 'timed' else ('y', 'y', 'y')
        h = Harness(w, [(steps, 'ret'), (0.5, 'ret')])
        w.log('G2 %s pre=%r stop_at=%r death=%s others=%r' % (mode, pre, stop_at, death, others))
        for lt in lts:
            w.start(lt)
        h.call(A, 1)
        if mode == 'timed':
            w.run_for(pre)
        else:
            for _ in range(pre):
                w.step_thread(A)
        for li, when in others:
            if when == 'before':
                h.call(lts[li], 1)
        # the early arrivals run as far as they can without loop A making progress
        for lt in lts[1:]:
            while w.step_thread(lt):
                pass
        if mode == 'timed':
            if stop_at > w.now:
                w.run_for(stop_at - w.now)
        else:
            for _ in range(stop_at):
                w.step_thread(A)
        if h.invs and h.invs[0].t_exit is None and A.state == 'iter':
            t_stop = w.now
            w.stop(A)
            if death == 'close':
                w.close_loop(A)
            elif death == 'drain':
                h.shutdown(A, close=True)
        else:
            t_stop = None   # computation over before the stop point: plain run
        base = w.now
        for delay in sorted(set(d for _, d in others if d != 'before')):
            if base + delay > w.now:
                w.run_for(base + delay - w.now)
            for li, when in others:
                if when == delay and lts[li].state != 'idle':
                    h.call(lts[li], 1)
        _finish(w, h, lts)
        for c in h.callers:
            if c.lt is not A and c.done and t_stop is not None and c.t_end > max(t_stop, c.t_start) + cc.SAFETY + 1:
                w.problem('SLOW: caller %r finished at t=%g, computing loop stopped at t=%g' % (c, c.t_end, t_stop))
    return sc


def caller_faults(plan, placement, fault, after=None):
    """placement: list of (loop index, arrival time); first is the computing caller on A at 0.
    fault = ('cancel', caller index, time) | ('timeout', caller index, T)"""
    def sc(w):
        lts = [w.thread(NAMES[i]) for i in range(3)]
        h = Harness(w, plan)
        w.log('G3 plan=%r placement=%r fault=%r' % (plan, placement, fault))
        for lt in lts:
            w.start(lt)
        evs = [(t, 0, i) for i, (_, t) in enumerate(placement)]
        if fault[0] == 'cancel':
            evs.append((fault[2], 1, fault[1]))
        for t, what, i in sorted(evs):
            if t > w.now:
                w.run_for(t - w.now)
            if what == 0:
                to = fault[2] if (fault[0] == 'timeout' and fault[1] == i) else None
                h.call(lts[placement[i][0]], 1, timeout=to)
            elif not h.callers[i].done:
                h.cancel(h.callers[i])
        _finish(w, h, lts)
        nfail = sum(1 for b in plan if b[1] == 'raise')
        for i, c in enumerate(h.callers):
            if i != fault[1] and c.done and c.t_end - c.t_start > 2 * (nfail + 2) + 0.001:
                w.problem('SLOW: undisturbed caller %r needed %g virtual seconds with 2 s computations '
                          '(invocations %r)' % (c, c.t_end - c.t_start, h.invs))
        if after is not None:
            after(w, h, lts)
    return sc


def long_computation(dur, placement):
    def sc(w):
        lts = [w.thread(NAMES[i]) for i in range(3)]
        h = Harness(w, [(dur, 'ret')])
        w.log('G4 dur=%r placement=%r' % (dur, placement))
        for lt in lts:
            w.start(lt)
        for t, i in sorted((t, i) for i, (_, t) in enumerate(placement)):
            if t > w.now:
                w.run_for(t - w.now)
            h.call(lts[placement[i][0]], 1)
        _finish(w, h, lts)
        for c in h.callers:
            if c.done and c.t_end != float(dur):
                w.problem('SLOW: caller %r finished at t=%g, the only computation ended at t=%g on a live loop'
                          % (c, c.t_end, dur))
    return sc


def source_level(conf, plan):
    def sc(w):
        lts = [w.thread(NAMES[i]) for i in range(len(conf))]
        h = Harness(w, plan, cache=HookedDict(), check_overlap=False)
        w.log('G5 callers per loop=%r plan=%r' % (conf, plan))
        for lt in lts:
            w.start(lt)
        for lt, n in zip(lts, conf):
            for _ in range(n):
                h.call(lt, 1)
        w.settle()
        _finish(w, h, lts, 300)
        if w.now != 0:
            w.problem('SLOW: zero-duration computations but callers only finished at t=%g' % w.now)
    return sc


def run(thorough):
    probs = []
    counts = {}
    orders = ([], [2, 1, 0])

    def both(sc, key):
        for order in orders:
            if probs:
                return
            probs.extend(run_scenario(sc, PrioChooser(order)))
            counts[key] = counts.get(key, 0) + 1

    # ---- G1
    full = {'call', 'tcall', 'stop', 'drain', 'close', 'release', 'fail', 'cancel', 'tick'}
    red = full - {'tcall', 'close'}
    L = 5 if thorough else 4
    for events, ln, ords in ((full, L, orders if thorough else orders[:1]), (red, L + 1, orders[:1])):
        if not cc.want('G1'):
            continue
        cfg = dict(nloops=3, max_len=ln, max_callers=3, events=events)
        for order in ords:
            def onp(seq, p):
                probs.extend('G1 priority=%r events=%r: %s' % (order, seq, x) for x in p)
            counts['G1'] = counts.get('G1', 0) + enumerate_histories(
                cfg, lambda w: Harness(w, [('gate', 'ret')]), onp, lambda: PrioChooser(order))
            if probs:
                return probs, counts

    # ---- G2
    other_sets = [[(1, 'before')], [(1, 0)], [(1, 10)], [(1, 70)], [(0, 'before'), (1, 'before')],
                  [(1, 'before'), (2, 'before')], [(1, 'before'), (2, 0)], [(1, 'before'), (1, 10)],
                  [(1, 'before'), (2, 70)]]
    if thorough:
        other_sets += [[(1, 'before'), (1, 'before')], [(0, 'before'), (1, 'before'), (2, 10)], [(1, 0), (2, 0)],
                       [(1, 'before'), (2, 'before'), (2, 70)]]
    for death in ('stop', 'close', 'drain'):
        if not cc.want('G2'):
            continue
        for others in other_sets:
            for pre, stop_at in itertools.product((0, 0.5, 1, 1.5), (0, 0.5, 1, 1.5, 2.5)):
                if stop_at < pre:
                    continue
                both(loop_death('timed', pre, stop_at, death, others), 'G2')
            for pre, stop_at in itertools.product((0, 1, 2, 3), (0, 1, 2, 3)):
                both(loop_death('yield', pre, stop_at, death, others), 'G2')
            if probs:
                return probs, counts

    # ---- G3
    plans = ([(2, 'ret')], [(2, 'raise'), (2, 'ret')])
    placements = [[(0, 0), (0, 0.5)], [(0, 0), (1, 0.5)], [(0, 0), (0, 0.5), (1, 0.5)], [(0, 0), (1, 0.5), (1, 1)],
                  [(0, 0), (1, 0.5), (2, 1)], [(0, 0), (1, 0), (0, 1)]]
    if thorough:
        placements += [[(0, 0), (1, 0), (2, 0)], [(0, 0), (0, 0), (0, 1)], [(0, 0), (1, 1), (1, 2.5)]]
    for plan in plans:
        if not cc.want('G3'):
            continue
        for pl in placements:
            for target in range(len(pl)):
                faults = [('cancel', target, t) for t in (0, 0.5, 1, 2, 2.5, 3, 4) if t >= pl[target][1]]
                faults += [('timeout', target, T) for T in (0.5, 1, 1.5, 2, 2.5)]
                for f in faults:
                    both(caller_faults(plan, pl, f), 'G3')
                if probs:
                    return probs, counts

    # ---- G4
    for dur in (61, 125):
        if not cc.want('G4'):
            continue
        for pl in ([(0, 0), (0, 0)], [(0, 0), (1, 0)], [(0, 0), (1, 30), (0, 59)], [(0, 0), (1, 60), (2, 61)],
                   [(0, 0), (0, 1), (1, 1)], [(0, 0), (1, 0), (2, 0)]):
            both(long_computation(dur, pl), 'G4')
        if probs:
            return probs, counts

    # ---- G5
    confs = [([1, 1], 3), ([2, 1], 3), ([1, 2], 2)] if thorough else [([1, 1], 2), ([2, 1], 1)]
    for conf, pb in confs:
        if not cc.want('G5'):
            continue
        for dur in (0, 'y'):
            for plan in ([(dur, 'ret')], [(dur, 'raise'), (dur, 'ret')]):
                sc = source_level(conf, plan)

                def one(ch):
                    p = run_scenario(sc, ch, fine=FINE, step_budget=20000)
                    probs.extend(p)
                    return p
                r, _ = explore(one, pb=pb, max_runs=5000)
                counts['G5'] = counts.get('G5', 0) + r
                if probs:
                    return probs, counts
    return probs, counts


def main(thorough):
    t0 = time.time()
    cc.KINDS[0] = C05_KINDS
    del cc.NOTES[:]
    probs, counts = run(thorough)
    print('C05 stand-in: %d scenario runs %r in %.1fs (bounded: 3 loops/threads, <=3 callers of one key, histories '
          'of <=%d events, loop death at each of 3 scheduling points, fault instants on a 0.5 s grid, '
          'source-point interleavings with <=%d preemptions; virtual time)'
          % (sum(counts.values()), counts, time.time() - t0, 6 if thorough else 5, 3 if thorough else 2))
    for p in probs[:3]:
        print('PROBLEM:', p)
    if cc.NOTES:
        print('NOTE: %d scenario(s) ended early on findings that are not C05 matters (see C01, C06), first: %s'
              % (len(cc.NOTES), cc.NOTES[0][:600]))
    return 1 if probs else 0
