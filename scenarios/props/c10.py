"""Bounded stand-in for C10 on the real AsyncBackgroundBatcher (virtual time, deterministic).

Every call has its own key (no de-duplication here, that is C11).  Checked on every run, all from the
statement, observing batch contents / start / end instants inside the harness-owned batch function:
 1 size: no empty batch; len(batch) <= the largest max_batch_size in force between the arrival of its first
   item and its start (the limit may be mutated while running: judged against the value in force when
   the items were added)
 2 concurrency: an occupancy counter incremented at the first step of the batch function and decremented
   in its `finally` (so it spans code after the last yield) never exceeds max_concurrent_batches
 3 order: the items of all batches, in the order the batches were started, are exactly the calls in
   arrival order (nothing lost, duplicated or overtaken)
 4 sharing: two consecutive arrivals less than batch_timeout (minus margin) apart are in the same batch
   unless the earlier one's batch was full (>= the smallest limit in force meanwhile)
 5 deadline: start(batch) <= max(last arrival in it + batch_timeout, instant a slot became free) + margin,
   the slot instant being computed from the observed ends of the earlier batches
 6 every caller gets the value yielded for its key

BOUNDED: batch_timeout 1.0; gaps {0, next tick, .25, .5, .75, 1.25, 1.5, 2.5, 3.5}; max_batch_size 1..5
(family M: changed once or twice while running), max_concurrent_batches 1..3; batch durations
pre 0..3.5, per item 0/.25, after the last yield 0..2.5.
 E exhaustive: all gap sequences of <=4 (thorough 5) calls x sizes x slots x 4 duration profiles
 R pseudo-random (fixed seed) 5..12 calls
 M max_batch_size lowered / raised at instants off the arrival grid (exhaustive small + random)
"""
import itertools
import random
import time

from scenarios.props._batcher_common import EPS, TICK, TICK2, Call, Spec, run_program, judge

BT = 1.0
INF = float('inf')


def cfg(mbs, mcb):
    return dict(max_batch_size=mbs, max_concurrent_batches=mcb, batch_timeout=BT, retention_timeout=0.0)


def in_force(hist, t0, t1):
    """max_batch_size values in force at some instant of [t0, t1] (with margin)."""
    vals = []
    for n, (T, v) in enumerate(hist):
        nxt = hist[n + 1][0] if n + 1 < len(hist) else INF
        if T <= t1 + EPS and nxt >= t0 - EPS:
            vals.append(v)
    return vals


def check(res):
    probs = judge(res)                                    # 6 (+ item sanity)
    outs, hist, mcb = res.outs, res.mbs_hist, res.cfg['max_concurrent_batches']
    BT = res.cfg['batch_timeout']
    order = sorted(range(len(res.calls)), key=lambda i: outs[i].seq)
    seen = []
    batch_of = {}
    for b in res.batches:
        idxs = [a.idx for _, a in b.items]
        seen += idxs
        for i in idxs:
            batch_of[i] = b
        if not idxs:
            probs.append('batch %r is EMPTY' % b)
            continue
        t_first = min(outs[i].t_arrive for i in idxs)
        lim = max(in_force(hist, t_first, b.start))
        if len(idxs) > lim:                               # 1
            probs.append('batch %r has %d items, max_batch_size in force while it was filled: %s'
                         % (b, len(idxs), in_force(hist, t_first, b.start)))
        if b.occ > mcb:                                   # 2
            probs.append('batch %r started while %d executions were already in progress '
                         '(max_concurrent_batches=%d)' % (b, b.occ - 1, mcb))
    if seen != order:                                     # 3
        probs.append('items reached the batch function in order %r, calls arrived in order %r' % (seen, order))
    for x, y in zip(order, order[1:]):                    # 4
        bx, by = batch_of.get(x), batch_of.get(y)
        if bx is None or by is None or bx is by:
            continue
        if outs[y].t_arrive - outs[x].t_arrive < BT - EPS:
            t_first = min(outs[a.idx].t_arrive for _, a in bx.items)
            if len(bx.items) < min(in_force(hist, t_first, outs[y].t_arrive)):
                probs.append('calls %d@%g and %d@%g arrived %g < batch_timeout apart but are in different batches '
                             '%r / %r although the first was not full' % (x, outs[x].t_arrive, y, outs[y].t_arrive,
                                                                         outs[y].t_arrive - outs[x].t_arrive, bx, by))
    ends = []                                             # 5
    prev_start = 0.0
    for b in res.batches:
        if b.items:
            ready = max(outs[a.idx].t_arrive for _, a in b.items) + BT
            free = sorted(ends, reverse=True)[mcb - 1] if len(ends) >= mcb else -INF
            bound = max(ready, free, prev_start)
            if b.start > bound + EPS:
                probs.append('batch %r started @%g, later than last arrival + batch_timeout = %g and than the '
                             'instant a slot was free = %g' % (b, b.start, ready, free))
        prev_start = b.start
        ends.append(b.end if b.end is not None else INF)
    return probs


PATTERNS = [
    [0, 0, 0, 0, 0, 0],
    [0, 0.5, 0.5, 0.5, 0.5, 0.5],
    [0, 0, 0, 0.75, 0, 0, 0.75, 0],
    [0, TICK, 0, 0.25, 0.25, 1.25, 0, 0],
]


def programs(thorough):
    G = (0, TICK, 0.5, 0.75, 1.25, 2.5)
    profiles = [(0.0, 0.0, 0.0), (0.5, 0.0, 0.0), (2.5, 0.0, 0.0), (0.5, 0.0, 1.0)]
    sizes = (1, 2, 3, 4, 5) if thorough else (1, 2, 3)
    slots = (1, 2, 3) if thorough else (1, 2)
    for n in range(1, (5 if thorough else 4) + 1):
        for gaps in itertools.product(G, repeat=n - 1):
            for mbs in sizes:
                for mcb in slots:
                    for d in profiles:
                        calls = [Call(0 if i == 0 else gaps[i - 1], 'k%d' % i) for i in range(n)]
                        yield 'E', cfg(mbs, mcb), calls, Spec({}, 'fwd', *d), (), True
    # M: mutation of max_batch_size while running
    for pat in PATTERNS:
        calls = [Call(g, 'k%d' % i) for i, g in enumerate(pat)]
        for m0 in (1, 2, 3, 4):
            for m1 in (1, 2, 3, 5):
                if m0 == m1:
                    continue
                for T in (0.125, 0.625, 1.125, 1.625, 2.125):
                    for mcb in (1, 2):
                        for d in ((0.0, 0.0, 0.0), (1.5, 0.0, 0.5)):
                            yield 'M', cfg(m0, mcb), calls, Spec({}, 'fwd', *d), ((T, m1),), True
    rnd = random.Random(1010 + thorough)
    gd = (0, 0, 0, TICK, TICK2, 0.25, 0.5, 0.75, 0.75, 1.25, 1.5, 2.5, 3.5)
    for n in range(120000 if thorough else 6000):
        k = rnd.randint(5, 12)
        calls = [Call(0 if i == 0 else rnd.choice(gd), 'k%d' % i, explicit=rnd.random() < 0.7) for i in range(k)]
        sp = Spec({}, rnd.choice(('fwd', 'rev', 'shuf')), rnd.choice((0.0, 0.5, 1.5, 2.5, 3.5)),
                  rnd.choice((0.0, 0.0, 0.25)), rnd.choice((0.0, 0.0, 0.5, 1.0, 2.5)))
        muts = ()
        if n % 4 == 0:
            muts = tuple(sorted((rnd.choice((0.125, 0.625, 1.125, 1.625, 2.125, 3.125, 4.625)), rnd.randint(1, 5))
                                for _ in range(rnd.randint(1, 2))))
            if len(muts) == 2 and muts[0][0] == muts[1][0]:
                muts = muts[:1]
        yield ('M' if muts else 'R'), cfg(rnd.randint(1, 5), rnd.randint(1, 3)), calls, sp, muts, rnd.random() < 0.7


def main(thorough):
    t0 = time.time()
    runs, failing, per = 0, 0, {}
    for fam, cf, calls, sp, muts, settle in programs(thorough):
        runs += 1
        per[fam] = per.get(fam, 0) + 1
        res = run_program(cf, calls, sp, mutations=muts, settle=settle)
        probs = check(res)
        if probs:
            failing += 1
            if failing <= 3:
                print('PROBLEM: [family %s] %s%s -> %s || observed: batches (id@start[items]) %r ends %r'
                      % (fam, res.describe(),
                         '; max_batch_size set ' + ', '.join('to %d @%g' % (v, T) for T, v in muts) if muts else '',
                         ' | '.join(probs[:4]), res.batches, [b.end for b in res.batches]))
            if failing >= 25:
                break
    print('C10 stand-in: %d timed programs run (%s), %d violating, %.1fs (bounded: <=12 calls, gaps 0/tick/.25..3.5 '
          'around batch_timeout 1.0, max_batch_size 1..5 also mutated while running, max_concurrent_batches 1..3, '
          'batch durations 0..3.5 + up to 2.5 after the last yield)'
          % (runs, ', '.join('%s:%d' % kv for kv in sorted(per.items())), failing, time.time() - t0))
    return 1 if failing else 0
