"""Bounded stand-in for C07 on the real code (virtual time): wait() is a true barrier and always returns;
cancelling the buffer's background task terminates it.

Oracle (from the property statement):
  * at the instant a wait() returns, every element of every submission whose call had returned (in any
    thread) before that wait() was called is in a call of the wrapped function that returned without raising;
  * every wait() returns within a bounded virtual time (the horizon by which a correct buffer is certainly
    done: all producers finished, one quiet period + call per raising invocation, plus slack) -- also with
    empty / failing / slow producers, cancel=True and cancel=False, several waiters at once;
  * after ``buf._waiting.cancel()`` (what loop shutdown does) the task is done within CLOSE_BOUND virtual
    seconds / the iteration budget, and ``vt.run(main())`` (asyncio.run's cancel-all shutdown) returns, at
    whatever instant main() ends.

BOUNDED domain:
  W  timed programs on the loop thread: 1..3 submissions and 1..3 wait()s at instants of the grid
     {0,.25,.5,.875,1,1.125,1.5,2,2.125,2.5,3,3.5} x timeout (before / at / after the quiet timer, while
     collecting, while the function runs, after a raising invocation), cancel in {True, False}, function durations
     {none,.5,1.5} x timeout, raising invocations {}, {0}, {0,1}; producers plain / empty / failing / slow;
     plus the seeded 8-submission programs of C03 with up to 3 waits;
  S  shutdown at every instant of a grid (and after 0..4 loop iterations at t=0) of 14 programs: idle,
     collecting, function running, waiting to retry, loading a slow producer (first of batch / arriving later),
     iterator producer, pending waiters; both ``task.cancel()`` and ``vt.run``;
  P  a REAL foreign thread doing submit-then-``asyncio.run(buf.wait_from_anywhere(cancel))``, parked before each of
     its operations on the shared objects (event.clear, call_soon_threadsafe; before/after) for 0, timeout/2,
     several timeouts of loop activity (optionally with a loop-thread flush during the park);
  I  a foreign thread's submission run to completion at the i-th loop-thread operation on the shared objects,
     immediately followed by a loop-thread wait() (the barrier then has to cover the foreign argument).
"""
import asyncio
import itertools
import random
import time

from scenarios import vt
from scenarios.props import _buffer_common as bc
from scenarios.props._buffer_common import catalogue, GAPS, Ctx, Stop, f_bases

GRID = (0, 0.25, 0.5, 0.875, 1, 1.125, 1.5, 2, 2.125, 2.5, 3, 3.5)     # x timeout


def run_timed(ctx, fam, T, actions, durations=(), fails=(), default_dur=None):
    ctx.count(fam)
    H = bc.default_horizon(T, actions, durations, fails, default_dur)
    w = bc.World(T, durations=durations, fails=fails, default_dur=default_dur)
    where = 'timeout=%g, program {%s}, %s' % (T, bc.fmt_actions(actions), bc.fmt_func(durations, fails, default_dur))
    try:
        try:
            w.run(w.drive(actions, H))
        except bc.BudgetExceeded as e:
            # the loop span without ever reaching the horizon: a verdict only if a wait() is stuck / wrong
            probs = bc.wait_problems(w, where + ' [loop never reached the horizon: %s]' % e, w.loop.time())
            if not probs:
                raise
            ctx.report(probs)
        probs = bc.wait_problems(w, where, H)
        survivors = w.close()
        if w.daemon.get_name() in survivors or not w.daemon.done():
            probs.append('%s: the background task was still pending after shutdown (cancel + %g virtual s) at t=%g'
                         % (where, bc.CLOSE_BOUND, H))
    finally:
        w.close()
    ctx.report(probs)


# ------------------------------------------------------------------------------------------ W

def family_W(ctx, thorough, T):
    cfgs = [((), None), ((), 0.5 * T), ((), 1.5 * T), ((0,), None), ((0,), 0.5 * T), ((0, 1), 1.5 * T)]
    sub_times = (0, 0.5, 1, 1.125, 1.5, 2.5)
    # W1: two plain submissions, one wait anywhere on the grid
    for s2 in sub_times:
        for wt in GRID:
            for c in (True, False):
                for fails, dur in cfgs:
                    acts = sorted([(0, 'call', 'a'), (s2 * T, 'call', 'b'), (wt * T, 'wait', c)],
                                  key=lambda a: a[0])
                    run_timed(ctx, 'W1', T, acts, fails=fails, default_dur=dur)
    # W2: several concurrent waiters (mixed cancel), submissions in between
    wgrid = GRID if thorough else (0, 0.5, 1, 1.125, 2, 2.5)
    for s2 in ((0.5, 1.125, 2.5) if not thorough else sub_times):
        for w1, w2 in itertools.combinations_with_replacement(wgrid, 2):
            for c1, c2 in itertools.product((True, False), repeat=2):
                for fails, dur in ((cfgs[1], cfgs[5]) if not thorough else cfgs):
                    acts = sorted([(0, 'call', 'a'), (s2 * T, 'call', 'b'), (w1 * T, 'wait', c1),
                                   (w2 * T, 'wait', c2), ((w2 + 0.25) * T, 'call', 'c'),
                                   ((w2 + 0.5) * T, 'wait', not c2)], key=lambda a: a[0])
                    run_timed(ctx, 'W2', T, acts, fails=fails, default_dur=dur)
    # W3: one producer of every catalogue kind (empty / failing / slow ...) +- a plain one, wait on the grid
    cat = catalogue(T, thorough)
    for n in cat:
        for other in (None, 0, 0.5, 1.125):
            for wt in ((0, 0.5, 1, 1.125, 2, 3) if not thorough else GRID):
                for c in (True, False):
                    for fails, dur in ((cfgs[0], cfgs[4]) if not thorough else cfgs):
                        acts = [(0, ) + cat[n]('p'), (wt * T, 'wait', c)]
                        if other is not None:
                            acts.append((other * T, 'call', 'x'))
                        acts.sort(key=lambda a: a[0])
                        run_timed(ctx, 'W3', T, acts, fails=fails, default_dur=dur)
    # W4: wait() with nothing ever submitted, and only-empty / only-failing producers
    for c in (True, False):
        run_timed(ctx, 'W4', T, [(0, 'wait', c)])
        run_timed(ctx, 'W4', T, [(0, 'map', 'list', (), None), (0, 'amap', (), None, None),
                                 (0, 'await', 'x', 0.5 * T, True), (0.25 * T, 'wait', c), (3 * T, 'wait', c)])
    # W8: seeded long programs
    names = list(catalogue(T, True))
    full = catalogue(T, True)
    for seed in range(1500 if thorough else 150):
        rnd = random.Random(1000 + seed)
        t = 0
        acts = []
        for i in range(8):
            t += rnd.choice(GAPS) * T
            acts.append((t, ) + full[rnd.choice(names)]('s%d_' % i))
        for _ in range(1 + rnd.randrange(3)):
            acts.append((rnd.choice(GRID + (4.5, 6)) * T, 'wait', rnd.random() < 0.5))
        acts.sort(key=lambda a: a[0])
        fails = tuple(i for i in range(6) if rnd.random() < 0.3)
        durs = tuple(rnd.choice((None, 0.5 * T, 1.5 * T)) for _ in range(7))
        run_timed(ctx, 'W8', T, acts, durations=durs, fails=fails)


# ------------------------------------------------------------------------------------------ S

def shutdown_programs(T):
    return [
        ('nothing submitted', [], (), None),
        ('one argument, function returns at once', [(0, 'call', 'a')], (), None),
        ('one argument, function runs .5', [(0, 'call', 'a')], (), 0.5 * T),
        ('one argument, function runs 5', [(0, 'call', 'a')], (), 5 * T),
        ('function raises on invocations 0,1 (waiting to retry)', [(0, 'call', 'a')], (0, 1), 0.25 * T),
        ('arguments keep arriving', [(0, 'call', 'a'), (0.5 * T, 'call', 'b'), (1.25 * T, 'call', 'c'),
                                     (2.125 * T, 'map', 'list', ('d', 'e'), None)], (), 0.5 * T),
        ('slow async producer first of a batch', [(0, 'amap', ((0.5 * T, 'a'), (2 * T, 'b')), None, None)], (), 0.5 * T),
        ('slow async producer arriving while collecting',
         [(0, 'call', 'a'), (0.5 * T, 'amap', ((0.25 * T, 'b'), (2 * T, 'c')), None, None)], (), 0.5 * T),
        ('slow awaitable + already queued ones', [(0, 'await', 'a', 1.5 * T, False), (0, 'call', 'b'),
                                                  (0, 'amap', ((1.125 * T, 'c'),), 1, 1 * T)], (), None),
        ('iterator producer (worker thread)', [(0, 'map', 'iterator', ('a', 'b'), None), (0.5 * T, 'call', 'c')], (), 0.5 * T),
        ('pending wait(cancel=False)', [(0, 'call', 'a'), (0.25 * T, 'wait', False)], (), 0.5 * T),
        ('pending wait(cancel=True) while the function runs', [(0, 'call', 'a'), (0.25 * T, 'wait', True)], (), 5 * T),
        ('wait(cancel=True) + raising function', [(0, 'call', 'a'), (0.5 * T, 'wait', True), (0.5 * T, 'wait', False)],
         (0,), 0.5 * T),
        ('only empty producers', [(0, 'map', 'list', (), None), (0, 'amap', (), None, None)], (), None),
    ]


def state_of(w):
    if w.active:
        return 'function running'
    g = w.buf._getting
    if g is not None and not g.done():
        return 'collecting, quiet timer armed'
    if any(s['expected'] for s in w.subs) and not w.ok_args() >= set(x for s in w.subs for x in s['expected']):
        return 'loading producers / between rounds'
    return 'idle'


def run_shutdown(ctx, T, prog, stop, mode):
    name, actions, fails, dur = prog
    ctx.count('S')
    w = bc.World(T, fails=fails, default_dur=dur)
    loop = w.loop
    probs = []
    kind, val = stop

    async def main():
        if kind == 'iters':
            await w.drive([a for a in actions if a[0] <= 0])
            for _ in range(val):
                await asyncio.sleep(0)
        else:
            await w.drive([a for a in actions if a[0] <= val], val)

    where = 'timeout=%g, program {%s} (%s), %s, main() ending %s' % (
        T, bc.fmt_actions(actions), name, bc.fmt_func((), fails, dur),
        'after %d loop iterations at t=0' % val if kind == 'iters' else 'at t=%g' % val)
    try:
        if mode == 'cancel':
            w.run(main())
            st = state_of(w)
            task = w.daemon
            it0 = loop._bc_iters
            if task.done():
                probs.append('%s: the background task ended on its own (%r) in state [%s]' % (where, task, st))
            else:
                task.cancel()
                try:
                    loop.run_until_complete(asyncio.wait([task], timeout=bc.CLOSE_BOUND))
                    why = 'within %g virtual s (%d loop iterations)' % (bc.CLOSE_BOUND, loop._bc_iters - it0)
                except bc.BudgetExceeded as e:
                    why = '(%s)' % e
                except vt.VirtualDeadlock as e:
                    why = '(loop went idle for ever: %s)' % e
                if not task.done():
                    probs.append('%s: buf._waiting.cancel() in state [%s] did not terminate the background task %s; '
                                 'calls=%s' % (where, st, why, bc.fmt_calls(w.calls)))
        else:
            st = '?'
            try:
                async def main2():
                    nonlocal st
                    await main()
                    st = state_of(w)
                vt.run(main2(), loop=loop)
            except (bc.BudgetExceeded, vt.VirtualDeadlock) as e:
                probs.append('%s: vt.run(main()) (cancel-all shutdown like asyncio.run) did not return, state at the '
                             'end of main() [%s]: %s; background task %r; calls=%s'
                             % (where, st, e, w.daemon, bc.fmt_calls(w.calls)))
            else:
                if not w.daemon.done():
                    probs.append('%s: vt.run(main()) returned but the background task is still pending' % where)
            asyncio.set_event_loop(loop)
    finally:
        w.close()
    ctx.report(probs)


def family_S(ctx, thorough, T):
    stops = [('iters', k) for k in range(5)] + [('t', g * T) for g in
                                                (0.25, 0.5, 0.875, 1, 1.125, 1.25, 1.5, 2, 2.125, 2.5, 3, 3.5, 6.5)]
    for prog in shutdown_programs(T):
        for stop in stops:
            for mode in ('cancel', 'vtrun'):
                run_shutdown(ctx, T, prog, stop, mode)


# ------------------------------------------------------------------------------------------ P

def family_P(ctx, thorough, T):
    fact_sets = [[('call', 'F0')], [('map', 'list', ('F0', 'F1'), None), ('call', 'F2')]]
    if thorough:
        fact_sets.append([('amap', ((None, 'F0'), (1.5 * T, 'F1')), None, None)])
    for facts in fact_sets:
        n_ops = 4 * len(facts) + 2
        for park in [None] + list(range(n_ops + 1)):
            for span in (0, 0.5 * T, 4 * T):
                for own in ((), (('call', 'own0'),)):
                    for flush in (False, True):
                        for cancel in (True, False):
                            for dur, fails in ((None, ()), (0.5 * T, (0,))):
                                ctx.count('P')
                                w, info = bc.run_parked(T, facts, park, span, own_before=own, flush_during_park=flush,
                                                        foreign_wait=cancel, dur=dur, fails=fails)
                                try:
                                    where = ('timeout=%g, foreign thread doing %r then asyncio.run(buf.wait_from_anywhere('
                                             'cancel=%s)), parked at its operation #%r (%s) for %g virtual s; loop thread '
                                             'submitted %r before%s; %s' % (
                                                 T, facts, cancel, park, info['ctl'].parked_at, span, own,
                                                 ' and flushed with wait(cancel=True) during the park' if flush else '',
                                                 bc.fmt_func((), fails, dur)))
                                    probs = bc.wait_problems(w, where, info['horizon'])
                                    if info['wait_timed_out'] and not probs:
                                        raise bc.HarnessError('foreign wait timed out but is recorded as returned')
                                finally:
                                    w.close()
                                ctx.report(probs)


# ------------------------------------------------------------------------------------------ I

def run_injected_wait(ctx, T, base, idx, cancel):
    name, own, fails, dur = base
    ctx.count('I')
    H = bc.default_horizon(T, own, (), fails, dur, extra_rounds=4)
    w = bc.World(T, fails=fails, default_dur=dur, hooks=True)
    try:
        def inject():
            w.foreign_submit_now(('call', 'F0'), 'foreign')
            w.spawn_wait(cancel)
        if idx is not None:
            w.hooks.inject[idx] = [inject]
        w.run(w.drive(own, H))
        n_ops = w.hooks.n
        fired = w.hooks.fired
        where = ('timeout=%g, loop thread {%s}, %s; a foreign thread ran buf(\'F0\') to completion at loop operation '
                 '#%r (%s) and the loop thread then called wait(cancel=%s)' % (
                     T, bc.fmt_actions(own), bc.fmt_func((), fails, dur), idx,
                     ' '.join(fired[0][:0:-1]) if fired else 'not reached', cancel))
        probs = bc.wait_problems(w, where, H)
    finally:
        w.close()
    ctx.report(probs)
    return n_ops


def family_I(ctx, thorough, T):
    for base in f_bases(T):
        n0 = run_injected_wait(ctx, T, base, None, True)
        for i in range(n0):
            for cancel in (True, False):
                run_injected_wait(ctx, T, base, i, cancel)


# ------------------------------------------------------------------------------------------ main

def run(thorough):
    ctx = Ctx()
    try:
        for T in ((1.0, 0.25) if thorough else (1.0,)):
            family_S(ctx, thorough, T)
            family_P(ctx, thorough, T)
            family_I(ctx, thorough, T)
            family_W(ctx, thorough, T)
    except Stop:
        pass
    return ctx


def main(thorough):
    t0 = time.time()
    with bc.deterministic_gc():
        ctx = run(thorough)
    for p in ctx.probs[:3]:
        print('PROBLEM:', p)
    print('C07 stand-in: %d scenario runs %s, %.1fs (bounded: <=3 submissions + <=3 waits on the grid %s x timeout, '
          'cancel True/False, function durations {0,.5,1.5} x timeout, raising invocations {},{0},{0,1}, every producer '
          'kind of the C03 catalogue, seeded 8-submission programs; shutdown of 14 programs at 18 instants x '
          '{task.cancel, vt.run}; 1 foreign submit-then-wait_from_anywhere thread parked at each of its operations; '
          'foreign submission + loop wait at every loop-thread operation point; timeouts %s)'
          % (ctx.runs, dict(sorted(ctx.per.items())), time.time() - t0, list(GRID),
             [1.0, 0.25] if thorough else [1.0]))
    return 1 if ctx.probs else 0
