"""Bounded stand-in for C17 (ensure_aw / run_aw_threadsafe / loop_in_thread / _get_loop_lock), REAL threads.

Oracle (from the property statement):
  * every caller gets exactly (identity) the result or exception of its awaitable;
  * the awaitable is evaluated on the TARGET loop (asyncio.get_running_loop() recorded inside it) whether the
    target is the caller's own loop, runs in another thread (loop_in_thread) or is idle; closed target -> RuntimeError;
  * a loop is never inside run_forever/run_until_complete in two threads at once (counted by a loop subclass), and all
    callers are handed the SAME per-loop lock object;
  * loop_in_thread returns only once loop.is_running(); its stop function returns only once the loop has stopped;
  * every ensure_aw call completes when its awaitable does (bounded wait HANG; not completing is a violation).

BOUNDED: groups
  G1 one caller x target {own, in-thread, idle} x helper {ensure_aw, run_aw_threadsafe where applicable}
     x awaitable {coroutine, future, task} x {returns, raises} x delay grid; closed target;
  G2 all sequences of length 2 (quick) / 3 (thorough) on ONE idle loop of steps {coroutine, future, task} x {returns,
     raises} + a loop_in_thread start/use/stop step (the per-loop lock must be free again after every step);
  G3 2..3 callers, each with its own loop, racing on one idle loop (fresh: all parked at their first MISS in the lock
     table; used: all parked at their first hit) x awaitable kinds x outcomes; the first runner holds the loop until
     every other caller waits at the lock or has (wrongly) entered the loop, then one more sequential call;
  G4 2..3 concurrent callers on a loop running via loop_in_thread, and on a loop that is one caller's own;
  G5 loop_in_thread with a parked start-up / a parked stop; loop_in_thread requested while ensure_aw runs the loop.
Every interleaving is forced with rendez-vous (Barrier/Event with bounded waits), never with sleeps.
KNOWN LIMITATION not constructed (known finding D8): a second caller that finds the target `is_running()` only
because another caller's run_until_complete is about to return can hang; concurrent callers on an idle loop are
therefore always held back until all of them are past the is_running() check (KNOWN_SUBCASES stays empty).

Instruments (restored afterwards): aiuti.asyncio._LOOP_LOCKS (dict subclass that parks), aiuti.asyncio.Lock (counts
waiters), aiuti.asyncio._get_loop_lock (records the returned object), target loops of a counting loop subclass.
"""
import asyncio as aio
import faulthandler
import gc
import itertools
import os
import sys
import threading
import time
import warnings

import aiuti.asyncio as mod

HANG = 8.0           # a call that has not completed after this long is reported (the statement demands completion)
RDV = 6.0            # rendez-vous bound
SCENARIO_LIMIT = 90  # watchdog per scenario -> harness error, exit 3
KNOWN_SUBCASES = ()  # D8 race deliberately not constructed

_state = {'hung': False, 'park_ok': True, 'notes': []}


class HarnessError(Exception):
    pass


class Boom(Exception):
    pass


class _Val:
    def __init__(self, name):
        self.name = name

    def __repr__(self):
        return '<%s>' % self.name


class Watchdog:
    def __init__(self):
        self.deadline = time.monotonic() + SCENARIO_LIMIT
        self.what = 'start'
        self.stop = threading.Event()
        self.t = threading.Thread(target=self._run, name='c17-watchdog', daemon=True)
        self.t.start()

    def kick(self, what):
        self.what = what
        self.deadline = time.monotonic() + SCENARIO_LIMIT

    def _run(self):
        while not self.stop.wait(0.5):
            if time.monotonic() > self.deadline:
                sys.stdout.flush()
                sys.stderr.write('HARNESS ERROR: scenario %r exceeded %ds\n' % (self.what, SCENARIO_LIMIT))
                faulthandler.dump_traceback(file=sys.stderr)
                sys.stderr.flush()
                os._exit(3)


# --------------------------------------------------------------------------- instruments
class TrackingLoop(aio.SelectorEventLoop):
    """Counts the threads that are inside run_forever / run_until_complete of this loop."""

    def __init__(self):
        super().__init__()
        self.tr_cond = threading.Condition()
        self.tr_runners = {}
        self.tr_threads = set()
        self.tr_max = 0
        self.tr_overlaps = []
        self.tr_forever_entries = 0
        self.tr_entries = 0
        self.tr_start_gate = None     # (entered Event, go Event): parks the next outermost run_forever before it runs

    def _tr_enter(self, what):
        tid = threading.get_ident()
        with self.tr_cond:
            d = self.tr_runners.get(tid, 0)
            self.tr_runners[tid] = d + 1
            if d == 0:
                self.tr_threads.add(tid)
                self.tr_entries += 1
                if what == 'run_forever':
                    self.tr_forever_entries += 1
                if len(self.tr_runners) > self.tr_max:
                    self.tr_max = len(self.tr_runners)
                if len(self.tr_runners) > 1:
                    self.tr_overlaps.append('%s entered by thread %s while thread(s) %s were inside'
                                            % (what, tid, sorted(t for t in self.tr_runners if t != tid)))
            self.tr_cond.notify_all()
        return d == 0

    def _tr_exit(self):
        tid = threading.get_ident()
        with self.tr_cond:
            d = self.tr_runners[tid] - 1
            if d:
                self.tr_runners[tid] = d
            else:
                del self.tr_runners[tid]
            self.tr_cond.notify_all()

    def run_forever(self):
        outer = self._tr_enter('run_forever')
        try:
            gate = self.tr_start_gate
            if outer and gate is not None:
                self.tr_start_gate = None
                gate[0].set()
                gate[1].wait(RDV)
            return super().run_forever()
        finally:
            self._tr_exit()

    def run_until_complete(self, future):
        self._tr_enter('run_until_complete')
        try:
            return super().run_until_complete(future)
        finally:
            self._tr_exit()

    def wait_forever_entries(self, n, timeout):
        with self.tr_cond:
            return self.tr_cond.wait_for(lambda: self.tr_forever_entries >= n, timeout)


class TrackedLock:
    """threading.Lock look-alike that knows how many threads are waiting for it."""
    _meta = threading.Lock()

    def __init__(self):
        self._l = threading.Lock()
        self.waiting = 0

    def acquire(self, blocking=True, timeout=-1):
        with TrackedLock._meta:
            self.waiting += 1
        try:
            return self._l.acquire(blocking, timeout)
        finally:
            with TrackedLock._meta:
                self.waiting -= 1

    def release(self):
        self._l.release()

    def locked(self):
        return self._l.locked()

    def __enter__(self):
        return self.acquire()

    def __exit__(self, *a):
        self.release()


class ParkingLocks(dict):
    """Lock table: records every lock stored per key; parks each thread's first look-up of an armed key
    (after a miss as well as after a hit) at a barrier until all expected threads have looked up."""

    def __init__(self):
        super().__init__()
        self.created = {}
        self.park_key = None
        self.barrier = None
        self.parked = set()
        self.meta = threading.Lock()

    def arm(self, key, n):
        with self.meta:
            self.park_key = key
            self.barrier = threading.Barrier(n)
            self.parked = set()

    def disarm(self):
        with self.meta:
            b = self.barrier
            self.park_key = None
            self.barrier = None
        if b is not None:
            b.abort()

    def _park(self, key):
        with self.meta:
            b = self.barrier
            tid = threading.get_ident()
            if b is None or key != self.park_key or tid in self.parked:
                return
            self.parked.add(tid)
        try:
            b.wait(RDV)
        except threading.BrokenBarrierError:
            _state['park_ok'] = False

    def __getitem__(self, key):
        try:
            v = super().__getitem__(key)
        except KeyError:
            self._park(key)
            raise
        self._park(key)
        return v

    def get(self, key, default=None):
        v = super().get(key, default)
        self._park(key)
        return v

    def __contains__(self, key):
        found = super().__contains__(key)
        self._park(key)
        return found

    def setdefault(self, key, default=None):
        if not super().__contains__(key):
            self._park(key)
            self.created.setdefault(key, []).append(default)
        return super().setdefault(key, default)

    def __setitem__(self, key, value):
        self.created.setdefault(key, []).append(value)
        super().__setitem__(key, value)


class Instr:
    def __init__(self):
        self.locks = ParkingLocks()
        self.handed = {}    # id(loop) -> [lock objects returned by _get_loop_lock]
        self.saved = None

    def install(self):
        self.saved = (mod._LOOP_LOCKS, mod.Lock, mod._get_loop_lock)
        orig = mod._get_loop_lock
        handed = self.handed

        def recording_get_loop_lock(loop):
            lk = orig(loop)
            handed.setdefault(id(loop), []).append(lk)
            return lk
        mod._LOOP_LOCKS = self.locks
        mod.Lock = TrackedLock
        mod._get_loop_lock = recording_get_loop_lock

    def restore(self):
        mod._LOOP_LOCKS, mod.Lock, mod._get_loop_lock = self.saved

    def waiting_on(self, loop):
        return sum(getattr(lk, 'waiting', 0) for lk in self.locks.created.get(id(loop), ()))


# --------------------------------------------------------------------------- awaitables
class Spec:
    """What one awaitable does: kind coroutine/future/task, returns val or raises exc, delay None/number."""

    def __init__(self, kind, raises, delay, tag):
        self.kind = kind
        self.raises = raises
        self.delay = delay
        self.tag = tag
        self.val = _Val('result-' + tag)
        self.exc = Boom('failure-' + tag) if raises else None
        self.rec = {}
        self.hold = None   # optional async callable awaited inside, before finishing

    def __repr__(self):
        return '%s(%s,%s)' % (self.kind, 'raises' if self.raises else 'returns',
                              'no suspension' if self.delay is None else 'sleep %g' % self.delay)

    def expected(self):
        return ('exc', self.exc) if self.raises else ('ret', self.val)

    async def _work(self):
        rec = self.rec
        rec['loop'] = aio.get_running_loop()
        rec['tid'] = threading.get_ident()
        rec['started'] = True
        if self.hold is not None:
            await self.hold()
        if self.delay is not None:
            await aio.sleep(self.delay)
        rec['finished'] = True
        if self.raises:
            raise self.exc
        return self.val

    def build(self, loop):
        """Create the awaitable for `loop`; must be called on the loop's thread or while the loop is idle."""
        if self.kind == 'coroutine':
            return self._work()
        if self.kind == 'task':
            return loop.create_task(self._work())
        if self.kind == 'future':
            fut = loop.create_future()

            async def drive():
                try:
                    fut.set_result(await self._work())
                except BaseException as e:  # noqa
                    fut.set_exception(e)
            self.rec['driver'] = loop.create_task(drive())
            return fut
        raise HarnessError('kind ' + self.kind)

    def build_on_running(self, loop):
        """Create the awaitable inside a loop that runs in another thread."""
        async def make():
            return self.build(loop)
        return aio.run_coroutine_threadsafe(make(), loop).result(RDV)


def outcome_ok(spec, out):
    exp = spec.expected()
    return out is not None and out[0] == exp[0] and out[1] is exp[1]


class Caller(threading.Thread):
    """A caller thread with its own loop running `fn(own_loop)` (a coroutine function) to completion."""

    def __init__(self, name, fn, own_loop=None):
        super().__init__(name='c17-' + name, daemon=True)
        self.fn = fn
        self.own = own_loop
        self.out = None
        self.done = threading.Event()
        self.harness = None

    def run(self):
        try:
            own = self.own or aio.new_event_loop()
            try:
                try:
                    self.out = ('ret', own.run_until_complete(self.fn(own)))
                except BaseException as e:  # noqa
                    self.out = ('exc', e)
            finally:
                if self.own is None:
                    own.close()
        except BaseException as e:  # noqa
            self.harness = e
        finally:
            self.done.set()

    def finish(self, timeout=HANG):
        ok = self.done.wait(timeout)
        if not ok:
            _state['hung'] = True
        if self.harness is not None:
            raise HarnessError('caller %s: %r' % (self.name, self.harness))
        return ok


def check_spec(desc, spec, out, target, probs, completed=True):
    if not completed:
        probs.append('%s: call with %r did not complete within %gs (awaitable started: %s, finished: %s)'
                     % (desc, spec, HANG, spec.rec.get('started', False), spec.rec.get('finished', False)))
        return
    if not outcome_ok(spec, out):
        probs.append('%s: caller of %r got %r, expected exactly %r' % (desc, spec, out, spec.expected()))
    if spec.rec.get('started') and spec.rec.get('loop') is not target:
        probs.append('%s: %r was evaluated on loop %r, not on the target loop' % (desc, spec, spec.rec.get('loop')))
    if not spec.rec.get('finished'):
        probs.append('%s: caller of %r got an outcome although the awaitable never finished' % (desc, spec))


def check_loop(desc, ins, target, probs):
    if target.tr_max > 1:
        probs.append('%s: the target loop was run by %d threads at once (%s)'
                     % (desc, target.tr_max, '; '.join(target.tr_overlaps[:2])))
    handed = ins.handed.get(id(target), [])
    created = ins.locks.created.get(id(target), [])
    if len({id(x) for x in handed}) > 1 or len({id(x) for x in created}) > 1:
        probs.append('%s: callers were handed %d different lock objects for one loop (%d stored in the lock table)'
                     % (desc, len({id(x) for x in handed}), len({id(x) for x in created})))


def dispose(ins, *loops):
    for lp in loops:
        try:
            if not lp.is_running() and not lp.is_closed():
                lp.close()
        except Exception:
            pass
        ins.handed.pop(id(lp), None)
        ins.locks.created.pop(id(lp), None)


def bounded_call(fn, timeout=HANG):
    """Run a blocking call in a daemon thread -> (completed, {'ret':..}|{'exc':..})."""
    box = {}
    done = threading.Event()

    def run():
        try:
            box['ret'] = fn()
        except BaseException as e:  # noqa
            box['exc'] = e
        finally:
            done.set()
    threading.Thread(target=run, name='c17-bounded', daemon=True).start()
    ok = done.wait(timeout)
    if not ok:
        _state['hung'] = True
    return ok, box


def start_in_thread(desc, target, probs):
    """loop_in_thread(target) with the statement's post-condition checked -> stop function or None."""
    def call():
        stop = mod.loop_in_thread(target)
        return stop, target.is_running()
    ok, box = bounded_call(call)
    if not ok:
        probs.append('%s: loop_in_thread did not return within %gs' % (desc, HANG))
        return None
    if 'exc' in box:
        probs.append('%s: loop_in_thread raised %r' % (desc, box['exc']))
        return None
    stop, running = box['ret']
    if not running:
        probs.append('%s: loop_in_thread returned while loop.is_running() was False' % desc)
    return stop


def stop_in_thread(desc, target, stop, probs):
    def call():
        stop()
        return target.is_running()
    ok, box = bounded_call(call)
    if not ok:
        probs.append('%s: the stop function of loop_in_thread did not return within %gs' % (desc, HANG))
        return False
    if 'exc' in box:
        probs.append('%s: the stop function of loop_in_thread raised %r' % (desc, box['exc']))
        return False
    if box['ret']:
        probs.append('%s: the stop function returned while loop.is_running() was still True' % desc)
    return True


# --------------------------------------------------------------------------- G1
def g1_case(ins, state, helper, spec):
    desc = 'G1 %s(%r, target %s)' % (helper, spec, state)
    probs = []
    fn = getattr(mod, helper)
    if state == 'own':
        target = TrackingLoop()

        async def body(own):
            return await fn(spec.build(own), own)
        c = Caller('own', body, own_loop=target)
        c.start()
        ok = c.finish()
        check_spec(desc, spec, c.out, target, probs, ok)
    elif state == 'idle':
        target = TrackingLoop()
        aw = spec.build(target)

        async def body(own):
            return await fn(aw, target)
        c = Caller('idle', body)
        c.start()
        ok = c.finish()
        check_spec(desc, spec, c.out, target, probs, ok)
    elif state == 'thread':
        target = TrackingLoop()
        stop = start_in_thread(desc, target, probs)
        if stop is None:
            return probs
        aw = spec.build_on_running(target)

        async def body(own):
            return await fn(aw, target)
        c = Caller('thread', body)
        c.start()
        ok = c.finish()
        check_spec(desc, spec, c.out, target, probs, ok)
        if ok and spec.rec.get('tid') not in target.tr_threads:
            probs.append('%s: awaitable ran in thread %r which never ran the target loop' % (desc, spec.rec.get('tid')))
        ok = stop_in_thread(desc, target, stop, probs) and ok
    elif state == 'closed':
        target = TrackingLoop()
        aw = target.create_future() if spec.kind == 'future' else spec._work()
        target.close()

        async def body(own):
            return await fn(aw, target)
        c = Caller('closed', body)
        c.start()
        ok = c.finish()
        if not ok:
            probs.append('%s: call did not complete within %gs' % (desc, HANG))
        elif c.out[0] != 'exc' or not isinstance(c.out[1], RuntimeError):
            probs.append('%s: closed target gave %r, expected RuntimeError' % (desc, c.out))
        if spec.rec.get('started'):
            probs.append('%s: the awaitable was evaluated although the target loop is closed' % desc)
        if spec.kind != 'future':
            aw.close()
        return probs
    else:
        raise HarnessError(state)
    check_loop(desc, ins, target, probs)
    if not probs:
        dispose(ins, target)
    return probs


# --------------------------------------------------------------------------- G2
def g2_case(ins, steps, delay):
    """Sequential steps on ONE idle loop, one caller thread with its own loop."""
    names = ['loop_in_thread+use+stop' if st == 'lit' else '%s %s' % (st[0], 'raises' if st[1] else 'returns')
             for st in steps]
    desc = 'G2 sequence on one idle loop %r' % (names,)
    probs = []
    target = TrackingLoop()
    progress = []
    specs = []

    def drive():
        own = aio.new_event_loop()
        try:
            for i, st in enumerate(steps):
                progress.append(('begin', i))
                if st == 'lit':
                    spec = Spec('coroutine', False, delay, 's%d' % i)
                    specs.append(spec)
                    stop = mod.loop_in_thread(target)
                    running = target.is_running()
                    aw = spec.build_on_running(target)
                    try:
                        out = ('ret', own.run_until_complete(mod.ensure_aw(aw, target)))
                    except BaseException as e:  # noqa
                        out = ('exc', e)
                    stop()
                    progress.append(('end', i, spec, out, running, target.is_running()))
                else:
                    spec = Spec(st[0], st[1], delay, 's%d' % i)
                    specs.append(spec)
                    aw = spec.build(target)
                    try:
                        out = ('ret', own.run_until_complete(mod.ensure_aw(aw, target)))
                    except BaseException as e:  # noqa
                        out = ('exc', e)
                    progress.append(('end', i, spec, out, None, None))
        finally:
            own.close()

    ok, box = bounded_call(drive, HANG)
    if 'exc' in box:
        raise HarnessError('%s: driver failed %r' % (desc, box['exc']))
    for p in list(progress):
        if p[0] != 'end':
            continue
        _, i, spec, out, run_at_start, run_after_stop = p
        d = '%s step %d (%s)' % (desc, i, names[i])
        check_spec(d, spec, out, target, probs)
        if run_at_start is False:
            probs.append('%s: loop_in_thread returned while loop.is_running() was False' % d)
        if run_after_stop:
            probs.append('%s: the stop function returned while loop.is_running() was still True' % d)
    if not ok:
        last = [p for p in progress if p[0] == 'begin'][-1][1] if progress else -1
        probs.append('%s: step %d (%s) did not complete within %gs although every earlier step had completed '
                     '(awaitable started: %s)' % (desc, last, names[last] if last >= 0 else '-', HANG,
                                                 bool(specs and specs[-1].rec.get('started'))))
    check_loop(desc, ins, target, probs)
    if not probs:
        dispose(ins, target)
    return probs


# --------------------------------------------------------------------------- G3
def g3_case(ins, specs, used):
    k = len(specs)
    desc = 'G3 %d callers racing on one %s idle loop %r' % (k, 'already used' if used else 'fresh', specs)
    probs = []
    target = TrackingLoop()
    if used:
        pre = Spec('coroutine', False, None, 'pre')
        aw0 = pre.build(target)
        c = Caller('pre', lambda own: mod.ensure_aw(aw0, target))
        c.start()
        ok = c.finish()
        check_spec(desc + ' [preceding sequential call]', pre, c.out, target, probs, ok)
        if probs:
            return probs
    base = target.tr_entries

    async def hold():
        end = time.monotonic() + RDV
        while time.monotonic() < end:
            if (target.tr_entries - base) + ins.waiting_on(target) >= k:
                return
            await aio.sleep(0)
        _state['notes'].append('%s: not every caller arrived at the loop lock within %gs' % (desc, RDV))
    aws = []
    for s in specs:
        s.hold = hold
        aws.append(s.build(target))
    ins.locks.arm(id(target), k)
    callers = [Caller('race%d' % i, lambda own, aw=aw: mod.ensure_aw(aw, target)) for i, aw in enumerate(aws)]
    for c in callers:
        c.start()
    oks = [c.finish() for c in callers]
    ins.locks.disarm()
    for s, c, ok in zip(specs, callers, oks):
        check_spec(desc, s, c.out, target, probs, ok)
    check_loop(desc, ins, target, probs)
    if not probs and not _state['park_ok']:
        raise HarnessError('%s: the callers did not all reach the lock table look-up (rendez-vous broke)' % desc)
    if probs:
        return probs
    post = Spec('coroutine', False, None, 'post')
    awp = post.build(target)
    c = Caller('post', lambda own: mod.ensure_aw(awp, target))
    c.start()
    ok = c.finish()
    check_spec(desc + ' [following sequential call]', post, c.out, target, probs, ok)
    check_loop(desc, ins, target, probs)
    if not probs:
        dispose(ins, target)
    return probs


def parking_effective(ins):
    """Does the idle path consult the instrumented lock table?  Otherwise G3 cannot be forced and is skipped."""
    target = TrackingLoop()
    spec = Spec('coroutine', False, None, 'probe')
    aw = spec.build(target)
    ins.locks.arm(id(target), 1)
    c = Caller('probe', lambda own: mod.ensure_aw(aw, target))
    c.start()
    ok = c.finish()
    parked = bool(ins.locks.parked)
    ins.locks.disarm()
    _state['park_ok'] = True
    if ok:
        dispose(ins, target)
    return ok and parked


# --------------------------------------------------------------------------- G4
def g4_thread_case(ins, specs):
    desc = 'G4 %d concurrent callers on a loop running via loop_in_thread %r' % (len(specs), specs)
    probs = []
    target = TrackingLoop()
    stop = start_in_thread(desc, target, probs)
    if stop is None:
        return probs
    aws = [s.build_on_running(target) for s in specs]
    callers = [Caller('thr%d' % i, lambda own, aw=aw: mod.ensure_aw(aw, target)) for i, aw in enumerate(aws)]
    for c in callers:
        c.start()
    oks = [c.finish() for c in callers]
    for s, c, ok in zip(specs, callers, oks):
        check_spec(desc, s, c.out, target, probs, ok)
    stop_in_thread(desc, target, stop, probs)
    check_loop(desc, ins, target, probs)
    if not probs:
        dispose(ins, target)
    return probs


def g4_own_case(ins, specs):
    """Caller 0 targets its own (running) loop while the others target that same loop from their loops."""
    desc = 'G4 %d concurrent callers, the target is caller 0\'s own loop %r' % (len(specs), specs)
    probs = []
    target = TrackingLoop()
    running = threading.Event()
    box = {}

    async def body0(own):
        box['others_done'] = aio.Event()
        aw0 = specs[0].build(own)
        running.set()
        try:
            return await mod.ensure_aw(aw0, own)
        finally:
            # keep the loop running until the others are through (never construct the D8 race)
            await box['others_done'].wait()
    c0 = Caller('own0', body0, own_loop=target)
    c0.start()
    if not running.wait(RDV):
        raise HarnessError(desc + ': caller 0 never started')
    aws = [s.build_on_running(target) for s in specs[1:]]
    others = [Caller('oth%d' % i, lambda own, aw=aw: mod.ensure_aw(aw, target)) for i, aw in enumerate(aws)]
    for c in others:
        c.start()
    oks = [c.finish() for c in others]
    target.call_soon_threadsafe(lambda: box['others_done'].set())
    ok0 = c0.finish()
    for s, c, ok in zip(specs, [c0] + others, [ok0] + oks):
        check_spec(desc, s, c.out, target, probs, ok)
    check_loop(desc, ins, target, probs)
    if not probs:
        dispose(ins, target)
    return probs


# --------------------------------------------------------------------------- G5
def g5_parked_start(ins):
    desc = 'G5 loop_in_thread with the loop\'s start-up parked'
    probs = []
    target = TrackingLoop()
    entered, go = threading.Event(), threading.Event()
    target.tr_start_gate = (entered, go)
    box = {}
    done = threading.Event()

    def call():
        try:
            box['stop'] = mod.loop_in_thread(target)
            box['running'] = target.is_running()
        except BaseException as e:  # noqa
            box['exc'] = e
        finally:
            done.set()
    threading.Thread(target=call, name='c17-lit', daemon=True).start()
    if not entered.wait(RDV) and not done.is_set():
        go.set()
        raise HarnessError(desc + ': run_forever was never entered')
    done.wait(0.05)    # grace for an implementation that returns early; the verdict does not depend on it
    early = done.is_set()
    go.set()
    if not done.wait(HANG):
        _state['hung'] = True
        probs.append('%s: loop_in_thread did not return within %gs after the loop started' % (desc, HANG))
        return probs
    if 'exc' in box:
        probs.append('%s: loop_in_thread raised %r' % (desc, box['exc']))
        return probs
    if not box['running'] or early:
        probs.append('%s: loop_in_thread returned before the loop was running (is_running() at return: %s, '
                     'returned while run_forever was still parked: %s)' % (desc, box['running'], early))
    stop_in_thread(desc, target, box['stop'], probs)
    check_loop(desc, ins, target, probs)
    if not probs:
        dispose(ins, target)
    return probs


def g5_parked_stop(ins):
    desc = 'G5 stop function while the loop is busy in a callback'
    probs = []
    target = TrackingLoop()
    stop = start_in_thread(desc, target, probs)
    if stop is None:
        return probs
    parked, go = threading.Event(), threading.Event()

    def parker():
        parked.set()
        go.wait(RDV)
    target.call_soon_threadsafe(parker)
    if not parked.wait(RDV):
        go.set()
        raise HarnessError(desc + ': callback never ran on the loop')
    box = {}
    done = threading.Event()

    def call():
        try:
            stop()
            box['running_after'] = target.is_running()
        except BaseException as e:  # noqa
            box['exc'] = e
        finally:
            done.set()
    threading.Thread(target=call, name='c17-stop', daemon=True).start()
    done.wait(0.05)    # grace for an implementation that does not wait; the verdict does not depend on it
    go.set()
    if not done.wait(HANG):
        _state['hung'] = True
        probs.append('%s: the stop function did not return within %gs' % (desc, HANG))
        return probs
    if 'exc' in box:
        probs.append('%s: the stop function raised %r' % (desc, box['exc']))
    elif box['running_after']:
        probs.append('%s: the stop function returned while loop.is_running() was still True' % desc)
    check_loop(desc, ins, target, probs)
    if not probs:
        dispose(ins, target)
    return probs


def g5_lit_during_ensure(ins, spec):
    desc = 'G5 loop_in_thread requested while ensure_aw(%r) runs the idle loop' % (spec,)
    probs = []
    target = TrackingLoop()
    lit_returned = threading.Event()
    started = threading.Event()

    async def hold():
        started.set()
        end = time.monotonic() + RDV
        while time.monotonic() < end:
            if lit_returned.is_set() and ins.waiting_on(target) >= 1:
                return
            await aio.sleep(0)
        _state['notes'].append(desc + ': loop_in_thread worker never waited at the loop lock')
    spec.hold = hold
    aw = spec.build(target)
    c = Caller('ens', lambda own: mod.ensure_aw(aw, target))
    c.start()
    if not started.wait(RDV):
        raise HarnessError(desc + ': awaitable never started')
    stop = start_in_thread(desc, target, probs)
    lit_returned.set()
    if stop is None:
        return probs
    ok = c.finish()
    check_spec(desc, spec, c.out, target, probs, ok)
    if not probs and not target.wait_forever_entries(1, RDV):
        raise HarnessError(desc + ': the loop_in_thread worker never ran the loop after ensure_aw finished')
    if not probs:
        stop_in_thread(desc, target, stop, probs)
    check_loop(desc, ins, target, probs)
    if not probs:
        dispose(ins, target)
    return probs


# --------------------------------------------------------------------------- enumeration
KINDS = ['coroutine', 'future', 'task']


def run(thorough, wd):
    ins = Instr()
    ins.install()
    counts = {}
    try:
        return _run(thorough, wd, ins, counts), counts
    finally:
        ins.locks.disarm()
        ins.restore()


def _run(thorough, wd, ins, counts):
    delays = [None, 0, 0.002, 0.01] if thorough else [None, 0, 0.002]
    n = [0]

    def go(group, what, fn, *a):
        wd.kick('%s %s' % (group, what))
        counts[group] = counts.get(group, 0) + 1
        n[0] += 1
        if n[0] % 50 == 0:
            gc.collect()
        return fn(ins, *a)

    # G1
    for state, helper in [('own', 'ensure_aw'), ('own', 'run_aw_threadsafe'), ('thread', 'ensure_aw'),
                          ('thread', 'run_aw_threadsafe'), ('idle', 'ensure_aw')]:
        for kind in KINDS:
            for raises in (False, True):
                for d in delays:
                    spec = Spec(kind, raises, d, 'g1')
                    probs = go('G1', '%s %s %r' % (state, helper, spec), g1_case, state, helper, spec)
                    if probs:
                        return probs
    for helper in ('ensure_aw', 'run_aw_threadsafe'):
        for kind in ('coroutine', 'future'):
            spec = Spec(kind, False, None, 'closed')
            probs = go('G1', 'closed %s %s' % (helper, kind), g1_case, 'closed', helper, spec)
            if probs:
                return probs

    # G2
    steps = [(k, r) for k in KINDS for r in (False, True)] + ['lit']
    for i, seq in enumerate(itertools.product(steps, repeat=3 if thorough else 2)):
        probs = go('G2', repr(seq), g2_case, seq, delays[i % len(delays)])
        if probs:
            return probs
    if not thorough:
        for seq in [(('coroutine', True), ('coroutine', True), ('coroutine', False)),
                    (('task', True), 'lit', ('future', True)), ('lit', ('future', True), 'lit')]:
            probs = go('G2', repr(seq), g2_case, seq, None)
            if probs:
                return probs

    # G3
    if not parking_effective(ins):
        print('note: the idle path never looked the loop up in aiuti.asyncio._LOOP_LOCKS; the forced lock race (G3) '
              'was skipped')
    else:
        i = 0
        for k in (2, 3):
            kind_sets = list(itertools.product(KINDS, repeat=k))
            if not thorough and k == 3:
                kind_sets = [tuple(KINDS[(j + r) % 3] for j in range(3)) for r in range(3)] + [('coroutine',) * 3]
            for kinds in kind_sets:
                for outs in itertools.product((False, True), repeat=k):
                    for used in (False, True):
                        i += 1
                        specs = [Spec(kd, r, (None, 0)[(i + j) % 2], 'c%d' % j)
                                 for j, (kd, r) in enumerate(zip(kinds, outs))]
                        probs = go('G3', '%r used=%s' % (specs, used), g3_case, specs, used)
                        if probs:
                            return probs

    # G4
    i = 0
    for k in (2, 3):
        for rot in range(3):
            for outs in itertools.product((False, True), repeat=k):
                for case in (g4_thread_case, g4_own_case):
                    i += 1
                    specs = [Spec(KINDS[(j + rot) % 3], r, delays[(i + j) % len(delays)], 'c%d' % j)
                             for j, r in enumerate(outs)]
                    probs = go('G4', '%s %r' % (case.__name__, specs), case, specs)
                    if probs:
                        return probs

    # G5
    for _ in range(5 if thorough else 2):
        for fn in (g5_parked_start, g5_parked_stop):
            probs = go('G5', fn.__name__, fn)
            if probs:
                return probs
    for kind in ('coroutine', 'task', 'future'):
        for raises in (False, True):
            spec = Spec(kind, raises, None, 'g5')
            probs = go('G5', 'lit during ensure %r' % (spec,), g5_lit_during_ensure, spec)
            if probs:
                return probs
    return []


def main(thorough):
    t0 = time.time()
    warnings.simplefilter('ignore')
    wd = Watchdog()
    try:
        probs, counts = run(thorough, wd)
    finally:
        wd.stop.set()
    print('C17 stand-in: %d scenario runs %s, %.1fs (bounded: 1..3 caller threads with own loops x target {own, '
          'in-thread, idle, closed} x {coroutine, future, task} x {returns, raises} x delays %s; sequences of %d steps '
          'on one idle loop; forced first-look-up race in the loop lock table; parked loop start / stop)'
          % (sum(counts.values()), sorted(counts.items()), time.time() - t0,
             '[none,0,0.002,0.01]' if thorough else '[none,0,0.002]', 3 if thorough else 2))
    for note in _state['notes'][:3]:
        print('note:', note)
    for s in KNOWN_SUBCASES:
        print('KNOWN-SUBCASE:', s)
    for p in probs[:3]:
        print('PROBLEM:', p)
    rc = 1 if probs else 0
    if _state['hung']:
        # wedged pool workers (module level 32-thread pool) would block interpreter exit
        sys.stdout.flush()
        sys.stderr.flush()
        os._exit(rc)
    return rc
