"""Bounded stand-in for C03 on the real code (virtual time): buffered calls are never lost.

Oracle (from the property statement), judged at a horizon by which a correct buffer has certainly finished:
  * every element a producer produced before it failed is in >= 1 call of the wrapped function that
    returned without raising (so arguments of a raising call must have been kept and offered again);
  * elements submitted from the loop's own thread are in EXACTLY one such call;
  * the function only receives elements that were produced by a submission made no later than the call.

BOUNDED domain (quantifier: timed programs x fault sequences x foreign-thread interleavings):
  T  timed programs on the loop thread: 1..3 producers from a catalogue (plain, awaitable coroutine / future
     incl. slow and failing, sync list / iterable / iterator incl. empty and failing at each position, async
     iterable incl. slow and failing at each position) at gaps from a grid straddling the timeout
     {0, .5, .875, 1, 1.125, 2.5} x timeout, optional wait(cancel=True/False) on the same grid, function
     durations {none, .5, 1.5} x timeout, raising invocations; plus seeded 8-submission programs;
  E  every subset of the first 6 invocations raising (64) on a few programs;
  F  1..2 REAL foreign threads each performing one submission, run to completion at the i-th (and j-th)
     operation the loop thread performs on the shared objects (event.set/clear, queue put/get/task_done,
     call_soon_threadsafe, function entry/exit; before and after the operation) -- this includes the point
     right after the completion flag is set;
  P  one foreign thread parked before / between / after the operations of its own submission while the loop
     runs 0, timeout/2 or several timeouts (optionally with a loop-thread flush).
No wall-clock timing decides anything.
"""
import itertools
import random
import time

from scenarios.props import _buffer_common as bc
from scenarios.props._buffer_common import GAPS, CORE, Ctx, Stop, catalogue, f_bases, thin_ok

# ------------------------------------------------------------------------------------------ runners

def run_timed(ctx, fam, T, actions, durations=(), fails=(), default_dur=None):
    ctx.count(fam)
    H = bc.default_horizon(T, actions, durations, fails, default_dur)
    w = bc.World(T, durations=durations, fails=fails, default_dur=default_dur)
    where = 'timeout=%g, program {%s}, %s' % (T, bc.fmt_actions(actions), bc.fmt_func(durations, fails, default_dur))
    try:
        try:
            w.run(w.drive(actions, H))
        except bc.BudgetExceeded as e:
            # the loop span without ever reaching the horizon: a verdict only if something is undelivered
            probs = bc.delivery_problems(w, where + ' [loop never reached the horizon: %s]' % e, w.loop.time())
            if not probs:
                raise
        else:
            probs = bc.delivery_problems(w, where, H)
    finally:
        w.close()
    ctx.report(probs)


def family_T(ctx, thorough, T):
    cat = catalogue(T, thorough)
    names = list(cat)
    cfgs = [((), None), ((0,), 0.5 * T), ((0, 1), 1.5 * T)]
    # (A) one producer: every raising subset of the first 3 invocations x durations x optional wait
    waits = [None] + [(g * T, c) for g in (0, 0.5, 1, 1.125) for c in (True, False)]
    for n in names:
        for k in range(4):
            for fails in itertools.combinations(range(3), k):
                for dur in (None, 0.5 * T, 1.5 * T):
                    for wt in (waits if (thorough or dur == 0.5 * T) else waits[:1]):
                        acts = [(0, ) + cat[n]('p')]
                        if wt:
                            acts.append((wt[0], 'wait', wt[1]))
                        run_timed(ctx, 'T1', T, acts, fails=fails, default_dur=dur)
    # (B) two producers at every gap of the grid
    for n1 in names:
        for n2 in names:
            for g in GAPS:
                for fails, dur in cfgs:
                    acts = [(0, ) + cat[n1]('p'), (g * T, ) + cat[n2]('q')]
                    run_timed(ctx, 'T2', T, acts, fails=fails, default_dur=dur)
                if thorough or (n1 in CORE and n2 in CORE):
                    # a forced / unforced flush at or after the second submission
                    for wg in (0, 0.5):
                        for c in (True, False):
                            acts = [(0, ) + cat[n1]('p'), (g * T, ) + cat[n2]('q'), ((g + wg) * T, 'wait', c)]
                            run_timed(ctx, 'T2w', T, acts, fails=(0,), default_dur=0.5 * T)
    # (C) three producers (core catalogue)
    g3 = (0.5, 1, 1.125) if not thorough else (0, 0.5, 0.875, 1, 1.125, 2.5)
    for n1, n2, n3 in itertools.product(CORE, repeat=3):
        for ga in g3:
            for gb in g3:
                if not thorough and thin_ok(n1, n2, n3, ga, gb) % 4:
                    continue    # deterministic thinning
                for fails, dur in (cfgs if thorough else cfgs[1:2]):
                    acts = [(0, ) + cat[n1]('p'), (ga * T, ) + cat[n2]('q'), ((ga + gb) * T, ) + cat[n3]('r')]
                    run_timed(ctx, 'T3', T, acts, fails=fails, default_dur=dur)


def family_long(ctx, thorough, T):
    """Seeded programs of 8 submissions + up to 2 waits; fault set = random subset of the first 6 invocations."""
    cat = catalogue(T, True)
    names = list(cat)
    for seed in range(1500 if thorough else 120):
        rnd = random.Random(seed)
        t = 0
        acts = []
        for i in range(8):
            t += rnd.choice(GAPS) * T
            acts.append((t, ) + cat[rnd.choice(names)]('s%d_' % i))
        for _ in range(rnd.randrange(3)):
            acts.append((rnd.choice(GAPS + (2, 3, 4.5)) * T, 'wait', rnd.random() < 0.5))
        acts.sort(key=lambda a: a[0])
        fails = tuple(i for i in range(6) if rnd.random() < 0.4)
        durs = tuple(rnd.choice((None, 0.5 * T, 1.5 * T)) for _ in range(7))
        run_timed(ctx, 'T8', T, acts, durations=durs, fails=fails)


def family_E(ctx, thorough, T):
    cat = catalogue(T, False)
    progs = [
        [(0, ) + cat['call']('p')],
        [(0, ) + cat['list2']('p'), (0.5 * T, ) + cat['amap-slow2nd']('q'), (3 * T, ) + cat['call']('r')],
        [(0, ) + cat['iterator-fail1']('p'), (1 * T, ) + cat['await-.5']('q'), (1.125 * T, 'wait', True)],
    ]
    for acts in progs:
        for k in range(7):
            for fails in itertools.combinations(range(6), k):
                for dur in ((None, 0.5 * T, 1.5 * T) if thorough else (None, 1.5 * T)):
                    run_timed(ctx, 'E', T, acts, fails=fails, default_dur=dur)


# ------------------------------------------------------------------------------------------ foreign threads

F_ACTIONS = [('call', 'F0'), ('map', 'list', ('G0', 'G1'), None)]


def run_injected(ctx, T, base, points):
    """points: list of (operation index, foreign action, thread name)."""
    name, own, fails, dur = base
    ctx.count('F%d' % len(points))
    H = bc.default_horizon(T, own, (), fails, dur, extra_rounds=3 + len(points))
    w = bc.World(T, fails=fails, default_dur=dur, hooks=True)
    try:
        for idx, action, who in points:
            w.hooks.inject.setdefault(idx, []).append(
                lambda action=action, who=who: w.foreign_submit_now(action, who))
        w.run(w.drive(own, H))
        fired = list(w.hooks.fired)
        n_ops = w.hooks.n
        where = ('timeout=%g, loop thread {%s}, %s; foreign thread(s) run to completion at: %s' % (
            T, bc.fmt_actions(own), bc.fmt_func((), fails, dur),
            '; '.join('%s doing %r at loop operation #%d (%s %s)' % (
                who, action, idx,
                next((f[2] for f in fired if f[0] == idx), 'not reached'),
                next((f[1] for f in fired if f[0] == idx), '')) for idx, action, who in points)))
        probs = bc.delivery_problems(w, where, H)
    finally:
        w.close()
    ctx.report(probs)
    return n_ops


def family_F(ctx, thorough, T):
    for base in f_bases(T):
        n0 = run_injected(ctx, T, base, [])
        for i in range(n0):
            n1 = run_injected(ctx, T, base, [(i, F_ACTIONS[0], 'foreign-1')])
            if thorough:
                js = range(i, n1)
            else:
                js = [j for j in range(i, n1) if j - i < 3 or (j - i) % 5 == 0]
            for j in js:
                run_injected(ctx, T, base, [(i, F_ACTIONS[0], 'foreign-1'), (j, F_ACTIONS[1], 'foreign-2')])


def family_P(ctx, thorough, T):
    actions = [[('call', 'F0')], [('map', 'list', ('F0', 'F1'), None), ('call', 'F2')]]
    for facts in actions:
        n_ops = 4 * len(facts)
        for park in [None] + list(range(n_ops + 1)):
            for span in (0, 0.5 * T, 4 * T):
                for own in ((), (('call', 'own0'),)):
                    for flush in (False, True):
                        for dur, fails in ((None, ()), (0.5 * T, (0,))):
                            ctx.count('P')
                            w, info = bc.run_parked(T, facts, park, span, own_before=own, flush_during_park=flush,
                                                    dur=dur, fails=fails)
                            try:
                                where = ('timeout=%g, foreign thread doing %r parked at its operation #%r (%s) '
                                         'for %g virtual s, loop thread submitted %r before%s, %s' % (
                                             T, facts, park, info['ctl'].parked_at, span, own,
                                             ' and flushed with wait(cancel=True) during the park' if flush else '',
                                             bc.fmt_func((), fails, dur)))
                                probs = bc.delivery_problems(w, where, info['horizon'])
                            finally:
                                w.close()
                            ctx.report(probs)


# ------------------------------------------------------------------------------------------ main

def run(thorough):
    ctx = Ctx()
    try:
        for T in ((1.0, 0.25) if thorough else (1.0,)):
            family_F(ctx, thorough, T)
            family_P(ctx, thorough, T)
            family_E(ctx, thorough, T)
            family_T(ctx, thorough, T)
            family_long(ctx, thorough, T)
    except Stop:
        pass
    return ctx


def main(thorough):
    t0 = time.time()
    with bc.deterministic_gc():
        ctx = run(thorough)
    for p in ctx.probs[:3]:
        print('PROBLEM:', p)
    print('C03 stand-in: %d scenario runs %s, %.1fs (bounded: <=3 producers from a catalogue of %d kinds x gap grid '
          '%s x timeout, seeded 8-submission programs, raising subsets of the first 6 invocations, function '
          'durations {0,.5,1.5} x timeout, 1..2 foreign threads at every loop-thread operation point, 1 parked '
          'foreign thread; timeouts %s)'
          % (ctx.runs, dict(sorted(ctx.per.items())), time.time() - t0, len(catalogue(1.0, thorough)), list(GAPS),
             [1.0, 0.25] if thorough else [1.0]))
    return 1 if ctx.probs else 0
