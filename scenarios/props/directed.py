"""
Directed scenarios: small deterministic programs on the REAL code (under /venv/bin/python), one per clause of a
property that the big enumerations of the cXX stand-ins do not reach by themselves (each was added after a
seeded change, caught by an obligation, had no failing scenario to replay, or was missed).  Run before the
enumeration of the property's stand-in by scenarios/aio_props.py; BOUNDED evidence, never counted as proof.

Every scenario returns a list of problem strings (empty = the real code behaved as the property says).
Rendez-vous is explicit (events, gates, loop turns); time is virtual (scenarios/vt.py) where it matters.
"""
import asyncio as aio
import threading
import types
import collections

from scenarios.vt import VTLoop


def _run(coro_fn, loop=None, guard=20.0):
    """run coro_fn() on a fresh (virtual-time) loop; a hang is a problem, not a hang of the check"""
    loop = loop or VTLoop()
    box = {}

    async def main():
        try:
            return await coro_fn()
        finally:
            pass
    try:
        box['r'] = loop.run_until_complete(main())
    except BaseException as e:  # noqa
        box['r'] = ['scenario ended with %r' % (e,)]
    finally:
        try:
            for t in aio.all_tasks(loop):
                t.cancel()
            loop.run_until_complete(aio.sleep(0))
        except BaseException:  # noqa
            pass
        loop.close()
    return box['r'] or []


async def _turns(n=5):
    for _ in range(n):
        await aio.sleep(0)


# ------------------------------------------------------------------------------------------------- cache
def c01_owner_cancelled_mid_invocation():
    """C01: the computing caller is cancelled mid-invocation, a second caller arrives: never two invocations
    in progress at once."""
    from aiuti.asyncio import threadsafe_async_cache

    async def sc():
        active = [0]
        peak = [0]
        gate = aio.Event()
        entered = aio.Event()

        @threadsafe_async_cache
        async def f(x):
            active[0] += 1
            peak[0] = max(peak[0], active[0])
            entered.set()
            try:
                await gate.wait()
                return x
            finally:
                active[0] -= 1
        t1 = aio.ensure_future(f(1))
        await entered.wait()
        t1.cancel()
        await aio.gather(t1, return_exceptions=True)
        entered.clear()
        t2 = aio.ensure_future(f(1))
        await _turns(10)
        pk = peak[0]
        gate.set()
        await aio.gather(t2, return_exceptions=True)
        if pk > 1:
            return ['C01: after the computing caller was cancelled a second caller started an invocation while the '
                    'first one was still running (%d in progress at once)' % pk]
        return []
    return _run(sc)


def c01_keyword_order():
    """C01/C14: f(a=1, b=2) and f(b=2, a=1) are the same argument key: one invocation, one shared result."""
    from aiuti.asyncio import threadsafe_async_cache

    async def sc():
        calls = []
        gate = aio.Event()

        @threadsafe_async_cache
        async def f(*a, **k):
            calls.append((a, dict(k)))
            await gate.wait()
            return object()
        t1 = aio.ensure_future(f(0, a=1, b=2))
        t2 = aio.ensure_future(f(0, b=2, a=1))
        await _turns(10)
        n = len(calls)
        gate.set()
        r1, r2 = await aio.gather(t1, t2)
        out = []
        if n != 1:
            out.append('C01/C14: calls equal up to keyword order ran %d invocations at once' % n)
        if r1 is not r2:
            out.append('C14: calls equal up to keyword order received different results')
        r3 = await f(0, b=2, a=1)
        if r3 is not r1 or len(calls) != 1:
            out.append('C14: a later call equal up to keyword order recomputed')
        return out
    return _run(sc)


def c14_hash_equal_arguments():
    """C14: arguments that merely hash alike (-1 / -2, 0 / 2**61-1) are different calls."""
    from aiuti.asyncio import threadsafe_async_cache

    async def sc():
        @threadsafe_async_cache
        async def f(*a, **k):
            return ('value for', a, tuple(sorted(k.items())))
        out = []
        for x, y in ((-1, -2), (0, 2 ** 61 - 1), (1.0, 1 + 2 ** 61 - 1)):
            for mk in (lambda v: ((v,), {}), lambda v: ((), {'k': v}), lambda v: ((7, v), {'z': v})):
                (a1, k1), (a2, k2) = mk(x), mk(y)
                r1 = await f(*a1, **k1)
                r2 = await f(*a2, **k2)
                if r1 != ('value for', a1, tuple(sorted(k1.items()))) or r2 != ('value for', a2, tuple(sorted(k2.items()))):
                    out.append('C14: f%r/%r returned %r, f%r/%r returned %r (arguments with equal hashes share an '
                               'entry)' % (a1, k1, r1, a2, k2, r2))
                    return out
        return out
    return _run(sc)


def c14_recheck_under_the_lock():
    """C14/C01: thread B misses the cache just before thread A stores the value and reaches the creation lock only
    after A has finished: B must find the value, not compute again."""
    from aiuti.asyncio import threadsafe_async_cache
    out = []
    b_missed = threading.Event()
    a_done = threading.Event()
    runs = []

    class Store(dict):
        def __getitem__(self, k):
            try:
                return dict.__getitem__(self, k)
            except KeyError:
                if threading.current_thread().name == 'B' and not b_missed.is_set():
                    b_missed.set()
                    a_done.wait(10)
                raise
    store = Store()

    @threadsafe_async_cache(cache=store)
    async def f(x):
        runs.append(threading.current_thread().name)
        return 'run#%d' % len(runs)
    res = {}

    def thread_a():
        b_missed.wait(10)
        lp = aio.new_event_loop()
        res['A'] = lp.run_until_complete(f(1))
        lp.close()
        a_done.set()

    def thread_b():
        lp = aio.new_event_loop()
        res['B'] = lp.run_until_complete(f(1))
        lp.close()
    ta = threading.Thread(target=thread_a, name='A')
    tb = threading.Thread(target=thread_b, name='B')
    tb.start()
    ta.start()
    ta.join(20)
    tb.join(20)
    if ta.is_alive() or tb.is_alive():
        return ['C14: recheck scenario did not finish']
    if len(runs) != 1 or res.get('A') != res.get('B'):
        out.append('C14/C01: a caller that missed the cache just before the value was stored computed again after '
                   'the first computation had finished: invocations %r, results %r' % (runs, res))
    return out


def c05_closed_computing_loop_is_taken_over():
    """C05: the computing loop is closed mid-computation; a caller on another loop takes the computation over
    instead of retrying for ever."""
    import aiuti.asyncio as A

    class _Spin(BaseException):
        pass
    calls = []
    keep = []

    @A.threadsafe_async_cache
    async def f(x):
        calls.append(x)
        if len(calls) == 1:
            keep.append(aio.Event())
            await keep[-1].wait()             # never finishes on the first loop
        return 'v%d' % len(calls)
    l1 = aio.new_event_loop()
    t = l1.create_task(f(1))
    l1.run_until_complete(aio.sleep(0))
    l1.run_until_complete(aio.sleep(0))
    if calls != [1]:
        l1.close()
        return ['scenario set-up: first invocation did not start']
    l1.close()                                  # closed without cancelling the computing task
    attempts = [0]
    real = A.run_coro_ts

    def counting(coro, loop):
        attempts[0] += 1
        if attempts[0] > 200:
            coro.close()
            raise _Spin()
        return real(coro, loop)
    A.run_coro_ts = counting
    l2 = VTLoop()
    out = []
    try:
        try:
            r = l2.run_until_complete(aio.wait_for(f(1), 500))
            if r != 'v2' or calls != [1, 1]:
                out.append('C05: caller on another loop got %r after invocations %r (expected a take-over)' % (r, calls))
        except _Spin:
            out.append('C05: the computing loop was closed mid-computation; a caller on another loop tried %d times '
                       'to queue a proxy on the CLOSED loop without ever awaiting: it spins for ever instead of taking '
                       'the computation over' % attempts[0])
        except BaseException as e:  # noqa
            out.append('C05: caller on another loop ended with %r instead of recomputing' % (e,))
    finally:
        A.run_coro_ts = real
        t._log_destroy_pending = False      # abandoned on the closed loop on purpose
        del t
        l2.close()
    return out


def c05_stopped_computing_loop_recovery():
    """C05/C06: a cross-loop caller has queued its proxy on the live computing loop, which is then stopped (not
    closed) mid-computation: after the 60 s safety window the caller recomputes; it never sees a TimeoutError."""
    import aiuti.asyncio as A
    l1 = aio.new_event_loop()
    stop = A.loop_in_thread(l1)
    started = threading.Event()
    queued = threading.Event()
    calls = []
    keep = []           # a pending task is only weakly referenced by its loop: keep what it waits on alive

    @A.threadsafe_async_cache
    async def f(x):
        calls.append(x)
        if len(calls) == 1:
            started.set()
            keep.append(aio.Event())
            await keep[-1].wait()
        return 'v%d' % len(calls)
    keep.append(aio.run_coroutine_threadsafe(f(1), l1))
    if not started.wait(10):
        stop()
        return ['scenario set-up: the computing loop did not start the invocation']
    real = A.run_coro_ts

    def hooked(coro, loop):
        r = real(coro, loop)
        queued.set()
        return r
    A.run_coro_ts = hooked
    l2 = VTLoop()
    stopped = []

    async def caller():
        t = aio.ensure_future(f(1))
        for _ in range(200):
            if queued.is_set():
                break
            await aio.sleep(0)
        aio.run_coroutine_threadsafe(aio.sleep(0), l1).result(10)     # the proxy is being processed by l1
        stop()
        stopped.append(l2.time())
        try:
            return await aio.wait_for(t, 500), l2.time()
        except BaseException as e:  # noqa
            return e, l2.time()
    out = []
    try:
        r, when = l2.run_until_complete(caller())
        import os
        if os.environ.get('DIRECTED_DEBUG'):
            print('debug stopped-loop scenario:', r, when, calls, queued.is_set(), stopped)
        if not queued.is_set():
            out.append('scenario set-up: the caller never queued a proxy on the computing loop')
        elif isinstance(r, BaseException):
            out.append('C05/C06: the computing loop was stopped mid-computation; the cross-loop caller ended with %r at '
                       'virtual t=%.1f instead of recomputing after the safety window' % (r, when))
        elif r != 'v2' or when > 125:
            out.append('C05: cross-loop caller got %r at virtual t=%.1f (expected the recomputed v2 within the '
                       'safety window)' % (r, when))
    finally:
        A.run_coro_ts = real
        if not stopped:
            stop()
        l2.close()
        try:
            l1.close()
        except BaseException:  # noqa
            pass
    return out


def c06_own_cancellation_together_with_a_foreign_one():
    """C06: the caller's own cancel arrives in the same loop iteration in which its shielded inner waiter ends
    cancelled: the call ends cancelled (it does not go on to compute)."""
    from aiuti.asyncio import threadsafe_async_cache

    async def sc():
        calls = []
        gate = aio.Event()

        @threadsafe_async_cache
        async def f(x):
            calls.append(x)
            await gate.wait()
            return x
        a = aio.ensure_future(f(1))
        await _turns(3)
        b = aio.ensure_future(f(1))
        await _turns(5)
        inner = [t for t in aio.all_tasks() if t not in (a, b, aio.current_task())]
        if len(inner) != 1:
            return ['scenario set-up: expected exactly one inner waiter task, found %d' % len(inner)]
        inner[0].cancel()          # what the shutdown of the computing loop does to the proxy
        a.cancel()
        b.cancel()
        await _turns(10)
        out = []
        if not b.done() or not b.cancelled():
            out.append('C06: a waiting caller whose own task was cancelled (together with its inner waiter) is %s and '
                       'made invocations %r: its cancellation was swallowed'
                       % ('still running' if not b.done() else 'done: %r' % (b.exception() if not b.cancelled() else None), calls))
        gate.set()
        await aio.gather(a, b, return_exceptions=True)
        return out
    return _run(sc)


def c06_cancelled_waiter_ends_at_once():
    """C05/C06: a caller cancelled (or timed out) while waiting for another caller's computation ends at once --
    not when the computation ends, and never with the 60 s safety TimeoutError."""
    from aiuti.asyncio import threadsafe_async_cache

    async def sc():
        loop = aio.get_running_loop()
        gate = aio.Event()

        @threadsafe_async_cache
        async def f(x):
            await gate.wait()
            return x
        a = aio.ensure_future(f(1))
        await _turns(3)
        out = []
        for how in ('cancel', 'timeout'):
            t0 = loop.time()
            if how == 'cancel':
                b = aio.ensure_future(f(1))
                await aio.sleep(1)
                b.cancel()
            else:
                b = aio.ensure_future(aio.wait_for(f(1), 1))
                await aio.sleep(1)
            await _turns(20)
            if not b.done():
                done, _ = await aio.wait([b], timeout=200)
                out.append('C05/C06: a waiting caller was %s at virtual t=%.0f s but was still pending 20 loop turns later; '
                           'it ended at t=%.0f s with %r' % ('cancelled' if how == 'cancel' else 'timed out', t0 + 1, loop.time(),
                                                          (b.exception() if b.done() and not b.cancelled() else 'cancelled' if b.done() else 'nothing')))
                break
            ok = b.cancelled() if how == 'cancel' else isinstance(b.exception(), aio.TimeoutError)
            if not ok:
                out.append('C06: waiting caller (%s) ended with %r' % (how, b.exception()))
        gate.set()
        await aio.gather(a, return_exceptions=True)
        return out
    return _run(sc)


SCENARIOS = {
    'C01': [c01_owner_cancelled_mid_invocation, c01_keyword_order, c14_recheck_under_the_lock],
    'C14': [c01_keyword_order, c14_hash_equal_arguments, c14_recheck_under_the_lock],
    'C05': [c05_closed_computing_loop_is_taken_over, c05_stopped_computing_loop_recovery,
            c06_cancelled_waiter_ends_at_once],
    'C06': [c06_own_cancellation_together_with_a_foreign_one, c06_cancelled_waiter_ends_at_once,
            c05_stopped_computing_loop_recovery],
}


def run(prop):
    problems = []
    for fn in SCENARIOS.get(prop.upper(), []):
        try:
            pr = fn()
        except BaseException:  # noqa
            raise          # a crash of the scenario driver itself is a harness error (exit 3), not a violation
        for p in pr:
            problems.append('%s: %s' % (fn.__name__, p))
    return problems
