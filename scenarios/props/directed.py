"""
Directed scenarios: small deterministic programs on the REAL code (under /venv/bin/python), one per clause of a
property that the big enumerations of the cXX stand-ins do not reach by themselves (each was added after a
seeded change, caught by an obligation, had no failing scenario to replay, or was missed).  Run before the
enumeration of the property's stand-in by scenarios/aio_props.py; BOUNDED evidence, never counted as proof.

Every scenario returns a list of problem strings (empty = the real code behaved as the property says).
Rendez-vous is explicit (events, gates, loop turns); time is virtual (scenarios/vt.py) where it matters.
"""
import asyncio as aio
import threading
import types
import collections

from scenarios.vt import VTLoop


def _run(coro_fn, loop=None, guard=20.0):
    """run coro_fn() on a fresh (virtual-time) loop; a hang is a problem, not a hang of the check"""
    loop = loop or VTLoop()
    box = {}

    async def main():
        try:
            return await coro_fn()
        finally:
            pass
    try:
        box['r'] = loop.run_until_complete(main())
    except BaseException as e:  # noqa
        box['r'] = ['scenario ended with %r' % (e,)]
    finally:
        try:
            for t in aio.all_tasks(loop):
                t.cancel()
            loop.run_until_complete(aio.sleep(0))
        except BaseException:  # noqa
            pass
        loop.close()
    return box['r'] or []


async def _turns(n=5):
    for _ in range(n):
        await aio.sleep(0)


# ------------------------------------------------------------------------------------------------- cache
def c01_owner_cancelled_mid_invocation():
    """C01: the computing caller is cancelled mid-invocation, a second caller arrives: never two invocations
    in progress at once."""
    from aiuti.asyncio import threadsafe_async_cache

    async def sc():
        active = [0]
        peak = [0]
        gate = aio.Event()
        entered = aio.Event()

        @threadsafe_async_cache
        async def f(x):
            active[0] += 1
            peak[0] = max(peak[0], active[0])
            entered.set()
            try:
                await gate.wait()
                return x
            finally:
                active[0] -= 1
        t1 = aio.ensure_future(f(1))
        await entered.wait()
        t1.cancel()
        await aio.gather(t1, return_exceptions=True)
        entered.clear()
        t2 = aio.ensure_future(f(1))
        await _turns(10)
        pk = peak[0]
        gate.set()
        await aio.gather(t2, return_exceptions=True)
        if pk > 1:
            return ['C01: after the computing caller was cancelled a second caller started an invocation while the '
                    'first one was still running (%d in progress at once)' % pk]
        return []
    return _run(sc)


def c01_keyword_order():
    """C01/C14: f(a=1, b=2) and f(b=2, a=1) are the same argument key: one invocation, one shared result."""
    from aiuti.asyncio import threadsafe_async_cache

    async def sc():
        calls = []
        gate = aio.Event()

        @threadsafe_async_cache
        async def f(*a, **k):
            calls.append((a, dict(k)))
            await gate.wait()
            return object()
        t1 = aio.ensure_future(f(0, a=1, b=2))
        t2 = aio.ensure_future(f(0, b=2, a=1))
        await _turns(10)
        n = len(calls)
        gate.set()
        r1, r2 = await aio.gather(t1, t2)
        out = []
        if n != 1:
            out.append('C01/C14: calls equal up to keyword order ran %d invocations at once' % n)
        if r1 is not r2:
            out.append('C14: calls equal up to keyword order received different results')
        r3 = await f(0, b=2, a=1)
        if r3 is not r1 or len(calls) != 1:
            out.append('C14: a later call equal up to keyword order recomputed')
        return out
    return _run(sc)


def c14_hash_equal_arguments():
    """C14: arguments that merely hash alike (-1 / -2, 0 / 2**61-1) are different calls."""
    from aiuti.asyncio import threadsafe_async_cache

    async def sc():
        @threadsafe_async_cache
        async def f(*a, **k):
            return ('value for', a, tuple(sorted(k.items())))
        out = []
        for x, y in ((-1, -2), (0, 2 ** 61 - 1), (1.0, 1 + 2 ** 61 - 1)):
            for mk in (lambda v: ((v,), {}), lambda v: ((), {'k': v}), lambda v: ((7, v), {'z': v})):
                (a1, k1), (a2, k2) = mk(x), mk(y)
                r1 = await f(*a1, **k1)
                r2 = await f(*a2, **k2)
                if r1 != ('value for', a1, tuple(sorted(k1.items()))) or r2 != ('value for', a2, tuple(sorted(k2.items()))):
                    out.append('C14: f%r/%r returned %r, f%r/%r returned %r (arguments with equal hashes share an '
                               'entry)' % (a1, k1, r1, a2, k2, r2))
                    return out
        return out
    return _run(sc)


def c14_recheck_under_the_lock():
    """C14/C01: thread B misses the cache just before thread A stores the value and reaches the creation lock only
    after A has finished: B must find the value, not compute again."""
    from aiuti.asyncio import threadsafe_async_cache
    out = []
    b_missed = threading.Event()
    a_done = threading.Event()
    runs = []

    class Store(dict):
        def __getitem__(self, k):
            try:
                return dict.__getitem__(self, k)
            except KeyError:
                if threading.current_thread().name == 'B' and not b_missed.is_set():
                    b_missed.set()
                    a_done.wait(10)
                raise
    store = Store()

    @threadsafe_async_cache(cache=store)
    async def f(x):
        runs.append(threading.current_thread().name)
        return 'run#%d' % len(runs)
    res = {}

    def thread_a():
        b_missed.wait(10)
        lp = aio.new_event_loop()
        res['A'] = lp.run_until_complete(f(1))
        lp.close()
        a_done.set()

    def thread_b():
        lp = aio.new_event_loop()
        res['B'] = lp.run_until_complete(f(1))
        lp.close()
    ta = threading.Thread(target=thread_a, name='A')
    tb = threading.Thread(target=thread_b, name='B')
    tb.start()
    ta.start()
    ta.join(20)
    tb.join(20)
    if ta.is_alive() or tb.is_alive():
        return ['C14: recheck scenario did not finish']
    if len(runs) != 1 or res.get('A') != res.get('B'):
        out.append('C14/C01: a caller that missed the cache just before the value was stored computed again after '
                   'the first computation had finished: invocations %r, results %r' % (runs, res))
    return out


def c01_none_result_is_a_result():
    """C01: an invocation that RETURNS None has returned successfully: it is never invoked again, waiting and later
    callers get that result."""
    from aiuti.asyncio import threadsafe_async_cache

    async def sc():
        calls = []
        gate = aio.Event()

        @threadsafe_async_cache
        async def init_once(x):
            calls.append(x)
            await gate.wait()
            return None if x == 'none' else 42
        out = []
        for key in ('none', 'other'):
            del calls[:]
            gate.clear()
            a = aio.ensure_future(init_once(key))
            await _turns(3)
            b = aio.ensure_future(init_once(key))
            await _turns(3)
            gate.set()
            ra, rb = await aio.gather(a, b)
            rc = await init_once(key)
            if len(calls) != 1 or not (ra is rb is rc):
                out.append('C01: key %r (result %r): %d invocations for one computing, one waiting and one later '
                           'caller' % (key, ra, len(calls)))
        return out
    return _run(sc)


def c14_bounded_store_evicts_right_after_the_store():
    """C06/C14: the caller-supplied mapping is a capacity-1 LRU; right after caller A stored its value another
    thread's computation for another key evicts it: A still returns the value it computed (no KeyError from the
    cache's own bookkeeping)."""
    from aiuti.asyncio import threadsafe_async_cache
    import collections
    out = []

    class LRU1(collections.OrderedDict):
        hook = None

        def __setitem__(self, k, v):
            collections.OrderedDict.__setitem__(self, k, v)
            while len(self) > 1:
                self.popitem(last=False)
            h, LRU1.hook = LRU1.hook, None
            if h is not None:
                h()
    store = LRU1()

    @threadsafe_async_cache(cache=store)
    async def compute(x):
        return ('value-for', x)

    def other_thread():
        th = threading.Thread(target=lambda: aio.run(compute('B')))
        th.start()
        th.join(20)
    LRU1.hook = other_thread
    lp = aio.new_event_loop()
    try:
        r = lp.run_until_complete(aio.wait_for(compute('A'), 30))
        if r != ('value-for', 'A'):
            out.append('C14: compute("A") returned %r' % (r,))
    except BaseException as e:  # noqa
        out.append('C06/C14: the entry of key A was evicted from the bounded caller-supplied mapping right after it '
                   'was stored; the call that COMPUTED the value ended with %r' % (e,))
    finally:
        lp.close()
    return out


def c06_callable_raising_when_called_and_check_then_read():
    """C06: (a) the wrapped callable raises at the call (before any coroutine exists): nothing is cached, later calls
    compute afresh instead of hanging; (b) a bounded store shared between threads loses an entry between a
    membership test and the read: no KeyError from the cache's own bookkeeping."""
    from aiuti.asyncio import threadsafe_async_cache
    import collections

    async def sc():
        out = []
        n = [0]

        def validating(x):
            n[0] += 1
            if n[0] == 1:
                raise ValueError('rejected at the call')

            async def run():
                return ('ok', x)
            return run()
        f = threadsafe_async_cache(validating)
        try:
            await f(1)
            out.append('C06: the first call did not see the ValueError of its own invocation')
        except ValueError:
            pass
        try:
            r = await aio.wait_for(f(1), 200)
            if r != ('ok', 1):
                out.append('C06: call after a failed one returned %r' % (r,))
        except BaseException as e:  # noqa
            out.append('C06: the wrapped callable raised when it was called; a later call for the same key ended with '
                       '%r instead of computing afresh (marker left behind)' % (e,))
        return out
    out = _run(sc)
    if out:
        return out

    class LRU1(collections.OrderedDict):
        hook = None

        def __contains__(self, k):
            r = collections.OrderedDict.__contains__(self, k)
            h, LRU1.hook = LRU1.hook, None
            if r and h is not None:
                h()
            return r

        def __setitem__(self, k, v):
            collections.OrderedDict.__setitem__(self, k, v)
            while len(self) > 1:
                self.popitem(last=False)
    store = LRU1()

    @threadsafe_async_cache(cache=store)
    async def g(x):
        return ('value-for', x)

    def other_thread():
        th = threading.Thread(target=lambda: aio.run(g(2)))
        th.start()
        th.join(20)
    lp = aio.new_event_loop()
    try:
        lp.run_until_complete(g(1))
        LRU1.hook = other_thread            # fires if the wrapper tests membership before it reads
        r = lp.run_until_complete(aio.wait_for(g(1), 30))
        if r != ('value-for', 1):
            out.append('C06/C14: g(1) returned %r' % (r,))
    except BaseException as e:  # noqa
        out.append('C06: the entry vanished from the bounded shared store between the membership test and the read; '
                   'the caller got %r from the cache\'s own bookkeeping' % (e,))
    finally:
        LRU1.hook = None
        lp.close()
    return out


def c05_closed_computing_loop_is_taken_over():
    """C05: the computing loop is closed mid-computation; a caller on another loop takes the computation over
    instead of retrying for ever."""
    import aiuti.asyncio as A

    class _Spin(BaseException):
        pass
    calls = []
    keep = []

    @A.threadsafe_async_cache
    async def f(x):
        calls.append(x)
        if len(calls) == 1:
            keep.append(aio.Event())
            await keep[-1].wait()             # never finishes on the first loop
        return 'v%d' % len(calls)
    l1 = aio.new_event_loop()
    t = l1.create_task(f(1))
    l1.run_until_complete(aio.sleep(0))
    l1.run_until_complete(aio.sleep(0))
    if calls != [1]:
        l1.close()
        return ['scenario set-up: first invocation did not start']
    l1.close()                                  # closed without cancelling the computing task
    attempts = [0]
    real = A.run_coro_ts

    def counting(coro, loop):
        attempts[0] += 1
        if attempts[0] > 200:
            coro.close()
            raise _Spin()
        return real(coro, loop)
    A.run_coro_ts = counting
    l2 = VTLoop()
    out = []
    try:
        try:
            r = l2.run_until_complete(aio.wait_for(f(1), 500))
            if r != 'v2' or calls != [1, 1]:
                out.append('C05: caller on another loop got %r after invocations %r (expected a take-over)' % (r, calls))
        except _Spin:
            out.append('C05: the computing loop was closed mid-computation; a caller on another loop tried %d times '
                       'to queue a proxy on the CLOSED loop without ever awaiting: it spins for ever instead of taking '
                       'the computation over' % attempts[0])
        except BaseException as e:  # noqa
            out.append('C05: caller on another loop ended with %r instead of recomputing' % (e,))
    finally:
        A.run_coro_ts = real
        t._log_destroy_pending = False      # abandoned on the closed loop on purpose
        del t
        l2.close()
    return out


def c05_stopped_computing_loop_recovery():
    """C05/C06: a cross-loop caller has queued its proxy on the live computing loop, which is then stopped (not
    closed) mid-computation: after the 60 s safety window the caller recomputes; it never sees a TimeoutError."""
    import aiuti.asyncio as A
    l1 = aio.new_event_loop()
    stop = A.loop_in_thread(l1)
    started = threading.Event()
    queued = threading.Event()
    calls = []
    keep = []           # a pending task is only weakly referenced by its loop: keep what it waits on alive

    @A.threadsafe_async_cache
    async def f(x):
        calls.append(x)
        if len(calls) == 1:
            started.set()
            keep.append(aio.Event())
            await keep[-1].wait()
        return 'v%d' % len(calls)
    keep.append(aio.run_coroutine_threadsafe(f(1), l1))
    if not started.wait(10):
        stop()
        return ['scenario set-up: the computing loop did not start the invocation']
    real = A.run_coro_ts

    def hooked(coro, loop):
        r = real(coro, loop)
        queued.set()
        return r
    A.run_coro_ts = hooked
    l2 = VTLoop()
    stopped = []

    async def caller():
        t = aio.ensure_future(f(1))
        for _ in range(200):
            if queued.is_set():
                break
            await aio.sleep(0)
        aio.run_coroutine_threadsafe(aio.sleep(0), l1).result(10)     # the proxy is being processed by l1
        stop()
        stopped.append(l2.time())
        try:
            return await aio.wait_for(t, 500), l2.time()
        except BaseException as e:  # noqa
            return e, l2.time()
    out = []
    try:
        r, when = l2.run_until_complete(caller())
        import os
        if os.environ.get('DIRECTED_DEBUG'):
            print('debug stopped-loop scenario:', r, when, calls, queued.is_set(), stopped)
        if not queued.is_set():
            out.append('scenario set-up: the caller never queued a proxy on the computing loop')
        elif isinstance(r, BaseException):
            out.append('C05/C06: the computing loop was stopped mid-computation; the cross-loop caller ended with %r at '
                       'virtual t=%.1f instead of recomputing after the safety window' % (r, when))
        elif r != 'v2' or when > 125:
            out.append('C05: cross-loop caller got %r at virtual t=%.1f (expected the recomputed v2 within the '
                       'safety window)' % (r, when))
    finally:
        A.run_coro_ts = real
        if not stopped:
            stop()
        l2.close()
        try:
            l1.close()
        except BaseException:  # noqa
            pass
    return out


def c06_own_cancellation_together_with_a_foreign_one():
    """C06: the caller's own cancel arrives in the same loop iteration in which its shielded inner waiter ends
    cancelled: the call ends cancelled (it does not go on to compute)."""
    from aiuti.asyncio import threadsafe_async_cache

    async def sc():
        calls = []
        gate = aio.Event()

        @threadsafe_async_cache
        async def f(x):
            calls.append(x)
            await gate.wait()
            return x
        a = aio.ensure_future(f(1))
        await _turns(3)
        b = aio.ensure_future(f(1))
        await _turns(5)
        inner = [t for t in aio.all_tasks() if t not in (a, b, aio.current_task())]
        if len(inner) != 1:
            return ['scenario set-up: expected exactly one inner waiter task, found %d' % len(inner)]
        inner[0].cancel()          # what the shutdown of the computing loop does to the proxy
        a.cancel()
        b.cancel()
        await _turns(10)
        out = []
        if not b.done() or not b.cancelled():
            out.append('C06: a waiting caller whose own task was cancelled (together with its inner waiter) is %s and '
                       'made invocations %r: its cancellation was swallowed'
                       % ('still running' if not b.done() else 'done: %r' % (b.exception() if not b.cancelled() else None), calls))
        gate.set()
        await aio.gather(a, b, return_exceptions=True)
        return out
    return _run(sc)


def c06_cancelled_waiter_ends_at_once():
    """C05/C06: a caller cancelled (or timed out) while waiting for another caller's computation ends at once --
    not when the computation ends, and never with the 60 s safety TimeoutError."""
    from aiuti.asyncio import threadsafe_async_cache

    async def sc():
        loop = aio.get_running_loop()
        gate = aio.Event()

        @threadsafe_async_cache
        async def f(x):
            await gate.wait()
            return x
        a = aio.ensure_future(f(1))
        await _turns(3)
        out = []
        for how in ('cancel', 'timeout'):
            t0 = loop.time()
            if how == 'cancel':
                b = aio.ensure_future(f(1))
                await aio.sleep(1)
                b.cancel()
            else:
                b = aio.ensure_future(aio.wait_for(f(1), 1))
                await aio.sleep(1)
            await _turns(20)
            if not b.done():
                done, _ = await aio.wait([b], timeout=200)
                out.append('C05/C06: a waiting caller was %s at virtual t=%.0f s but was still pending 20 loop turns later; '
                           'it ended at t=%.0f s with %r' % ('cancelled' if how == 'cancel' else 'timed out', t0 + 1, loop.time(),
                                                          (b.exception() if b.done() and not b.cancelled() else 'cancelled' if b.done() else 'nothing')))
                break
            ok = b.cancelled() if how == 'cancel' else isinstance(b.exception(), aio.TimeoutError)
            if not ok:
                out.append('C06: waiting caller (%s) ended with %r' % (how, b.exception()))
        gate.set()
        await aio.gather(a, return_exceptions=True)
        return out
    return _run(sc)


# ------------------------------------------------------------------------------------------------- buffer
def c03_foreign_thread_submission_reaches_an_idle_loop():
    """C03: arguments submitted from another thread while the buffer's loop sits idle in its selector (no timer
    pending) are delivered -- the hand-over must WAKE the loop."""
    import time
    from aiuti.asyncio import BufferAsyncCalls, loop_in_thread
    got = []
    seen = threading.Event()

    async def func(args):
        got.append(set(args))
        seen.set()
    l1 = aio.new_event_loop()
    aio.set_event_loop(l1)
    try:
        buf = BufferAsyncCalls(func, timeout=0.05)
    finally:
        aio.set_event_loop(None)
    stop = loop_in_thread(l1)
    out = []
    try:
        time.sleep(0.3)                 # the daemon task is now parked in `await q.get()`, the loop in select(None)
        for flavour in ('call', 'map'):
            seen.clear()
            del got[:]
            if flavour == 'call':
                buf(1)
            else:
                buf.map([2, 3])
            if not seen.wait(4):
                out.append('C03: %s from another thread while the loop was idle: nothing was delivered within 4 s '
                           '(buffer timeout 0.05 s); the hand-over did not wake the loop' % flavour)
                break
    finally:
        l1.call_soon_threadsafe(lambda: None)
        stop()
        for t in aio.all_tasks(l1):
            t.cancel()
        try:
            l1.run_until_complete(aio.sleep(0))
        except BaseException:  # noqa
            pass
        l1.close()
    return out


def c03_function_failing_with_its_own_cancelled_error():
    """C03/C07/C08: the wrapped function fails with a CancelledError of its own making (it awaited something that
    somebody else cancelled): that is a failed call -- arguments kept and offered again, later bursts served."""
    from aiuti.asyncio import BufferAsyncCalls

    async def sc():
        loop = aio.get_running_loop()
        attempts = []

        async def func(args):
            attempts.append((round(loop.time(), 3), set(args)))
            if len(attempts) == 1:
                f = loop.create_future()
                f.cancel()
                await f                      # CancelledError, but nobody cancelled the buffer's task
        buf = BufferAsyncCalls(func, timeout=1)
        buf(1)
        buf(2)
        await aio.sleep(5)
        buf(3)
        await aio.sleep(5)
        out = []
        if buf._waiting.done():
            out.append('C03/C07: after the wrapped function failed once with a CancelledError of its own the '
                       'background task has ended (%r); attempts %r' % (buf._waiting, attempts))
        delivered = set().union(*[a for _, a in attempts[1:]]) if len(attempts) > 1 else set()
        if not {1, 2, 3} <= delivered:
            out.append('C03/C08: arguments of the failed call / of the later burst never reached a successful call: '
                       'attempts %r' % (attempts,))
        buf._waiting.cancel()
        await aio.gather(buf._waiting, return_exceptions=True)
        return out
    return _run(sc)


def c08_foreign_thread_submission_restarts_the_quiet_period():
    """C08: a plain call from ANOTHER thread during the quiet period is noticed at once: the burst goes out in one
    call, timeout after that last submission (real time, judged only when the machine kept the schedule)."""
    import time
    from aiuti.asyncio import BufferAsyncCalls, loop_in_thread
    T = 1.0
    calls = []
    done = threading.Event()

    async def func(args):
        calls.append((time.monotonic(), set(args)))
        if {1, 2} <= set().union(*[a for _, a in calls]):
            done.set()
    l1 = aio.new_event_loop()
    aio.set_event_loop(l1)
    try:
        buf = BufferAsyncCalls(func, timeout=T)
    finally:
        aio.set_event_loop(None)
    stop = loop_in_thread(l1)
    out = []
    try:
        t1 = []
        l1.call_soon_threadsafe(lambda: (buf(1), t1.append(time.monotonic())))
        time.sleep(0.3)
        buf(2)
        t2 = time.monotonic()
        ok = done.wait(6)
        if t1 and t2 - t1[0] < 0.7:          # otherwise the machine was too slow to make the point: inconclusive
            if not ok:
                out.append('C08/C03: a call from another thread during the quiet period was never delivered '
                           '(calls: %r)' % [a for _, a in calls])
            elif len(calls) != 1 or calls[0][0] < t2 + T - 0.15:
                out.append('C08: submissions 0.3 s apart (timeout %.1f s, the second from another thread): calls %r at '
                           '%r s after the second submission; expected ONE call {1, 2} about %.1f s after it'
                           % (T, [a for _, a in calls], [round(t - t2, 2) for t, _ in calls], T))
    finally:
        stop()
        for t in aio.all_tasks(l1):
            t.cancel()
        try:
            l1.run_until_complete(aio.sleep(0))
        except BaseException:  # noqa
            pass
        l1.close()
    return out


def c03_falsy_arguments_and_zero_timeout():
    """C03/C08: arguments that are falsy values (0, None, '', False) are arguments like any other; timeout=0 means
    "call as soon as the burst is in", not "never"."""
    from aiuti.asyncio import BufferAsyncCalls

    async def sc():
        loop = aio.get_running_loop()
        out = []
        for args in ([0], [None], ['', 0], [False, None], [0, 7]):
            calls = []

            async def func(a, calls=calls):
                calls.append(set(a))
            buf = BufferAsyncCalls(func, timeout=1)
            for x in args:
                buf(x)
            try:
                await aio.wait_for(buf.wait(), 50)
            except BaseException as e:  # noqa
                out.append('C03: wait() after submitting %r ended with %r' % (args, e))
            got = set().union(*calls) if calls else set()
            if got != set(args):
                out.append('C03: submitted %r, the function received %r in %d calls (falsy arguments dropped)'
                           % (args, got, len(calls)))
            buf._waiting.cancel()
            await aio.gather(buf._waiting, return_exceptions=True)
            if out:
                return out
        calls = []

        async def func0(a):
            calls.append((round(loop.time(), 3), set(a)))
        buf = BufferAsyncCalls(func0, timeout=0)
        t0 = loop.time()
        buf(1)
        buf(2)
        await aio.sleep(10)
        if not calls or {1, 2} - set().union(*[a for _, a in calls]):
            out.append('C08/C03: timeout=0: the function was not called within 10 virtual seconds of the burst '
                       '(calls: %r)' % (calls,))
        buf._waiting.cancel()
        await aio.gather(buf._waiting, return_exceptions=True)
        return out
    return _run(sc)


def c07_cancelled_while_the_function_runs_and_reports_it_differently():
    """C07: the background task is cancelled while the wrapped function runs; the function reports the abort with
    an exception of its own: the task still terminates."""
    from aiuti.asyncio import BufferAsyncCalls

    async def sc():
        started = aio.Event()

        async def func(args):
            started.set()
            try:
                await aio.Event().wait()
            except aio.CancelledError:
                raise ConnectionError('upload aborted')
        buf = BufferAsyncCalls(func, timeout=1)
        buf(1)
        await aio.wait_for(started.wait(), 50)
        buf._waiting.cancel()
        await _turns(50)
        ok = buf._waiting.done()
        if not ok:
            buf._waiting.cancel()
            return ['C07: the background task was cancelled while the wrapped function was running (which raised '
                    'ConnectionError in response); 50 loop turns later it is still running: cancellation swallowed']
        return []
    return _run(sc)


def c07_shutdown_while_a_flush_is_requested():
    """C07: the buffer's background task is cancelled (what loop shutdown does) around the moment a wait() asks
    for a flush: it always terminates."""
    from aiuti.asyncio import BufferAsyncCalls

    async def one(k):
        async def func(args):
            await aio.sleep(0)
        buf = BufferAsyncCalls(func, timeout=1000)
        buf(1)
        await _turns(4)
        w = aio.ensure_future(buf.wait())
        await _turns(k)
        buf._waiting.cancel()
        await _turns(25)
        ok = buf._waiting.done()
        for t in (w, buf._waiting):
            t.cancel()
        await aio.gather(w, buf._waiting, return_exceptions=True)
        if not ok:
            return ['C07: the background task, cancelled %d loop turns after a wait() began (flush request '
                    'outstanding), is still running 25 turns later: its cancellation was taken for the flush' % k]
        return []

    async def sc():
        for k in range(0, 7):
            out = await one(k)
            if out:
                return out
        return []
    return _run(sc)


def c08_wait_from_anywhere_without_flush():
    """C08: wait_from_anywhere(cancel=False) is not a flush request: the burst still goes out in ONE call,
    timeout after its last submission."""
    from aiuti.asyncio import BufferAsyncCalls

    async def sc():
        loop = aio.get_running_loop()
        calls = []

        async def func(args):
            calls.append((round(loop.time(), 3), set(args)))
        buf = BufferAsyncCalls(func, timeout=1)
        buf(1)
        await aio.sleep(0.2)
        buf(2)
        await aio.sleep(0.1)
        w = aio.ensure_future(buf.wait_from_anywhere(cancel=False))
        await aio.sleep(0.3)
        buf(3)
        await aio.wait_for(w, 50)
        out = []
        if calls != [(1.6, {1, 2, 3})]:
            out.append('C08: submissions at t=0, 0.2, 0.6 (timeout 1) with a wait_from_anywhere(cancel=False) from t=0.3: '
                       'calls %r, expected one call {1, 2, 3} at t=1.6' % (calls,))
        return out
    return _run(sc)


def c03_producers_of_one_round_depend_on_each_other():
    """C03: producers handed in together are loaded side by side: an awaitable whose result is published by the
    async iterable submitted right after it still gets its result, and everything reaches the function."""
    from aiuti.asyncio import BufferAsyncCalls

    async def sc():
        loop = aio.get_running_loop()
        calls = []

        async def func(args):
            calls.append(set(args))
        buf = BufferAsyncCalls(func, timeout=1)
        summary = loop.create_future()

        async def rows():
            for r in ('r1', 'r2'):
                yield r
            summary.set_result('summary')
        buf.await_(summary)
        buf.amap(rows())
        out = []
        try:
            await aio.wait_for(buf.wait(), 100)
        except BaseException as e:  # noqa
            out.append('C03: wait() after await_(future) + amap(iterable that resolves the future) ended with %r; '
                       'function received %r' % (e, calls))
        got = set().union(*calls) if calls else set()
        if not out and got != {'r1', 'r2', 'summary'}:
            out.append('C03: await_(future) + amap(iterable that resolves the future): the function received %r' % (got,))
        buf._waiting.cancel()
        await aio.gather(buf._waiting, return_exceptions=True)
        return out
    return _run(sc)


def c03_wrapped_callable_without_a_name_fails_once():
    """C03: the wrapped callable may be a functools.partial or an instance with __call__ (no __name__): a call that
    fails is retried with the same arguments, whatever the callable is."""
    import functools
    from aiuti.asyncio import BufferAsyncCalls

    async def sc():
        out = []

        class Inst:
            def __init__(self):
                self.calls = []

            async def __call__(self, args):
                self.calls.append(set(args))
                if len(self.calls) == 1:
                    raise RuntimeError('first call fails')
        inst = Inst()
        pcalls = []

        async def pfunc(tag, args):
            pcalls.append(set(args))
            if len(pcalls) == 1:
                raise RuntimeError('first call fails')
        for name, fn, calls in (('callable instance', inst, inst.calls), ('functools.partial', functools.partial(pfunc, 't'), pcalls)):
            buf = BufferAsyncCalls(fn, timeout=1)
            buf(1)
            buf(2)
            try:
                await aio.wait_for(buf.wait(), 200)
            except BaseException as e:  # noqa
                out.append('C03: %s whose first call fails: wait() ended with %r; calls %r; background task: %r'
                           % (name, e, calls, buf._waiting))
            if not any(c >= {1, 2} for c in calls[1:]):
                out.append('C03: %s whose first call fails: the arguments were not offered again (calls %r)' % (name, calls))
            buf._waiting.cancel()
            await aio.gather(buf._waiting, return_exceptions=True)
        return out
    return _run(sc)


def c07_waiters_return_after_the_call_that_delivered_their_arguments():
    """C07: wait() returns once what was submitted before it has been delivered by a successful call, whatever is
    submitted afterwards (here: the function itself submits follow-up work on every call)."""
    from aiuti.asyncio import BufferAsyncCalls

    async def sc():
        rounds = 12
        state = {'n': 0, 'returned_at': {}}
        box = {}

        async def func(args):
            state['n'] += 1
            if state['n'] < rounds:
                box['buf'](('follow-up', state['n']))
            await aio.sleep(0)
        buf = box['buf'] = BufferAsyncCalls(func, timeout=1)
        buf('x')

        async def waiter(name, cancel):
            await buf.wait(cancel=cancel)
            state['returned_at'][name] = state['n']
        ws = [aio.ensure_future(waiter('cancel=True', True)), aio.ensure_future(waiter('cancel=False', False))]
        done, pending = await aio.wait(ws, timeout=500)
        out = []
        for t in pending:
            t.cancel()
        if pending:
            out.append('C07: wait() had not returned although the function had succeeded %d times since the submission '
                       'it waited for (returned: %r)' % (state['n'], state['returned_at']))
        late = {k: v for k, v in state['returned_at'].items() if v > 2}
        if late:
            out.append('C07: wait() returned only after %r successful calls although the first one delivered everything '
                       'submitted before it' % (late,))
        buf._waiting.cancel()
        await aio.gather(buf._waiting, return_exceptions=True)
        return out
    return _run(sc)


def c07_zero_timeout_and_wait_without_flush():
    """C07/C08: with timeout=0 the quiet period ends at once: wait(cancel=False) returns without anybody flushing."""
    from aiuti.asyncio import BufferAsyncCalls

    async def sc():
        calls = []

        async def func(args):
            calls.append(set(args))
        out = []
        for timeout in (0, 0.0, 2.5):
            del calls[:]
            buf = BufferAsyncCalls(func, timeout=timeout)
            for i in range(4):
                buf(i)
            ws = [aio.ensure_future(buf.wait(cancel=False)) for _ in range(2)]
            done, pending = await aio.wait(ws, timeout=3600)
            for t in pending:
                t.cancel()
            if pending or (set().union(*calls) if calls else set()) != {0, 1, 2, 3}:
                out.append('C07: timeout=%r: %d of 2 wait(cancel=False) calls had not returned after an hour with '
                           'nothing else going on; function received %r' % (timeout, len(pending), calls))
            buf._waiting.cancel()
            await aio.gather(buf._waiting, return_exceptions=True)
        return out
    return _run(sc)


def c08_large_burst_in_one_go():
    """C08/C03: a burst of 5000 plain calls made without giving the loop a turn is delivered completely, in one call,
    timeout after the burst."""
    from aiuti.asyncio import BufferAsyncCalls

    async def sc():
        loop = aio.get_running_loop()
        calls = []
        errors = []
        loop.set_exception_handler(lambda l, ctx: errors.append(ctx.get('exception') or ctx.get('message')))

        async def func(args):
            calls.append((round(loop.time(), 3), len(set(args))))
        buf = BufferAsyncCalls(func, timeout=1)
        t0 = loop.time()
        for i in range(5000):
            buf(i)
        await aio.sleep(30)
        out = []
        if [n for _, n in calls] != [5000] or round(calls[0][0] - t0, 3) != 1.0:
            out.append('C08: 5000 calls in one go at t=0 (timeout 1): calls (time, distinct arguments) %r, expected '
                       '[(1.0, 5000)]; loop errors: %r' % (calls[:4], errors[:2]))
        buf._waiting.cancel()
        await aio.gather(buf._waiting, return_exceptions=True)
        return out
    return _run(sc)


# ------------------------------------------------------------------------------------------------- batcher
def c10_failed_batch_does_not_widen_the_concurrency_limit():
    """C10/C15: max_concurrent_batches=1 still means ONE execution at a time after a batch function has failed."""
    from aiuti.asyncio import AsyncBackgroundBatcher

    async def sc():
        gates = {}
        active = [0, 0]
        order = []

        async def func(batch):
            batch = list(batch)
            k = batch[0][0]
            active[0] += 1
            active[1] = max(active[1], active[0])
            order.append(k)
            try:
                await gates.setdefault(k, aio.Event()).wait()
                if k == 'a':
                    raise RuntimeError('batch a fails')
                for key, arg in batch:
                    yield key, arg
            finally:
                active[0] -= 1
        b = AsyncBackgroundBatcher(func, max_batch_size=1, max_concurrent_batches=1, batch_timeout=0.01)
        calls = {k: aio.ensure_future(b(k, key=k)) for k in 'abc'}
        await aio.sleep(1)
        for k in 'abc':
            gates.setdefault(k, aio.Event())
        gates['a'].set()
        await aio.sleep(1)
        seen_after_failure = active[1], list(order)
        gates['b'].set()
        gates['c'].set()
        await aio.wait(list(calls.values()), timeout=100)
        out = []
        if active[1] > 1:
            out.append('C10/C15: max_concurrent_batches=1, batch a failed: %d executions of the batch function were in progress '
                       'at once afterwards (started: %r)' % (active[1], order))
        for k in 'bc':
            if not calls[k].done() or calls[k].cancelled() or calls[k].exception() or calls[k].result() != k:
                out.append('C10: caller %r was not answered with its own value after batch a failed' % k)
        for t in calls.values():
            t.cancel()
        return out
    return _run(sc)


def c09_caller_with_an_absorbed_cancellation_still_queues_its_request():
    """C09: a task that has absorbed a cancellation (a worker flushing a last item from its `except CancelledError`
    handler) is a caller like any other: its request is queued, callers sharing the key and later callers are answered."""
    from aiuti.asyncio import AsyncBackgroundBatcher

    async def sc():
        async def func(batch):
            for k, a in list(batch):
                yield k, a * 10
        b = AsyncBackgroundBatcher(func, batch_timeout=0.01)
        box = {}
        parked = aio.Event()

        async def worker():
            try:
                parked.set()
                await aio.sleep(3600)
            except aio.CancelledError:
                box['flush'] = aio.ensure_future(aio.shield(aio.wait_for(b(4, key='last'), 50)))
                try:
                    box['own'] = await b(4, key='last')
                except BaseException as e:  # noqa
                    box['own'] = e
        w = aio.ensure_future(worker())
        await parked.wait()
        w.cancel()
        await _turns(3)
        sharer = aio.ensure_future(b(4, key='last'))
        done, pending = await aio.wait([sharer], timeout=200)
        out = []
        if pending:
            sharer.cancel()
            out.append("C09: a caller sharing the key of a request made by a task with an absorbed cancellation was never "
                       "answered (the request was registered but never queued)")
        elif sharer.exception() or sharer.result() != 40:
            out.append('C09: the sharing caller got %r, expected 40' % (sharer.exception() or sharer.result(),))
        for t in (w, box.get('flush')):
            if t is not None:
                t.cancel()
        await aio.gather(*[t for t in (w, box.get('flush')) if t is not None], return_exceptions=True)
        return out
    return _run(sc)


def c09_cancelled_first_caller_leaves_the_retention_window_as_it_is():
    """C09/C11: with retention_timeout=R a later caller of the key gets the retained answer inside R and a fresh one
    after R -- the same whether or not the FIRST caller of the key was cancelled while its request was pending."""
    from aiuti.asyncio import AsyncBackgroundBatcher

    async def run_once(cancel_first):
        loop = aio.get_running_loop()
        gate = aio.Event()
        n = [0]

        async def func(batch):
            batch = list(batch)
            n[0] += 1
            mine = n[0]
            await gate.wait()
            for k, a in batch:
                yield k, '%s#%d' % (k, mine)
        b = AsyncBackgroundBatcher(func, batch_timeout=0.01, retention_timeout=10)
        first = aio.ensure_future(b(1, key='k'))
        await aio.sleep(0)
        sharer = aio.ensure_future(b(1, key='k'))
        await aio.sleep(0.5)            # the batch is with the batch function, held at the gate
        if cancel_first:
            first.cancel()
            await _turns(4)
        gate.set()
        seen = [await aio.wait_for(sharer, 100)]
        await aio.sleep(1)
        seen.append(await aio.wait_for(b(1, key='k'), 100))      # inside the window: the retained answer
        await aio.sleep(7)
        seen.append(await aio.wait_for(b(1, key='k'), 100))      # 8 s after the answer: still inside
        await aio.sleep(8)
        seen.append(await aio.wait_for(b(1, key='k'), 100))      # 16 s after: a fresh request
        return seen, n[0]

    async def sc():
        base = await run_once(False)
        got = await run_once(True)
        out = []
        if base != (['k#1', 'k#1', 'k#1', 'k#2'], 2):
            out.append('C11: retention_timeout=10, calls 1 s, 8 s and 16 s after the answer: %r' % (base,))
        if got != base:
            out.append('C09: with the first caller of the key cancelled while the request was pending the other callers '
                       'saw %r (batch function runs: %d); without the cancellation %r (%d)' % (got[0], got[1], base[0], base[1]))
        return out
    return _run(sc)


def c09_owner_cancelled_while_another_request_is_queued():
    """C09: the first caller of a key is cancelled while its batch is with the batch function and something else sits
    in the queue: the caller sharing the key still gets the result."""
    from aiuti.asyncio import AsyncBackgroundBatcher

    async def sc():
        gate, started = aio.Event(), aio.Event()
        batches = []

        async def func(batch):
            batch = list(batch)
            batches.append(batch)
            if any(k == 'k' for k, _ in batch):
                started.set()
                await gate.wait()
            for k, v in batch:
                yield k, v * 10
        b = AsyncBackgroundBatcher(func, batch_timeout=0.01)
        owner = aio.ensure_future(b(1, key='k'))
        await aio.sleep(0)
        joiner = aio.ensure_future(b(1, key='k'))
        await aio.wait_for(started.wait(), 100)
        other = aio.ensure_future(b(2, key='x'))     # gets its turn (and is queued) before the cancelled owner cleans up
        owner.cancel()
        await _turns(6)
        gate.set()
        done, pending = await aio.wait({joiner, other}, timeout=500)
        out = []
        for t in pending:
            t.cancel()
        if joiner in pending:
            out.append("C09: the caller sharing key 'k' was never answered after the first caller was cancelled")
        elif joiner.cancelled():
            out.append("C09: the caller sharing key 'k' ended with CancelledError although nobody cancelled it: cancelling "
                       "the first caller cancelled the shared request")
        elif joiner.exception() is not None or joiner.result() != 10:
            out.append("C09: the caller sharing key 'k' got %r, the batch function yielded 10"
                       % (joiner.exception() or joiner.result(),))
        if other in done and not other.cancelled() and (other.exception() is not None or other.result() != 20):
            out.append("C09: the unrelated caller 'x' got %r" % (other.exception() or other.result(),))
        return out
    return _run(sc)


def _mk_batchfn(log, loop, dur=0.0, gate=None, active=None):
    async def fn(batch):
        batch = list(batch)
        log.append((round(loop.time(), 3), [k for k, _ in batch]))
        if active is not None:
            active[0] += 1
            active[1] = max(active[1], active[0])
        try:
            if gate is not None:
                await gate.wait()
            if dur:
                await aio.sleep(dur)
            for k, a in batch:
                yield k, ('result', k, a, len(log))
        finally:
            if active is not None:
                active[0] -= 1
    return fn


def c04_burst_with_a_cancelled_caller():
    """C04: a burst larger than max_batch_size, one caller of it cancelled straight away, then the same key is
    requested again: every uncancelled call is answered with its own key's outcome."""
    from aiuti.asyncio import AsyncBackgroundBatcher

    async def one(k):
        loop = aio.get_running_loop()
        log = []
        b = AsyncBackgroundBatcher(_mk_batchfn(log, loop), max_batch_size=2, batch_timeout=10)
        ta, tb, tv = [aio.ensure_future(b(x)) for x in ('a', 'b', 'v')]
        await _turns(k)                   # the cancellation lands k loop turns after the burst
        tv.cancel()
        await _turns(3)
        tv2, tw = aio.ensure_future(b('v')), aio.ensure_future(b('w'))
        done, pending = await aio.wait([ta, tb, tv2, tw], timeout=500)
        out = []
        names = {ta: 'a', tb: 'b', tv2: 'v (second call)', tw: 'w'}
        for t in pending:
            out.append('C04: caller of %s was never answered (batches handed over: %r)' % (names[t], log))
            t.cancel()
        for t in done:
            r = t.exception() or t.result()
            if not (isinstance(r, tuple) and r[1] == names[t][0]):
                out.append('C04: caller of %s got %r' % (names[t], r))
        return ['(cancelled %d turns after the burst) %s' % (k, x) for x in out]

    async def sc():
        for k in range(0, 6):
            out = await one(k)
            if out:
                return out
        return []
    return _run(sc)


def c04_batch_size_lowered_while_assembling():
    """C04/C10: max_batch_size may be changed at any time (documented): lowering it below what the collector already
    holds, then one more request -- everybody is still answered."""
    from aiuti.asyncio import AsyncBackgroundBatcher

    async def sc():
        loop = aio.get_running_loop()
        log = []
        b = AsyncBackgroundBatcher(_mk_batchfn(log, loop), max_batch_size=10, batch_timeout=3600)
        first = [aio.ensure_future(b(i)) for i in (1, 2, 3)]
        await _turns(6)                     # collected; the collector sits in its timed wait
        b.max_batch_size = 2
        late = aio.ensure_future(b(4))
        await _turns(6)
        b.max_batch_size = 1                # whatever is assembled now is "full"
        more = aio.ensure_future(b(5))
        done, pending = await aio.wait(first + [late, more], timeout=20000)
        out = []
        if pending:
            out.append('C04: after max_batch_size was lowered while a batch was being assembled %d callers were never '
                       'answered (batches %r; processing loop: %r)' % (len(pending), [k for _, k in log], b._loop_task))
            for t in pending:
                t.cancel()
        return out
    return _run(sc)


def c04_batch_callable_raising_when_called_and_zero_batch_timeout():
    """C04/C10: a batch callable that is not an async generator function and raises when called: every caller of
    the batch gets that error; batch_timeout=0 hands an incomplete batch over at once; an eager batch callable is
    not started before a concurrency slot is free."""
    from aiuti.asyncio import AsyncBackgroundBatcher

    async def sc():
        loop = aio.get_running_loop()
        out = []

        def validating(batch):
            batch = list(batch)
            if any(a < 0 for _, a in batch):
                raise ValueError('negative argument in the batch')

            async def gen():
                for k, a in batch:
                    yield k, a * 2
            return gen()
        b = AsyncBackgroundBatcher(validating, max_batch_size=2, batch_timeout=1)
        ts = [aio.ensure_future(b(3)), aio.ensure_future(b(-4))]
        done, pending = await aio.wait(ts, timeout=100)
        if pending:
            out.append('C04: the batch callable raised when called; %d callers of that batch were never answered'
                       % len(pending))
            for t in pending:
                t.cancel()
        elif not all(isinstance(t.exception(), ValueError) for t in ts):
            out.append('C04: the batch callable raised ValueError when called; callers got %r'
                       % [t.exception() or t.result() for t in ts])
        # batch_timeout = 0
        log = []
        b0 = AsyncBackgroundBatcher(_mk_batchfn(log, loop), max_batch_size=8, batch_timeout=0)
        ts = [aio.ensure_future(b0(i)) for i in range(3)]
        done, pending = await aio.wait(ts, timeout=100)
        if pending:
            out.append('C04/C10: batch_timeout=0, 3 calls, max_batch_size=8: still unanswered after 100 virtual seconds '
                       '(batches handed over: %r)' % [k for _, k in log])
            for t in pending:
                t.cancel()
        # eager callable and the concurrency limit
        running = [0, 0]
        gate = aio.Event()

        def eager(batch):
            batch = list(batch)
            running[0] += 1
            running[1] = max(running[1], running[0])

            async def gen():
                try:
                    await gate.wait()
                    for k, a in batch:
                        yield k, a
                finally:
                    running[0] -= 1
            return gen()
        be = AsyncBackgroundBatcher(eager, max_batch_size=1, max_concurrent_batches=1, batch_timeout=0.1)
        ts = [aio.ensure_future(be(i)) for i in range(3)]
        await aio.sleep(5)
        peak = running[1]
        gate.set()
        await aio.wait(ts, timeout=100)
        if peak > 1:
            out.append('C10: an eager batch callable was started %d times at once, max_concurrent_batches=1' % peak)
        return out
    return _run(sc)


def c09_owner_cancelled_while_every_slot_is_busy():
    """C09/C11: every batch slot is busy; an owner is cancelled while its request is still queued; the key is asked
    for again: joiners of the cancelled owner are answered, no batch carries the key twice."""
    from aiuti.asyncio import AsyncBackgroundBatcher

    async def sc():
        loop = aio.get_running_loop()
        log, gate = [], aio.Event()
        b = AsyncBackgroundBatcher(_mk_batchfn(log, loop, gate=gate), max_batch_size=4, max_concurrent_batches=1,
                                   batch_timeout=1)
        busy = aio.ensure_future(b('busy'))
        await aio.sleep(3)                       # its batch holds the only slot (parked on the gate)
        owner = aio.ensure_future(b('K'))
        await _turns(3)
        joiner = aio.ensure_future(b('K'))
        await _turns(3)
        owner.cancel()
        await _turns(3)
        again = aio.ensure_future(b('K'))
        other = aio.ensure_future(b('z'))
        await aio.sleep(3)
        gate.set()
        done, pending = await aio.wait([busy, joiner, again, other], timeout=500)
        out = []
        if pending:
            out.append('C09: %d uncancelled callers were never answered after an owner was cancelled while all slots '
                       'were busy (batches: %r)' % (len(pending), [k for _, k in log]))
            for t in pending:
                t.cancel()
        for t, nm in ((joiner, 'K'), (again, 'K'), (other, 'z')):
            if t in done and (t.exception() or t.result()[1] != nm):
                out.append('C09: caller of %s got %r' % (nm, t.exception() or t.result()))
        for _, keys in log:
            if len(set(keys)) != len(keys):
                out.append('C11: a batch carried a key twice: %r' % (keys,))
        return out
    return _run(sc)


def c04_owner_cancelled_then_same_key_again_in_the_open_batch():
    """C04/C09/C11: the owner of a queued request is cancelled while its batch is still being assembled and the
    same key is requested again: the key is not queued twice, everybody else gets their own outcome."""
    from aiuti.asyncio import AsyncBackgroundBatcher

    async def sc():
        loop = aio.get_running_loop()
        log = []
        b = AsyncBackgroundBatcher(_mk_batchfn(log, loop), max_batch_size=3, batch_timeout=10)
        tk = aio.ensure_future(b('k'))
        await _turns(4)                   # picked up by the collector, batch still open
        tk.cancel()
        await _turns(3)
        tc, ta, td = [aio.ensure_future(b(x)) for x in ('k', 'a', 'd')]
        done, pending = await aio.wait([tc, ta, td], timeout=500)
        out = []
        names = {tc: 'k', ta: 'a', td: 'd'}
        for t in pending:
            out.append('C04: caller of %s was never answered (batches: %r)' % (names[t], log))
            t.cancel()
        for t in done:
            r = t.exception() or t.result()
            if not (isinstance(r, tuple) and r[1] == names[t]):
                out.append('C04/C09: caller of %s got %r (batches: %r)' % (names[t], r, log))
        for when, keys in log:
            if len(set(keys)) != len(keys):
                out.append('C11: a batch carried a key twice: %r' % (keys,))
        if not out:
            # the batcher keeps serving the key afterwards (retention_timeout = 0: nothing is remembered)
            n = len(log)
            again = aio.ensure_future(b('k'))
            done, pending = await aio.wait([again], timeout=500)
            if pending or len(log) != n + 1:
                out.append('C09/C11: after the cancelled owner\'s request was answered, a later call for the same key '
                           '%s; %d new batches (the answered entry was never forgotten)'
                           % ('was never answered' if pending else 'got %r' % (again.exception() or again.result(),),
                              len(log) - n))
        return out
    return _run(sc)


def c11_sharer_cancelled_while_pending():
    """C11/C09: a caller that merely shares a pending request is cancelled: the original caller is unaffected and
    the key is not queued again while the request is pending."""
    from aiuti.asyncio import AsyncBackgroundBatcher

    async def sc():
        loop = aio.get_running_loop()
        log = []
        b = AsyncBackgroundBatcher(_mk_batchfn(log, loop), max_batch_size=2, batch_timeout=10)
        owner = aio.ensure_future(b(1))
        await _turns(3)
        sharer = aio.ensure_future(b(1))
        await _turns(3)
        sharer.cancel()
        await _turns(3)
        late = aio.ensure_future(b(1))
        other = aio.ensure_future(b(2))
        done, pending = await aio.wait([owner, late, other], timeout=500)
        out = []
        for t in pending:
            out.append('C11/C09: a caller was never answered after a sharer of key 1 was cancelled (batches %r)' % (log,))
            t.cancel()
        if owner in done and (owner.cancelled() or owner.exception()):
            out.append('C09/C11: cancelling a caller that only SHARED the pending request ended the original caller '
                       'with %r' % ('CancelledError' if owner.cancelled() else owner.exception()))
        for when, keys in log:
            if len(set(keys)) != len(keys):
                out.append('C11: a batch carried a key twice: %r' % (keys,))
        if owner in done and late in done and not owner.cancelled() and not late.cancelled() \
                and not owner.exception() and not late.exception() and owner.result() != late.result():
            out.append('C11: callers of the same pending key received different outcomes')
        return out
    return _run(sc)


def c15_options_form_equals_direct_form_batcher():
    """C15/C10/C11: @async_background_batcher(opt=...) behaves like AsyncBackgroundBatcher(func, opt=...):
    concurrency limit, batch size after a timed wait, retention window."""
    from aiuti.asyncio import AsyncBackgroundBatcher, async_background_batcher

    async def sc():
        loop = aio.get_running_loop()
        out = []
        for form in ('options', 'direct-decorator', 'class'):
            # --- max_concurrent_batches=2, max_batch_size=4: 12 calls at once, executions parked on a gate
            log, active, gate = [], [0, 0], aio.Event()
            fn = _mk_batchfn(log, loop, gate=gate, active=active)
            kw = dict(max_batch_size=4, max_concurrent_batches=2, batch_timeout=0.5)
            call = (async_background_batcher(**kw)(fn) if form == 'options' else
                    async_background_batcher(fn, **kw) if form == 'direct-decorator' else AsyncBackgroundBatcher(fn, **kw))
            ts = [aio.ensure_future(call(i)) for i in range(12)]
            await aio.sleep(5)
            peak = active[1]
            gate.set()
            await aio.wait(ts, timeout=500)
            if peak > 2:
                out.append('C10/C15 (%s form): %d executions of the batch function in progress at once, '
                           'max_concurrent_batches=2' % (form, peak))
            if any(len(k) > 4 for _, k in log):
                out.append('C10/C15 (%s form): a batch of %d items, max_batch_size=4' % (form, max(len(k) for _, k in log)))
            # --- one request alone (collector sits in its timed wait), then a burst: max_batch_size still holds
            log2 = []
            fn2 = _mk_batchfn(log2, loop)
            kw2 = dict(max_batch_size=3, batch_timeout=25)
            call2 = (async_background_batcher(**kw2)(fn2) if form == 'options' else
                     async_background_batcher(fn2, **kw2) if form == 'direct-decorator' else AsyncBackgroundBatcher(fn2, **kw2))
            t0 = aio.ensure_future(call2(0))
            await aio.sleep(1)
            more = [aio.ensure_future(call2(i)) for i in range(1, 7)]
            await aio.wait([t0] + more, timeout=500)
            if any(len(k) > 3 for _, k in log2):
                out.append('C10/C15 (%s form): after a timed wait the collector handed over %r, max_batch_size=3'
                           % (form, [k for _, k in log2]))
            # --- retention window: batch_timeout=1, retention_timeout=10; calls at t, t+5 (remembered), t+20 (new)
            log3 = []
            fn3 = _mk_batchfn(log3, loop)
            kw3 = dict(batch_timeout=1, retention_timeout=10)
            call3 = (async_background_batcher(**kw3)(fn3) if form == 'options' else
                     async_background_batcher(fn3, **kw3) if form == 'direct-decorator' else AsyncBackgroundBatcher(fn3, **kw3))
            r1 = await call3('x')
            await aio.sleep(4)
            r2 = await call3('x')
            await aio.sleep(20)
            r3 = await call3('x')
            if r2 != r1 or len(log3) != 2 or r3 == r1:
                out.append('C11/C15 (%s form): retention_timeout=10, batch_timeout=1: outcomes %r / %r (+4 s) / %r '
                           '(+24 s), %d batches' % (form, r1, r2, r3, len(log3)))
            # --- the window also holds when the FIRST caller was cancelled while its request was in flight
            log5, gate5 = [], aio.Event()
            fn5 = _mk_batchfn(log5, loop, gate=gate5)
            kw5 = dict(batch_timeout=1, retention_timeout=10)
            call5 = (async_background_batcher(**kw5)(fn5) if form == 'options' else
                     async_background_batcher(fn5, **kw5) if form == 'direct-decorator' else AsyncBackgroundBatcher(fn5, **kw5))
            first = aio.ensure_future(call5('z'))
            await aio.sleep(2)                 # batch running, parked on the gate
            first.cancel()
            await _turns(3)
            gate5.set()
            await aio.sleep(1)
            await call5('z')                   # 1 s after the answer: inside the window
            if len(log5) != 1:
                out.append('C11/C15 (%s form): retention_timeout=10; the first caller was cancelled in flight, the '
                           'request was answered, a call 1 s later started batch #%d (window ignored)' % (form, len(log5)))
            # --- retention_timeout=0: nothing is remembered once answered
            log4 = []
            fn4 = _mk_batchfn(log4, loop)
            kw4 = dict(batch_timeout=1, retention_timeout=0)
            call4 = (async_background_batcher(**kw4)(fn4) if form == 'options' else
                     async_background_batcher(fn4, **kw4) if form == 'direct-decorator' else AsyncBackgroundBatcher(fn4, **kw4))
            q1 = await call4('y')
            q2 = await call4('y')
            if q1 == q2 or len(log4) != 2:
                out.append('C11/C15 (%s form): retention_timeout=0 but a call right after the answer got the old '
                           'outcome (%d batches)' % (form, len(log4)))
            if out:
                break
        return out
    return _run(sc)


def c15_options_form_cache_default():
    """C15/C14: one configured decorator object (options form, no cache given) reused on two functions: each
    function has its own store."""
    from aiuti.asyncio import threadsafe_async_cache

    async def sc():
        out = []
        for deco in (threadsafe_async_cache(), threadsafe_async_cache(cache=None)):
            @deco
            async def f(x):
                return ('f', x)

            @deco
            async def g(x):
                return ('g', x)
            rf, rg = await f(1), await g(1)
            if rf != ('f', 1) or rg != ('g', 1):
                out.append('C15/C14: two functions decorated with one options-form decorator share a store: '
                           'f(1)=%r g(1)=%r' % (rf, rg))
        store = {}
        d2 = threadsafe_async_cache(cache=store)

        @d2
        async def h(x):
            return ('h', x)
        await h(1)
        if len(store) != 1:
            out.append('C15/C14: the cache given to the options form is not the store (entries: %d)' % len(store))
        return out
    return _run(sc)


# ------------------------------------------------------------------------------------------------- bridges
def c16_producer_far_ahead_of_the_consumer():
    """C16: the source runs thousands of elements ahead of a slow consumer: nothing is lost, the end arrives."""
    import time
    from aiuti.asyncio import to_sync_iter, to_async_iter
    N = 5000
    out = []

    class Src:
        def __init__(self):
            self.i = 0

        def __aiter__(self):
            return self

        async def __anext__(self):
            if self.i >= N:
                raise StopAsyncIteration
            self.i += 1
            return self.i - 1
    got = []
    fin = threading.Event()

    def consume():
        it = to_sync_iter(Src())
        got.append(next(it))
        time.sleep(0.3)                  # the async producer runs on meanwhile
        for x in it:
            got.append(x)
        fin.set()
    t = threading.Thread(target=consume, daemon=True)
    t.start()
    if not fin.wait(15):
        out.append('C16: to_sync_iter over %d elements with a slow consumer: stuck after %d elements, the end of the '
                   'stream never arrived' % (N, len(got)))
    elif got != list(range(N)):
        out.append('C16: to_sync_iter delivered %d of %d elements' % (len(got), N))

    async def slow():
        r = []
        async for x in to_async_iter(iter(range(N))):
            r.append(x)
            if len(r) == 1:
                await aio.sleep(0.3)
        return r
    lp = aio.new_event_loop()
    try:
        r = lp.run_until_complete(aio.wait_for(slow(), 15))
        if r != list(range(N)):
            out.append('C16: to_async_iter delivered %d of %d elements' % (len(r), N))
    except BaseException as e:  # noqa
        out.append('C16: to_async_iter over %d elements with a slow consumer ended with %r' % (N, e))
    finally:
        lp.close()
    return out


def c16_debug_mode_and_reused_loop():
    """C16: the bridges work under asyncio's debug mode (which checks thread affinity of loop calls) and a loop
    supplied by the caller can be used for several bridges in a row."""
    from aiuti.asyncio import to_sync_iter, to_async_iter
    out = []

    class Boom(Exception):
        pass

    def src():
        yield 1
        yield 2
        yield 3
        raise Boom('source failed')

    async def consume():
        got = []
        try:
            async for x in to_async_iter(src()):
                got.append(x)
        except Boom:
            got.append('boom')
        return got
    try:
        r = aio.run(aio.wait_for(consume(), 8), debug=True)
        if r != [1, 2, 3, 'boom']:
            out.append('C16: to_async_iter under debug mode delivered %r, expected 1, 2, 3 and then the source\'s error' % (r,))
    except BaseException as e:  # noqa
        out.append('C16: to_async_iter under asyncio debug mode ended with %r (nothing handed over: the hand-over is '
                   'not thread-safe)' % (e,))

    async def asrc(n, fail=False):
        for i in range(n):
            await aio.sleep(0)
            yield i
        if fail:
            raise Boom('async source failed')
    mine = aio.new_event_loop()
    try:
        for rnd, (n, fail) in enumerate(((4, False), (3, False), (2, True))):
            box = []

            def run(n=n, fail=fail):
                try:
                    box.append(list(to_sync_iter(asrc(n, fail), loop=mine)))
                except Boom:
                    box.append('boom')
                except BaseException as e:  # noqa
                    box.append(e)
            th = threading.Thread(target=run, daemon=True)
            th.start()
            th.join(8)
            want = 'boom' if fail else list(range(n))
            if th.is_alive() or box != [want]:
                out.append('C16: bridge #%d over one caller-supplied loop: %s (loop closed: %s)'
                           % (rnd + 1, 'consumer never finished' if th.is_alive() else 'got %r, expected %r' % (box, want),
                              mine.is_closed()))
                break
    finally:
        if not mine.is_closed():
            mine.close()
    return out


def c17_every_kind_of_awaitable_crosses_loops():
    """C17: ensure_aw / run_aw_threadsafe hand over exactly the awaitable's result or exception for every kind of
    awaitable (coroutine, Task, Future, object with __await__), evaluated on the target loop."""
    from aiuti.asyncio import ensure_aw, run_aw_threadsafe, loop_in_thread
    target = aio.new_event_loop()
    stop = loop_in_thread(target)
    out = []

    class Boom(Exception):
        pass
    seen = []

    class Custom:
        def __init__(self, fail):
            self.fail = fail

        def __await__(self):
            seen.append(aio.get_running_loop())
            yield from aio.sleep(0).__await__()
            if self.fail:
                raise Boom('from the custom awaitable')
            return 'custom-ok'

    async def coro(fail):
        seen.append(aio.get_running_loop())
        if fail:
            raise Boom('from the coroutine')
        return 'coro-ok'

    def mk(kind, fail):
        if kind == 'coroutine':
            return coro(fail)
        if kind == 'custom':
            return Custom(fail)
        if kind == 'task':
            return aio.run_coroutine_threadsafe(_mk_task(coro(fail)), target).result(5)
        f = aio.run_coroutine_threadsafe(_mk_future(fail, Boom), target).result(5)
        return f

    async def _mk_task(c):
        return aio.ensure_future(c)

    async def _mk_future(fail, exc):
        f = aio.get_running_loop().create_future()
        if fail:
            f.set_exception(exc('from the future'))
        else:
            f.set_result('future-ok')
        return f

    async def main():
        for via in (ensure_aw, run_aw_threadsafe):
            for kind in ('coroutine', 'custom', 'task', 'future'):
                for fail in (False, True):
                    del seen[:]
                    aw = mk(kind, fail)
                    try:
                        r = await aio.wait_for(via(aw, target), 10)
                        got = ('ok', r)
                    except Boom as e:
                        got = ('boom', str(e))
                    except BaseException as e:  # noqa
                        got = ('other', repr(e))
                    want = 'boom' if fail else 'ok'
                    if got[0] != want or (kind in ('coroutine', 'custom') and seen and seen[0] is not target):
                        out.append('C17: %s(<%s%s>, loop running in another thread) -> %r (evaluated on the target '
                                   'loop: %s)' % (via.__name__, kind, ', failing' if fail else '', got,
                                                  bool(seen) and seen[0] is target))
                        return
    lp = aio.new_event_loop()
    try:
        lp.run_until_complete(main())
    except BaseException as e:  # noqa
        out.append('C17: scenario ended with %r' % (e,))
    finally:
        lp.close()
        stop()
        target.close()
    return out


def c17_idle_target_does_not_depend_on_the_default_executor():
    """C17: borrowing an idle loop works whatever the state of the CALLER loop's default executor (shut down, or a
    single thread that is busy)."""
    from aiuti.asyncio import ensure_aw
    from concurrent.futures import ThreadPoolExecutor
    out = []

    async def val():
        await aio.sleep(0)
        return 'ok'

    async def main_shutdown():
        await aio.get_running_loop().shutdown_default_executor()
        target = aio.new_event_loop()
        try:
            return await aio.wait_for(ensure_aw(val(), target), 10)
        finally:
            target.close()

    async def main_tiny():
        loop = aio.get_running_loop()
        pool = ThreadPoolExecutor(1)
        loop.set_default_executor(pool)
        release = threading.Event()
        busy = loop.run_in_executor(None, release.wait, 15)      # the only default worker is taken
        target = aio.new_event_loop()
        try:
            return await aio.wait_for(ensure_aw(val(), target), 6)
        finally:
            release.set()
            await busy
            target.close()
    for name, m in (('shut down', main_shutdown), ('single busy thread', main_tiny)):
        lp = aio.new_event_loop()
        try:
            r = lp.run_until_complete(m())
            if r != 'ok':
                out.append('C17: ensure_aw on an idle loop (caller default executor: %s) returned %r' % (name, r))
        except BaseException as e:  # noqa
            out.append('C17: ensure_aw on an idle loop with the caller loop\'s default executor %s ended with %r: the '
                       'awaitable was not evaluated' % (name, e))
        finally:
            try:
                lp.close()
            except BaseException:  # noqa
                pass
    return out


def c17_stop_function_called_before_the_background_thread_runs_the_loop():
    """C17: loop_in_thread(L) while L is running only because another caller borrowed it through ensure_aw: the call
    returns at once, the background thread takes L over when the borrower is done.  The stop function called in
    between (the thread owns L, run_forever() not entered yet) still has to stop THAT run and wait for the thread."""
    import aiuti.asyncio as A
    out = []
    L = aio.new_event_loop()
    armed, at_gate, gate_open = threading.Event(), threading.Event(), threading.Event()
    progress, stop_scheduled, a_running = threading.Event(), threading.Event(), threading.Event()
    real_rf, real_cst = L.run_forever, L.call_soon_threadsafe
    box = {}

    def run_forever():
        if armed.is_set() and not at_gate.is_set():
            at_gate.set()
            gate_open.wait(30)
        return real_rf()

    def call_soon_threadsafe(cb, *a, **kw):
        h = real_cst(cb, *a, **kw)
        if getattr(cb, '__name__', '') == 'stop':
            stop_scheduled.set()
            progress.set()
        return h
    L.run_forever, L.call_soon_threadsafe = run_forever, call_soon_threadsafe

    async def borrowed():
        box['ev'] = aio.Event()
        a_running.set()
        await box['ev'].wait()
        return 'A'

    def caller():
        try:
            box['A'] = aio.run(A.ensure_aw(borrowed(), L))
        except BaseException as e:  # noqa
            box['A'] = e
    ta = threading.Thread(target=caller, daemon=True)
    ta.start()
    try:
        if not a_running.wait(15):
            return ['C17 harness: the borrowed awaitable never ran on the target loop']
        armed.set()
        stop = A.loop_in_thread(L)
        real_cst(box['ev'].set)
        ta.join(15)
        if ta.is_alive() or box.get('A') != 'A':
            return ['C17: the caller that borrowed the loop did not finish: %r' % (box.get('A'),)]
        if not at_gate.wait(15):
            return ['C17: loop_in_thread(L) returned but its thread never took the loop over after the borrower left']
        s_done = threading.Event()

        def stopper():
            try:
                stop()
            except BaseException as e:  # noqa
                box['stop_exc'] = e
            s_done.set()
            progress.set()
        ts = threading.Thread(target=stopper, daemon=True)
        ts.start()
        if not progress.wait(15):
            out.append('C17: the stop function neither asked the loop to stop nor returned')
        elif s_done.is_set() and not stop_scheduled.is_set():
            gate_open.set()
            marker = threading.Event()
            real_cst(marker.set)
            ran = marker.wait(10)
            out.append('C17: the stop function of loop_in_thread returned (%r) without stopping anything while the '
                       'background thread owned the loop and was about to run it; afterwards the loop %s'
                       % (box.get('stop_exc'), 'ran on, forever' if ran else 'did not run'))
        else:
            gate_open.set()
            if not s_done.wait(15):
                out.append('C17: the stop function did not return after the loop had been run and stopped')
            elif 'stop_exc' in box:
                out.append('C17: the stop function raised %r' % (box['stop_exc'],))
            elif L.is_running():
                out.append('C17: the stop function returned while the loop is still running')
    finally:
        gate_open.set()
        try:
            real_cst(L.stop)
        except BaseException:  # noqa
            pass
    return out


def c17_closed_target_raises_whatever_the_awaitable_is():
    """C17: a closed target raises RuntimeError -- also for a future or task that is already settled."""
    import aiuti.asyncio as A

    async def sc():
        loop = aio.get_running_loop()
        closed = aio.new_event_loop()
        closed.close()
        out = []

        async def value():
            return 'task value'
        settled = loop.create_future()
        settled.set_result('stale value')
        failed = loop.create_future()
        failed.set_exception(ValueError('stale failure'))
        task = aio.ensure_future(value())
        await task
        pending_coro = value()
        for name, aw in (('a settled future', settled), ('a failed future', failed), ('a finished task', task),
                         ('a coroutine', pending_coro)):
            try:
                r = await A.ensure_aw(aw, closed)
                got = 'returned %r' % (r,)
            except RuntimeError:
                got = None
            except BaseException as e:  # noqa
                got = 'raised %r' % (e,)
            if got is not None:
                out.append('C17: ensure_aw(%s, <closed loop>) %s, expected RuntimeError' % (name, got))
        try:
            failed.exception()
            pending_coro.close()
        except BaseException:  # noqa
            pass
        return out
    return _run(sc, loop=aio.new_event_loop())


def c20_every_kind_of_awaitable_and_failure():
    """C20: gather_excs / raise_first_exc over coroutines, spawned Tasks, plain Futures (failed through
    set_exception with an exception that was never raised) and objects with __await__."""
    from aiuti.asyncio import gather_excs, raise_first_exc

    class E1(Exception):
        pass

    class Custom:
        def __init__(self, exc):
            self.exc = exc

        def __await__(self):
            yield from aio.sleep(0).__await__()
            if self.exc is not None:
                raise self.exc
            return 'ok'

    async def sc():
        loop = aio.get_running_loop()
        out = []

        async def co(exc):
            await aio.sleep(0)
            if exc is not None:
                raise exc
            return 'ok'

        def mk(kind, exc):
            if kind == 'coroutine':
                return co(exc)
            if kind == 'task':
                return aio.ensure_future(co(exc))
            if kind == 'custom':
                return Custom(exc)
            f = loop.create_future()
            if exc is None:
                f.set_result('ok')
            else:
                f.set_exception(exc)      # never raised: no traceback
            return f
        # failures that are BaseException-only count without `only`; one-shot iterables are gathered completely
        class Fatal(BaseException):
            pass
        fatal, later = Fatal('first'), E1('second')
        try:
            await raise_first_exc([co(fatal), co(None), co(later)])
            res = 'returned None'
        except BaseException as e:  # noqa
            res = e
        if res is not fatal:
            out.append('C20: raise_first_exc([fails with a BaseException-only error, ok, fails with an Exception]) -> %r, '
                       'expected the first failure in input order' % (res,))
        ran = []

        async def job(i, exc):
            ran.append(i)
            if exc is not None:
                raise exc
        e0, e2 = E1('job 0'), E1('job 2')
        got = [e async for e in gather_excs(job(i, x) for i, x in enumerate((e0, None, e2)))]
        if got != [e0, e2] or sorted(ran) != [0, 1, 2]:
            out.append('C20: gather_excs(<generator of 3 jobs, 0 and 2 failing>) yielded %r, jobs run %r' % (got, sorted(ran)))
        if out:
            return out
        # what is yielded / raised is the failure object itself, also for a chained failure (`raise X from Y`), and
        # cancelled children keep their place in the input order
        root = OSError(5, 'disk')

        async def chained():
            try:
                raise root
            except OSError as e:
                raise E1('chained') from e
        got = [e async for e in gather_excs([chained()], only=E1)]
        if len(got) != 1 or not isinstance(got[0], E1) or got[0].__cause__ is not root:
            out.append('C20: gather_excs([fails with E1 raised from an OSError], only=E1) yielded %r' % (got,))
        parked = aio.ensure_future(aio.sleep(3600))
        await aio.sleep(0)
        parked.cancel()
        boom = E1('boom')
        got = [e async for e in gather_excs([co(None), parked, co(boom)])]
        if len(got) != 2 or not isinstance(got[0], aio.CancelledError) or got[1] is not boom:
            out.append('C20: gather_excs([ok, cancelled child, failing]) yielded %r: not in input order' % (got,))
        # the collection handed in is read ONCE: tasks that leave a shared registry when done are still reported
        registry = []
        fa, fc = E1('reg a'), E1('reg c')
        for exc in (fa, None, fc):
            t = aio.ensure_future(co(exc))
            registry.append(t)
            t.add_done_callback(registry.remove)
        got = [e async for e in gather_excs(registry)]
        if got != [fa, fc]:
            out.append('C20: gather_excs(<registry that finished tasks remove themselves from>) yielded %r, expected the '
                       'two failures in input order' % (got,))
        # a narrow `only` filters cancelled children out like anything else that does not match
        for only, want in ((ValueError, ['ValueError']), (LookupError, ['KeyError']), (OSError, []),
                           ((OSError, ValueError), ['ValueError'])):
            victim = aio.ensure_future(aio.sleep(3600))
            await aio.sleep(0)
            victim.cancel()
            got = [type(e).__name__ async for e in gather_excs([co(None), victim, co(KeyError('k')), co(ValueError('v'))],
                                                               only=only)]
            if got != want:
                out.append('C20: gather_excs([ok, cancelled child, KeyError, ValueError], only=%r) yielded %r, expected %r'
                           % (only, got, want))
        # results are whatever the awaitables return (unhashable lists and dicts included) and failures need be
        # neither distinct nor unequal: two awaitables failing with the very same object are two failures
        shared = E1('shared')

        async def ret(v):
            return v
        try:
            got = [e async for e in gather_excs([ret([1, 2]), co(shared), ret({'k': []}), co(shared), ret(None), ret(None)])]
        except BaseException as e:  # noqa
            got = ('raised', e)
        if got != [shared, shared]:
            out.append('C20: gather_excs([returns a list, fails with X, returns a dict, fails with the same X, None, None]) '
                       '-> %r, expected [X, X]' % (got,))

        class EqAll(E1):
            def __eq__(self, o):
                return isinstance(o, EqAll)

            def __hash__(self):
                return 7
        q0, q1 = EqAll('q0'), EqAll('q1')
        got = [e async for e in gather_excs([co(q0), co(q1)])]
        if len(got) != 2 or got[0] is not q0 or got[1] is not q1:
            out.append('C20: gather_excs over two failures that compare equal yielded %r, expected both, in order' % (got,))
        if out:
            return out
        kinds = ('coroutine', 'task', 'future', 'custom')
        import itertools
        for combo in itertools.product(kinds, repeat=2):
            for fails in ((True, True), (False, True), (True, False), (False, False)):
                excs = [E1('e%d' % i) if fl else None for i, fl in enumerate(fails)]
                want = [e for e in excs if e is not None]
                try:
                    got = [e async for e in gather_excs([mk(k, e) for k, e in zip(combo, excs)])]
                except BaseException as e:  # noqa
                    out.append('C20: gather_excs over %r raised %r itself' % (combo, e))
                    return out
                if got != want:
                    out.append('C20: gather_excs over %r with failures %r yielded %r, expected %r' % (combo, fails, got, want))
                    return out
                try:
                    r = await raise_first_exc([mk(k, e) for k, e in zip(combo, excs)])
                    res = ('returned', r)
                except E1 as e:
                    res = ('raised', e)
                except BaseException as e:  # noqa
                    res = ('other', e)
                exp = ('raised', want[0]) if want else ('returned', None)
                if res[0] != exp[0] or (res[0] == 'raised' and res[1] is not exp[1]) or (res[0] == 'returned' and res[1] is not None):
                    out.append('C20: raise_first_exc over %r with failures %r -> %r, expected %r' % (combo, fails, res, exp))
                    return out
        return out
    return _run(sc, loop=aio.new_event_loop())


SCENARIOS = {
    'C01': [c01_owner_cancelled_mid_invocation, c01_keyword_order, c14_recheck_under_the_lock,
            c01_none_result_is_a_result],
    'C14': [c01_keyword_order, c14_hash_equal_arguments, c14_recheck_under_the_lock, c15_options_form_cache_default,
            c14_bounded_store_evicts_right_after_the_store],
    'C05': [c05_closed_computing_loop_is_taken_over, c05_stopped_computing_loop_recovery,
            c06_cancelled_waiter_ends_at_once],
    'C06': [c06_own_cancellation_together_with_a_foreign_one, c06_cancelled_waiter_ends_at_once,
            c05_stopped_computing_loop_recovery, c14_bounded_store_evicts_right_after_the_store,
            c06_callable_raising_when_called_and_check_then_read],
    'C03': [c03_foreign_thread_submission_reaches_an_idle_loop, c03_function_failing_with_its_own_cancelled_error,
            c03_falsy_arguments_and_zero_timeout, c03_producers_of_one_round_depend_on_each_other,
            c08_large_burst_in_one_go, c03_wrapped_callable_without_a_name_fails_once],
    'C04': [c04_burst_with_a_cancelled_caller, c04_owner_cancelled_then_same_key_again_in_the_open_batch,
            c04_batch_size_lowered_while_assembling, c04_batch_callable_raising_when_called_and_zero_batch_timeout],
    'C09': [c04_owner_cancelled_then_same_key_again_in_the_open_batch, c11_sharer_cancelled_while_pending,
            c09_owner_cancelled_while_every_slot_is_busy, c09_owner_cancelled_while_another_request_is_queued,
            c09_cancelled_first_caller_leaves_the_retention_window_as_it_is,
            c09_caller_with_an_absorbed_cancellation_still_queues_its_request],
    'C10': [c10_failed_batch_does_not_widen_the_concurrency_limit,
            c15_options_form_equals_direct_form_batcher, c04_batch_size_lowered_while_assembling,
            c04_batch_callable_raising_when_called_and_zero_batch_timeout],
    'C11': [c11_sharer_cancelled_while_pending, c04_owner_cancelled_then_same_key_again_in_the_open_batch,
            c15_options_form_equals_direct_form_batcher],
    'C15': [c15_options_form_equals_direct_form_batcher, c15_options_form_cache_default,
            c10_failed_batch_does_not_widen_the_concurrency_limit],
    'C16': [c16_producer_far_ahead_of_the_consumer, c16_debug_mode_and_reused_loop],
    'C17': [c17_every_kind_of_awaitable_crosses_loops, c17_idle_target_does_not_depend_on_the_default_executor,
            c17_stop_function_called_before_the_background_thread_runs_the_loop,
            c17_closed_target_raises_whatever_the_awaitable_is],
    'C20': [c20_every_kind_of_awaitable_and_failure],
    'C07': [c07_shutdown_while_a_flush_is_requested, c03_function_failing_with_its_own_cancelled_error,
            c07_cancelled_while_the_function_runs_and_reports_it_differently,
            c07_waiters_return_after_the_call_that_delivered_their_arguments, c07_zero_timeout_and_wait_without_flush],
    'C08': [c08_wait_from_anywhere_without_flush, c03_function_failing_with_its_own_cancelled_error,
            c08_foreign_thread_submission_restarts_the_quiet_period, c03_falsy_arguments_and_zero_timeout,
            c08_large_burst_in_one_go],
}


def run(prop):
    problems = []
    for fn in SCENARIOS.get(prop.upper(), []):
        try:
            pr = fn()
        except BaseException:  # noqa
            raise          # a crash of the scenario driver itself is a harness error (exit 3), not a violation
        for p in pr:
            problems.append('%s: %s' % (fn.__name__, p))
    return problems
