"""Bounded stand-in for C01 (threadsafe_async_cache is single-flight) on the real code.

Oracle (from the property statement), checked by scenarios.props._cache_common.Harness:
  * OVERLAP    - when the wrapped function is entered no other invocation for the same key
                 is in progress on a running loop (an invocation whose loop stopped counts
                 as ended from the stop on);
  * RECOMPUTED - after an invocation returned successfully (retaining cache) the wrapped
                 function is never entered again for that key;
  * every caller that returns gets the result object of that one successful invocation.

BOUNDED domain (everything deterministic: one thread runs at a time under a director, one
shared virtual clock):
  F1 arrivals : 1..3 loops (threads), 2..3 (thorough 4) callers for one key assigned to the
                loops in every way, arrival instants from {0,1} (thorough {0,1,2}), computation
                duration from {no suspension, one bare yield, 1 s, 61 s, 125 s}, default dict
                and a non-dict retaining MutableMapping; loop-iteration schedules: two static
                priority orders (thorough: every schedule with <= 2 preemptions).
  F2 histories: every enabled sequence of <= 5 (thorough 6) events from {call on loop X,
                stop X (run_until_complete returns, computation pending), drain X (cancel
                leftovers as asyncio.run does), close X, release (computation returns),
                61 s pass} over 3 loops / <= 4 callers, loops never restarted; each followed
                by a standard ending and a fresh probing caller.
  F3 source   : 2 (3) threads calling at once with the cache mapping, the in-flight lock and
                run_coro_ts instrumented: every interleaving at those points and at loop
                iteration boundaries with <= 2 (thorough 3) preemptions; durations
                {no suspension, one yield, gate}.
"""
import itertools
import time

from scenarios.props import _cache_common as cc
from scenarios.props._cache_common import (
    Harness, HookedDict, PlainMapping, PrioChooser, enumerate_histories, explore, run_scenario)

NAMES = 'ABCD'
FINE = ('get', 'set', 'lock', 'rcts')


def _growth_strings(n, maxv):
    """assignments of n callers to loops, loops named in order of first use"""
    def rec(pre, used):
        if len(pre) == n:
            yield tuple(pre)
            return
        for v in range(min(used + 1, maxv)):
            yield from rec(pre + [v], max(used, v + 1))
    return rec([0], 1)


def _end(w, h, lts, n_expected=1):
    if not w.run_until(lambda: all(c.done for c in h.callers), 600):
        h.final_checks()
    h.final_checks()
    if len(h.invs) != n_expected:
        w.problem('INVOCATIONS: expected exactly %d invocation(s) of the wrapped function for one key, '
                  'saw %r' % (n_expected, h.invs))
    p = w.thread('P')
    w.start(p)
    c = h.call(p, 1)
    w.run_until(lambda: c.done, 200)
    h.final_checks()
    if len(h.invs) != n_expected:
        w.problem('INVOCATIONS: a late caller on a fresh loop caused another invocation: %r' % (h.invs,))
    for lt in lts + [p]:
        h.shutdown(lt)


def arrivals(assign, offs, dur, cache_kind):
    def sc(w):
        lts = [w.thread(NAMES[i]) for i in range(max(assign) + 1)]
        cache = None if cache_kind == 'dict' else PlainMapping()
        h = Harness(w, [(dur, 'ret')], cache=cache)
        w.log('F1 assign=%r offsets=%r duration=%r cache=%s' % (assign, offs, dur, cache_kind))
        for lt in lts:
            w.start(lt)
        for t, _, li in sorted(zip(offs, range(len(assign)), assign)):
            if t > w.now:
                w.run_for(t - w.now)
            h.call(lts[li], 1)
        _end(w, h, lts)
    return sc


def source_level(conf, dur):
    def sc(w):
        lts = [w.thread(NAMES[i]) for i in range(len(conf))]
        h = Harness(w, [(dur, 'ret')], cache=HookedDict())
        w.log('F3 callers per loop=%r duration=%r' % (conf, dur))
        for lt in lts:
            w.start(lt)
        for lt, n in zip(lts, conf):
            for _ in range(n):
                h.call(lt, 1)
        w.settle()
        for g in h.pending_gates():
            h.release(g)
        if not w.run_until(lambda: all(c.done for c in h.callers), 300):
            h.final_checks()
        if len(h.invs) != 1:
            w.problem('INVOCATIONS: expected exactly one invocation, saw %r' % (h.invs,))
    return sc


def run(thorough):
    probs = []
    counts = {}

    # ---- F1
    n = 0
    durs = [0, 'y', 1, 61, 125]
    offsets = [0, 1, 2] if thorough else [0, 1]
    for ncall in ((2, 3, 4) if thorough else (2, 3)):
        if not cc.want('F1'):
            continue
        for assign in _growth_strings(ncall, 3):
            for offs in itertools.product(offsets, repeat=ncall - 1):
                for dur in durs:
                    for ck in ('dict', 'mapping'):
                        sc = arrivals(assign, (0,) + offs, dur, ck)
                        if thorough and ncall <= 3:
                            def one(ch):
                                p = run_scenario(sc, ch)
                                probs.extend(p)
                                return p
                            r, _ = explore(one, pb=2, max_runs=100)
                            n += r
                        else:
                            nl = max(assign) + 1
                            for order in ([], list(range(nl))[::-1]):
                                if not probs:
                                    probs.extend(run_scenario(sc, PrioChooser(order)))
                                    n += 1
                        if probs:
                            counts['F1'] = n
                            return probs, counts
    counts['F1'] = n

    # ---- F2
    cfg = dict(nloops=3, max_len=6 if thorough else 5, max_callers=4,
               events={'call', 'stop', 'drain', 'close', 'release', 'tick'})
    n = 0
    for ck, order in (('dict', []), ('dict', [2, 1, 0]), ('mapping', [1, 0, 2])):
        if not cc.want('F2'):
            continue
        def onp(seq, p):
            probs.extend('F2 cache=%s priority=%r events=%r: %s' % (ck, order, seq, x) for x in p)
        n += enumerate_histories(
            cfg, lambda w: Harness(w, [('gate', 'ret')], cache=None if ck == 'dict' else PlainMapping()),
            onp, lambda: PrioChooser(order))
        if probs:
            counts['F2'] = n
            return probs, counts
    counts['F2'] = n

    # ---- F3
    n = 0
    if thorough:
        plan = [([1, 1], 3, None), ([2, 1], 3, 2500), ([1, 2], 2, None), ([2, 2], 2, 2000), ([1, 1, 1], 2, 2000)]
    else:
        plan = [([1, 1], 2, None), ([2, 1], 2, None), ([1, 1, 1], 1, None)]
    trunc = 0
    for conf, pb, cap in plan:
        if not cc.want('F3'):
            continue
        for dur in ((0, 'y') if (len(conf) == 3 and not thorough) else (0, 'y', 'gate')):
            sc = source_level(conf, dur)

            def one(ch):
                p = run_scenario(sc, ch, fine=FINE, step_budget=20000)
                probs.extend(p)
                return p
            r, t = explore(one, pb=pb, max_runs=cap)
            n += r
            trunc += t
            if probs:
                counts['F3'] = n
                return probs, counts
    counts['F3'] = n
    counts['F3 families truncated by run cap'] = trunc
    return probs, counts


C01_KINDS = {'OVERLAP', 'RECOMPUTED', 'WRONG VALUE', 'SECOND RESULT', 'INVOCATIONS'}


def main(thorough):
    t0 = time.time()
    cc.KINDS[0] = C01_KINDS
    del cc.NOTES[:]
    probs, counts = run(thorough)
    total = sum(v for k, v in counts.items() if len(k) == 2)
    print('C01 stand-in: %d scenario runs %r in %.1fs (bounded: <=3 loops/threads + probe loop, <=4 callers of one '
          'key, durations {0, yield, 1, 61, 125 s}, histories of <=%d life-cycle events, source-point '
          'interleavings with <=%d preemptions)'
          % (total, counts, time.time() - t0, 6 if thorough else 5, 3 if thorough else 2))
    for p in probs[:3]:
        print('PROBLEM:', p)
    if cc.NOTES:
        print('NOTE: %d scenario(s) ended early on findings that are not C01 matters (liveness / outcome '
              'isolation: see C05, C06), first: %s' % (len(cc.NOTES), cc.NOTES[0][:600]))
    return 1 if probs else 0
