"""Bounded stand-in for C16 (to_async_iter / to_sync_iter) on the real code, REAL threads.

Oracle (from the property statement):
  * the consumer receives exactly the source's elements (identity, order, multiplicity) and then
    the iteration stops; if the source raises after n elements the consumer receives those n
    elements and then THAT exception object;
  * while a synchronous iterator handed to to_async_iter is blocked inside __next__, a heartbeat
    task on the consuming loop keeps ticking (the source parks until it has ticked N more times;
    if it does not tick the loop is blocked -> violation);
  * when the iteration has finished (normally or by error) no thread that did not exist before is
    alive (the module level cross-loop pool is allowed).

BOUNDED: sources of length 0..4 (quick) / 0..6 (thorough) with a failure at every position
0..len or none; kinds: list, tuple, range, non-iterator iterable class, iter(list), generator,
class-based iterator, map, filter, itertools.chain, iter(callable, sentinel) for to_async_iter;
async generator, class-based async iterator, non-iterator async iterable, async generator that
really suspends, for to_sync_iter (loop=None and loop=<fresh loop>); element pools: ints,
None/duplicates/falsy values, sentinel look-alikes, one object repeated; schedules (forced by
rendez-vous, never by sleeping): free running, producer slower than the consumer (each source step
parks until the consumer is known to wait: N heartbeat ticks from a grid / consumer entered the
hand-off queue's get), producer finished before the consumer reads (to_sync_iter: before the first
read; both: after the first element).  If the implementation polls the hand-off queue, the consumer
is preempted where a poll comes back empty and the producer runs to completion there.
NOT covered: a consumer that stops early (the statement only speaks about finished iterations),
the private end-of-stream sentinel itself as an element.

Instruments: aiuti.asyncio.ThreadPoolExecutor / aiuti.asyncio.queue are replaced by recording
subclasses for the duration of the run (restored afterwards).  A rendez-vous that times out is a
harness error (exit 3) unless the statement says the code must have progressed.
"""
import asyncio as aio
import faulthandler
import gc
import itertools
import os
import queue as real_queue
import sys
import threading
import time
import warnings
from concurrent.futures import ThreadPoolExecutor as RealTPE, wait as cf_wait

import aiuti.asyncio as mod

HANG = 20.0          # a consumer that has not finished after this long is reported (violation: must finish)
RDV = 15.0           # rendez-vous bound (harness error when it expires)
SCENARIO_LIMIT = 90  # watchdog: one scenario may never take longer (harness error, exit 3)

_tl = threading.local()
_state = {'hung': False}


class HarnessError(Exception):
    pass


class Boom(Exception):
    pass


class BaseBoom(BaseException):
    pass


class _Obj:
    def __init__(self, name):
        self.name = name

    def __repr__(self):
        return '<%s>' % self.name


# --------------------------------------------------------------------------- watchdog
class Watchdog:
    def __init__(self):
        self.deadline = time.monotonic() + SCENARIO_LIMIT
        self.what = 'start'
        self.stop = threading.Event()
        self.t = threading.Thread(target=self._run, name='c16-watchdog', daemon=True)
        self.t.start()

    def kick(self, what):
        self.what = what
        self.deadline = time.monotonic() + SCENARIO_LIMIT

    def _run(self):
        while not self.stop.wait(0.5):
            if time.monotonic() > self.deadline:
                sys.stdout.flush()
                sys.stderr.write('HARNESS ERROR: scenario %r exceeded %ds\n' % (self.what, SCENARIO_LIMIT))
                faulthandler.dump_traceback(file=sys.stderr)
                sys.stderr.flush()
                os._exit(3)


# --------------------------------------------------------------------------- instruments
class RecordingPool(RealTPE):
    """ThreadPoolExecutor that tells the scenario which futures the bridge submitted."""

    def __init__(self, *a, **k):
        super().__init__(*a, **k)
        self._ctl = getattr(_tl, 'ctl', None)

    def submit(self, *a, **k):
        fut = super().submit(*a, **k)
        ctl = self._ctl
        if ctl is not None:
            ctl.futures.append(fut)
        return fut


class HookedQueue(real_queue.Queue):
    """queue.Queue whose get() is a rendez-vous point for the consuming thread."""

    def __init__(self, *a, **k):
        super().__init__(*a, **k)
        self._ctl = getattr(_tl, 'ctl', None)

    def get(self, block=True, timeout=None):
        ctl = self._ctl
        if ctl is None or threading.get_ident() != ctl.consumer_tid:
            return super().get(block, timeout)
        ctl.on_get_enter(block, timeout)
        try:
            return super().get(block, timeout)
        except real_queue.Empty:
            ctl.on_get_empty()
            raise


class _QueueNS:
    Queue = HookedQueue

    def __getattr__(self, name):
        return getattr(real_queue, name)


class Heart:
    """Heartbeat task of the consuming loop; foreign threads can wait for N further ticks."""

    def __init__(self):
        self.ticks = 0
        self.lock = threading.Lock()
        self.waiters = []

    async def run(self):
        while True:
            self.ticks += 1
            if self.waiters:
                with self.lock:
                    keep = []
                    for target, ev in self.waiters:
                        if self.ticks >= target:
                            ev.set()
                        else:
                            keep.append((target, ev))
                    self.waiters = keep
            await aio.sleep(0)

    def wait_ticks(self, n, timeout):
        ev = threading.Event()
        with self.lock:
            start = self.ticks
            self.waiters.append((start + n, ev))
        ok = ev.wait(timeout)
        return ok, start, self.ticks


class Ctl:
    """Per-scenario schedule controller shared by source, consumer hooks and driver."""

    def __init__(self, side, mode, n):
        self.side = side            # 'A' to_async_iter, 'S' to_sync_iter
        self.mode = mode            # free | slow | fast | fast1
        self.n = n
        self.heart = Heart()
        self.loop_tid = None
        self.consumer_tid = None
        self.cond = threading.Condition()
        self.want = False
        self.release_all = False
        self.exhausted = threading.Event()
        self.futures = []
        self.problems = []
        self.harness = []
        self.gets = 0
        self.polls = 0
        self.consumed = 0
        self.fast_done = False
        self.step_on_loop = False
        self.preempted = 0

    # ---- producer side -------------------------------------------------------------------
    def before_step(self, i):
        try:
            if self.release_all:
                return
            if self.side == 'A':
                if threading.get_ident() == self.loop_tid:
                    self.step_on_loop = True
                if self.mode != 'slow':
                    return
                on_loop = threading.get_ident() == self.loop_tid
                ok, start, now = self.heart.wait_ticks(self.n, 0.25 if on_loop else RDV)
                if not ok:
                    self.release_all = True
                    self.problems.append(
                        'event loop blocked while the synchronous iterator was blocked in __next__ (step %d): '
                        'the heartbeat task went from tick %d to %d, expected >= %d%s'
                        % (i, start, now, start + self.n,
                           '; __next__ was called ON the event-loop thread' if on_loop else ''))
            else:
                if self.mode != 'slow':
                    return
                with self.cond:
                    ok = self.cond.wait_for(lambda: self.want or self.release_all, RDV)
                    self.want = False
                if not ok:
                    self.release_all = True
                    self.harness.append('source step %d: consumer never entered the hand-off queue get()' % i)
        except BaseException as e:  # noqa  a hook must never look like a source failure
            self.harness.append('before_step hook failed: %r' % (e,))

    def mark_exhausted(self):
        self.exhausted.set()

    # ---- consumer side (to_sync_iter, via HookedQueue) -----------------------------------
    def on_get_enter(self, block, timeout):
        try:
            self.gets += 1
            if not self.fast_done and (self.mode == 'fast' or (self.mode == 'fast1' and self.consumed >= 1)):
                self.fast_done = True
                self.wait_producer_done()
            if block and timeout is None:
                with self.cond:
                    self.want = True
                    self.cond.notify_all()
            else:
                self.polls += 1
        except BaseException as e:  # noqa
            self.harness.append('get hook failed: %r' % (e,))

    def on_get_empty(self):
        """A poll came back empty: preempt the consumer here, let the producer run to completion."""
        try:
            if self.mode != 'slow' or self.release_all:
                return
            self.preempted += 1
            with self.cond:
                self.release_all = True
                self.cond.notify_all()
            self.wait_producer_done()
        except BaseException as e:  # noqa
            self.harness.append('empty hook failed: %r' % (e,))

    def wait_producer_done(self):
        if not self.exhausted.wait(RDV):
            return False
        if self.futures:
            cf_wait(list(self.futures), timeout=RDV)
        return True

    async def await_producer_done(self):
        """Consumer of to_async_iter pauses (loop stays free) until the producer has finished."""
        if self.step_on_loop:
            return  # lazily iterated on the loop thread: nothing runs ahead
        end = time.monotonic() + RDV
        while time.monotonic() < end:
            if self.exhausted.is_set() and all(f.done() for f in self.futures):
                await aio.sleep(0)
                await aio.sleep(0)
                return
            await aio.sleep(0)

    def release(self):
        with self.cond:
            self.release_all = True
            self.cond.notify_all()


# --------------------------------------------------------------------------- sources
_END = _Obj('harness-end')


def make_step(elems, f, exc, ctl):
    def step(i):
        ctl.before_step(i)
        if f is not None and i == f:
            ctl.mark_exhausted()
            raise exc
        if i >= len(elems):
            ctl.mark_exhausted()
            return _END
        return elems[i]
    return step


class ClsIter:
    def __init__(self, step):
        self.step = step
        self.i = 0

    def __iter__(self):
        return self

    def __next__(self):
        v = self.step(self.i)
        if v is _END:
            raise StopIteration
        self.i += 1
        return v


def gen_source(step):
    i = 0
    while True:
        v = step(i)
        if v is _END:
            return
        yield v
        i += 1


class IterableCls:
    """Iterable that is NOT an iterator (iterated inline by design)."""

    def __init__(self, step):
        self.step = step

    def __iter__(self):
        return gen_source(self.step)


def callable_source(step):
    sent = _Obj('iter-sentinel')
    pos = [0]

    def call():
        v = step(pos[0])
        if v is _END:
            return sent
        pos[0] += 1
        return v
    return iter(call, sent)


SYNC_PLAIN = ['list', 'tuple', 'range', 'listiter']          # no code of ours runs: no failure, no parking
SYNC_INLINE = ['iterable_cls']                               # not an iterator: failure yes, parking no
SYNC_ITER = ['gen', 'cls', 'map', 'itercall', 'filter', 'chain']


def make_sync_source(kind, elems, f, exc, ctl):
    step = make_step(elems, f, exc, ctl)
    if kind == 'list':
        return list(elems)
    if kind == 'tuple':
        return tuple(elems)
    if kind == 'range':
        return range(len(elems))
    if kind == 'listiter':
        return iter(list(elems))
    if kind == 'iterable_cls':
        return IterableCls(step)
    if kind == 'gen':
        return gen_source(step)
    if kind == 'cls':
        return ClsIter(step)
    if kind == 'map':
        return map(lambda x: x, ClsIter(step))
    if kind == 'filter':
        return filter(lambda x: True, ClsIter(step))
    if kind == 'chain':
        return itertools.chain(ClsIter(step))
    if kind == 'itercall':
        return callable_source(step)
    raise HarnessError('unknown kind ' + kind)


async def agen_source(step, suspend):
    i = 0
    while True:
        v = step(i)
        if v is _END:
            return
        if suspend:
            await aio.sleep(0)
        yield v
        if suspend:
            await aio.sleep(0)
        i += 1


class AClsIter:
    def __init__(self, step):
        self.step = step
        self.i = 0

    def __aiter__(self):
        return self

    async def __anext__(self):
        v = self.step(self.i)
        if v is _END:
            raise StopAsyncIteration
        self.i += 1
        return v


class AIterableCls:
    def __init__(self, step):
        self.step = step

    def __aiter__(self):
        return agen_source(self.step, False)


ASYNC_KINDS = ['agen', 'acls', 'aiterable', 'agen_suspend']


def make_async_source(kind, elems, f, exc, ctl):
    step = make_step(elems, f, exc, ctl)
    if kind == 'agen':
        return agen_source(step, False)
    if kind == 'agen_suspend':
        return agen_source(step, True)
    if kind == 'acls':
        return AClsIter(step)
    if kind == 'aiterable':
        return AIterableCls(step)
    raise HarnessError('unknown kind ' + kind)


# --------------------------------------------------------------------------- checks
def leftover_threads(before):
    cross = set(getattr(mod._CROSS_LOOP_POOL, '_threads', ()))
    left = [t for t in threading.enumerate() if t not in before and t not in cross and t.is_alive()]
    for t in left:
        t.join(2.0)   # grace for a thread that is just exiting; only ever waited for on a leak
    return [t for t in left if t.is_alive()]


def same_seq(got, exp):
    return len(got) == len(exp) and all(a is b for a, b in zip(got, exp))


def verdict(desc, ctl, got, raised, exp, exp_exc, hung, left):
    """-> list of problem strings for one finished scenario"""
    if ctl.harness:
        raise HarnessError('%s: %s' % (desc, '; '.join(ctl.harness)))
    probs = list(ctl.problems)
    extra = ''
    if ctl.preempted:
        extra = ' [consumer polled the hand-off queue; preempted at an empty poll while the producer finished]'
    if hung:
        probs.append('iteration did not finish within %ds; received so far %r, expected %r then %s'
                     % (HANG, got, exp, 'that exception %r' % (exp_exc,) if exp_exc is not None else 'stop'))
        return ['%s: %s%s' % (desc, p, extra) for p in probs]
    if not same_seq(got, exp):
        probs.append('consumer received %r, source produced %r' % (got, exp))
    if exp_exc is None and raised is not None:
        probs.append('consumer got exception %r, expected a normal stop' % (raised,))
    if exp_exc is not None and raised is not exp_exc:
        probs.append('consumer got %s instead of the source\'s own exception object %r (after %d elements)'
                     % ('no exception (normal stop)' if raised is None else repr(raised), exp_exc, len(got)))
    if left:
        probs.append('helper thread(s) still alive after the iteration finished: %r' % ([t.name for t in left],))
    return ['%s: %s%s' % (desc, p, extra) for p in probs]


def run_async_case(kind, elems, f, exc, mode, n):
    """One to_async_iter scenario on a fresh plain asyncio loop."""
    desc = 'to_async_iter(%s len=%d fail_at=%r elems=%r) schedule=%s%s' % (
        kind, len(elems), f, elems, mode, '/%d ticks' % n if mode == 'slow' else '')
    ctl = Ctl('A', mode, n)
    src = make_sync_source(kind, elems, f, exc, ctl)
    exp = list(elems[:f]) if f is not None else list(elems)
    loop = aio.new_event_loop()
    out = {}

    async def body():
        ctl.loop_tid = threading.get_ident()
        hb = loop.create_task(ctl.heart.run())
        await aio.sleep(0)
        before = set(threading.enumerate())
        got = []

        async def consume():
            async for x in mod.to_async_iter(src):
                got.append(x)
                if mode == 'fast' and len(got) == 1:
                    await ctl.await_producer_done()

        task = loop.create_task(consume())
        await aio.wait({task}, timeout=HANG)
        out['got'] = got
        out['hung'] = not task.done()
        out['raised'] = None
        if task.done():
            out['raised'] = task.exception() if not task.cancelled() else aio.CancelledError()
            out['left'] = leftover_threads(before)
        else:
            _state['hung'] = True
            ctl.release()
            out['left'] = []
            task.cancel()
        hb.cancel()

    _tl.ctl = ctl
    try:
        loop.run_until_complete(body())
        if not out['hung']:
            loop.run_until_complete(loop.shutdown_asyncgens())
    finally:
        _tl.ctl = None
        if not out.get('hung'):
            loop.close()
    return verdict(desc, ctl, out['got'], out['raised'], exp, exc if f is not None else None, out['hung'], out['left'])


def run_sync_case(kind, elems, f, exc, mode, own_loop):
    """One to_sync_iter scenario; the consumer is a (daemon) thread so a lost sentinel cannot wedge us."""
    desc = 'to_sync_iter(%s len=%d fail_at=%r elems=%r, loop=%s) schedule=%s' % (
        kind, len(elems), f, elems, 'fresh loop' if own_loop else 'None', mode)
    ctl = Ctl('S', mode, 0)
    src = make_async_source(kind, elems, f, exc, ctl)
    exp = list(elems[:f]) if f is not None else list(elems)
    loop = aio.new_event_loop() if own_loop else None
    out = {'got': [], 'raised': None, 'left': []}
    finished = threading.Event()

    def consume():
        try:
            _tl.ctl = ctl
            ctl.consumer_tid = threading.get_ident()
            before = set(threading.enumerate())
            try:
                it = mod.to_sync_iter(src, loop=loop) if own_loop else mod.to_sync_iter(src)
                for x in it:
                    out['got'].append(x)
                    ctl.consumed = len(out['got'])
            except BaseException as e:  # noqa
                out['raised'] = e
            out['left'] = leftover_threads(before)
        except BaseException as e:  # noqa
            ctl.harness.append('consumer driver failed: %r' % (e,))
        finally:
            finished.set()

    t = threading.Thread(target=consume, name='c16-consumer', daemon=True)
    t.start()
    hung = not finished.wait(HANG)
    if hung:
        _state['hung'] = True
        ctl.release()
    else:
        t.join(RDV)
        if loop is not None:
            if loop.is_running():
                ctl.problems.append('the loop handed to to_sync_iter is still running after the iteration finished')
            else:
                loop.close()
    return verdict(desc, ctl, list(out['got']), out['raised'], exp, exc if f is not None else None, hung, out['left'])


# --------------------------------------------------------------------------- enumeration
class _EqualsEverything:
    """An ordinary element whose __eq__ says yes to anything (like unittest.mock.ANY): only an IDENTITY test
    against the private sentinel tells it from the end-of-stream marker."""
    def __eq__(self, other):
        return True

    def __ne__(self, other):
        return False

    __hash__ = object.__hash__

    def __repr__(self):
        return '<equals-everything>'


def pools():
    x = _Obj('X')
    anyv = _EqualsEverything()
    return [
        ('equals-everything', [1, anyv, 3, anyv, 5, 6]),
        ('ints', [0, 1, 2, 3, 4, 5]),
        ('falsy/dups', [None, 0, None, '', False, None]),
        ('sentinel-like', ['_DONE', StopIteration(), _Obj('object'), StopAsyncIteration(), Ellipsis, 'DONE']),
        ('same-object', [x, x, x, x, x, x]),
    ]


def shapes(maxlen, can_fail):
    for length in range(0, maxlen + 1):
        yield length, None
        if can_fail:
            for f in range(0, length + 1):
                yield length, f


def hooks_effective():
    """Does the bridge go through the instrumented names?  If not, hook-driven schedules are skipped."""
    ctl = Ctl('S', 'free', 0)

    async def one():
        yield 1

    def probe():
        _tl.ctl = ctl
        ctl.consumer_tid = threading.get_ident()
        try:
            ctl.res = list(mod.to_sync_iter(one()))
        except BaseException as e:  # noqa
            ctl.res = e
    t = threading.Thread(target=probe, daemon=True)
    t.start()
    t.join(HANG)
    return ctl.gets > 0, bool(ctl.futures)


def run(thorough, wd):
    probs = []
    runs = 0
    maxlen = 6 if thorough else 4
    tick_grid = [1, 2, 5] if thorough else [1, 3]
    exc_types = [Boom, KeyError, BaseBoom] if thorough else [Boom, KeyError]
    all_pools = pools()
    q_ok, pool_ok = hooks_effective()
    if not q_ok:
        print('note: to_sync_iter does not use aiuti.asyncio.queue.Queue.get; hook-driven schedules skipped')

    # ---------------- to_async_iter
    a_modes = [('free', 0)] + [('slow', n) for n in tick_grid] + [('fast', 0)]
    idx = 0
    for kind in SYNC_PLAIN + SYNC_INLINE + SYNC_ITER:
        can_fail = kind not in SYNC_PLAIN
        modes = a_modes if kind in SYNC_ITER else [('free', 0)]
        for pname, pool in all_pools:
            if kind == 'range' and pname != 'ints':
                continue
            if kind == 'itercall' and pname == 'equals-everything':
                continue      # iter(callable, sentinel) itself compares with ==: a harness artefact, not the bridge
            if not thorough and pname == 'same-object' and kind not in ('cls', 'gen'):
                continue
            for length, f in shapes(maxlen, can_fail):
                for mode, n in modes:
                    idx += 1
                    et = exc_types[idx % len(exc_types)]
                    exc = et('source failure at %r' % (f,)) if f is not None else None
                    wd.kick('A %s %s %d %r %s' % (kind, pname, length, f, mode))
                    runs += 1
                    probs += run_async_case(kind, pool[:length], f, exc, mode, n)
                    if probs:
                        return probs, runs
        gc.collect()

    # ---------------- to_sync_iter
    s_modes = ['free'] + (['slow', 'fast', 'fast1'] if q_ok else [])
    for kind in ASYNC_KINDS:
        for pname, pool in all_pools:
            if not thorough and pname == 'same-object' and kind != 'agen':
                continue
            for length, f in shapes(maxlen, True):
                for mode in s_modes:
                    for own_loop in ((True, False) if thorough else (idx % 2 == 0,)):
                        idx += 1
                        et = exc_types[idx % len(exc_types)]
                        exc = et('source failure at %r' % (f,)) if f is not None else None
                        wd.kick('S %s %s %d %r %s' % (kind, pname, length, f, mode))
                        runs += 1
                        probs += run_sync_case(kind, pool[:length], f, exc, mode, own_loop)
                        if probs:
                            return probs, runs
        gc.collect()
    return probs, runs


def main(thorough):
    t0 = time.time()
    warnings.simplefilter('ignore')
    wd = Watchdog()
    saved = (mod.ThreadPoolExecutor, mod.queue)
    mod.ThreadPoolExecutor = RecordingPool
    mod.queue = _QueueNS()
    try:
        probs, runs = run(thorough, wd)
    finally:
        mod.ThreadPoolExecutor, mod.queue = saved
        wd.stop.set()
    print('C16 stand-in: %d scenario runs, %.1fs (bounded: source length 0..%d x failure at every position or none; '
          '11 sync + 4 async source kinds; 4 element pools; schedules free / producer-slower (heartbeat ticks %s, '
          'get rendez-vous) / producer-finished-first; real threads, forced rendez-vous)'
          % (runs, time.time() - t0, 6 if thorough else 4, [1, 2, 5] if thorough else [1, 3]))
    for p in probs[:3]:
        print('PROBLEM:', p)
    rc = 1 if probs else 0
    if _state['hung']:
        # a wedged consumer / producer thread would block interpreter exit
        sys.stdout.flush()
        sys.stderr.flush()
        os._exit(rc)
    return rc
