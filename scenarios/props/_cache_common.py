"""
Shared machinery of the bounded stand-ins C01 / C05 / C06 / C14
(``aiuti.asyncio.threadsafe_async_cache``).

World
-----
A *serialised* multi-thread / multi-loop executor.  Every event loop lives in
its own real thread (so ``is_running()``, ``get_running_loop()`` and the
cross-loop path through ``run_coroutine_threadsafe`` are the real thing), but a
thread only ever executes while the director (the main thread) has granted it
one *segment*:

  * from one loop iteration boundary to the next (``_run_once`` is wrapped), or
  * in *fine* mode, up to the next instrumented source point
    (cache ``__getitem__`` / ``__setitem__``, ``event_making_lock`` acquire /
    release, ``run_coro_ts``).

Exactly one thread runs at a time, every hand-over is an explicit semaphore
rendez-vous with a (generous, never reached) real-time bound which raises
HarnessError, so the outcome depends only on the sequence of choices made by
the ``Chooser`` - never on the OS scheduler or the wall clock.  All loops share
ONE virtual clock (``World.now``) which only the director advances, to the next
timer of a *running* loop, when nothing is runnable: 60 s timeouts are exact
and free.  A loop whose ``run_forever`` has returned ("stopped") keeps its
pending tasks and timers but nothing on it runs: exactly the
"run_until_complete returned with the computation pending" histories.

Monitors
--------
``Harness`` owns the wrapped function: every invocation is recorded (key,
thread/loop, caller, virtual enter/exit time, how it ended) and every caller's
outcome is recorded.  Oracles (all derived from the property statements):

  * overlap   : at entry no other invocation for the key is in progress on a
                running loop (C01)
  * once      : no invocation for a key after a successful one (retaining cache)
  * outcome   : value == result of a successful invocation of that key (the
                first one for a retaining cache); exception == Boom raised by an
                invocation this very caller performed; cancelled only if the
                harness cancelled that caller (C01/C06)
  * promptness: at every quiescent point (nothing runnable at the current
                virtual instant) each pending caller on a running loop must be
                *justified*: an invocation for its key is in progress on a
                running loop.  The only excuse is an invocation that was
                abandoned by its loop stopping and whose exit was never
                observed: then the caller has until abandon-time + 60 s
                (C05/C06).  Nothing runnable, no timer, unjustified = hang.
"""
import asyncio as aio
import contextvars
import selectors
import sys
import threading
import warnings
from collections.abc import MutableMapping

import aiuti.asyncio as mod

GRANT_TIMEOUT = 120.0     # real seconds; only reached on a harness bug
SAFETY = 60.0             # the safety window named by the properties


class HarnessError(Exception):
    pass


class StopScenario(Exception):
    """raised by the monitors right after a problem was recorded"""


# ------------------------------------------------------------------ choosers
class Chooser:
    """Replayable DFS chooser with preemption bounding.

    pick(opts, cont): opts = runnable thread indices, cont = the thread which
    ran last if it is still runnable.  Continuing is free, switching away from
    a runnable thread costs one preemption."""

    def __init__(self, prefix=(), pb=None, max_cp=None):
        self.prefix = list(prefix)
        self.pb = pb
        self.max_cp = max_cp
        self.trace = []
        self.used = 0

    def pick(self, opts, cont):
        if len(opts) == 1:
            return opts[0]
        order = list(opts)
        if cont is not None:
            order.remove(cont)
            order.insert(0, cont)
            if self.pb is not None and self.used >= self.pb:
                return cont
        i = len(self.trace)
        if self.max_cp is not None and i >= self.max_cp:
            return order[0]
        c = self.prefix[i] if i < len(self.prefix) else 0
        if c >= len(order):
            raise HarnessError('schedule replay diverged (non-deterministic scenario?)')
        self.trace.append((c, len(order)))
        if cont is not None and order[c] != cont:
            self.used += 1
        return order[c]

    def next_prefix(self):
        tr = list(self.trace)
        while tr and tr[-1][0] + 1 >= tr[-1][1]:
            tr.pop()
        if not tr:
            return None
        return [c for c, _ in tr[:-1]] + [tr[-1][0] + 1]


class PrioChooser:
    """Static priorities: always run the runnable thread that comes first in
    `order` (threads not listed come last, by index)."""

    def __init__(self, order=()):
        self.order = list(order)
        self.trace = []

    def pick(self, opts, cont):
        def rank(i):
            return (self.order.index(i) if i in self.order else len(self.order), i)
        return min(opts, key=rank)

    def next_prefix(self):
        return None


def explore(run_one, pb=None, max_cp=None, max_runs=None):
    """DFS over all schedules of run_one(chooser). run_one returns truthy to stop
    (problem found). Returns (number of runs, truncated?)."""
    prefix = []
    runs = 0
    while True:
        ch = Chooser(prefix, pb, max_cp)
        stop = run_one(ch)
        runs += 1
        if stop:
            return runs, False
        prefix = ch.next_prefix()
        if prefix is None:
            return runs, False
        if max_runs is not None and runs >= max_runs:
            return runs, True


# ------------------------------------------------------------------ loops / threads
class _PollSel(selectors.DefaultSelector):
    def select(self, timeout=None):
        return super().select(0)


class WLoop(aio.SelectorEventLoop):
    def __init__(self, lt):
        self._lt = lt
        super().__init__(_PollSel())

    def time(self):
        return self._lt.world.now

    def _run_once(self):
        lt = self._lt
        lt.park('iter')
        if lt.stop_flag or lt.world.free_run:
            lt.stop_flag = False
            self._stopping = True
            return
        super()._run_once()


class LoopThread:
    def __init__(self, world, name, idx):
        self.world = world
        self.name = name
        self.idx = idx
        self.loop = WLoop(self)
        self.go = threading.Semaphore(0)
        self.state = 'idle'
        self.cmd = None
        self.quit = False
        self.error = None
        self.stop_flag = False
        self.waiting_lock = None
        self.closed = False
        self.ever_started = False
        self.thread = threading.Thread(target=self._main, daemon=True, name='W-' + name)
        self.thread.start()

    def __repr__(self):
        return self.name

    @property
    def running(self):
        return self.state != 'idle'

    def _main(self):
        self.world._idents[threading.get_ident()] = self
        self.go.acquire()
        while not self.quit:
            cmd, self.cmd = self.cmd, None
            if cmd is not None:
                try:
                    cmd()
                except BaseException as e:  # noqa
                    self.error = e
            self.state = 'idle'
            if self.world.free_run:
                break
            self.world.back.release()
            self.go.acquire()

    def park(self, label):
        w = self.world
        if w.free_run:
            return
        self.state = label
        w.back.release()
        self.go.acquire()
        if not w.free_run:
            self.state = 'run'


_WORLD = [None]
NOTES = []          # findings of kinds the running module does not judge (see World.problem)


def _quiet_unraisable(unraisable):
    # coroutines of abandoned tasks are closed by the GC after their loop was closed
    pass


class World:
    def __init__(self, chooser=None, fine=(), step_budget=4000, kinds=None):
        warnings.simplefilter('ignore')
        sys.unraisablehook = _quiet_unraisable
        self.now = 0.0
        self.free_run = False
        self.back = threading.Semaphore(0)
        self.threads = []
        self._idents = {}
        self.fine = set(fine)
        self.chooser = chooser if chooser is not None else PrioChooser()
        self.last = None
        self.step_budget = step_budget
        self.steps = 0
        self.problems = []
        self.notes = []
        self.kinds = kinds
        self.history = []      # script level events
        self.sched = []        # (thread, state it was resumed from)
        self.quiescent_hooks = []
        self.closed = False
        _WORLD[0] = self

    # -- construction
    def thread(self, name):
        lt = LoopThread(self, name, len(self.threads))
        self.threads.append(lt)
        return lt

    def current(self):
        return self._idents.get(threading.get_ident())

    def log(self, *what):
        self.history.append('t=%g %s' % (self.now, ' '.join(str(x) for x in what)))

    # -- reporting
    def describe(self):
        s = self.sched
        comp = []
        for name, st in s[-60:]:
            item = name if st == 'iter' else '%s@%s' % (name, st.replace('pt:', ''))
            if comp and comp[-1][0] == item:
                comp[-1][1] += 1
            else:
                comp.append([item, 1])
        txt = ' '.join(i if n == 1 else '%sx%d' % (i, n) for i, n in comp)
        return 'history=[%s] schedule(last %d of %d segments)=[%s]' % (
            '; '.join(self.history), min(len(s), 60), len(s), txt)

    def problem(self, msg):
        """record a finding and end the scenario. Findings whose kind (text before the
        first colon) is not among self.kinds are another property's business: they go to
        self.notes (the scenario still ends, its state is no longer meaningful)."""
        kind = msg.split(':', 1)[0]
        full = '%s | %s' % (msg, self.describe())
        if self.kinds is None or kind in self.kinds:
            self.problems.append(full)
        else:
            self.notes.append(full)
        if self.current() is None:      # director: unwind the scenario script
            raise StopScenario()
        # loop thread (inside the wrapped function / a caller): never disturb the
        # code under test, the director notices right after this segment

    # -- low level
    def _grant(self, lt):
        self.sched.append((lt.name, lt.state))
        lt.go.release()
        if not self.back.acquire(timeout=GRANT_TIMEOUT):
            raise HarnessError('thread %s did not report back within %gs (state %s); %s'
                               % (lt.name, GRANT_TIMEOUT, lt.state, self.describe()))
        if lt.error is not None:
            e, lt.error = lt.error, None
            raise HarnessError('exception escaped the loop thread %s: %r' % (lt.name, e)) from e
        if self.problems or self.notes:
            raise StopScenario()

    def point(self, label):
        """instrumented source point; parks the calling loop thread in fine mode"""
        lt = self.current()
        if lt is None or self.free_run or label.split('.')[0] not in self.fine:
            return
        lt.park('pt:' + label)

    def _has_work(self, lt):
        loop = lt.loop
        if loop._ready:
            return True
        lim = self.now + loop._clock_resolution
        for h in loop._scheduled:
            if not h._cancelled and h._when <= lim:
                return True
        return False

    def _runnable(self, lt):
        st = lt.state
        if st == 'iter':
            return self._has_work(lt)
        if st == 'idle':
            return False
        if st == 'lockwait':
            return not lt.waiting_lock.locked()
        return True

    def runnable(self):
        return [lt for lt in self.threads if self._runnable(lt)]

    # -- loop life cycle
    def start(self, lt):
        if lt.state != 'idle' or lt.closed:
            raise HarnessError('start(%s) in state %s' % (lt, lt.state))
        self.log('%s.start' % lt)
        lt.cmd = lt.loop.run_forever
        lt.ever_started = True
        self._grant(lt)
        if lt.state != 'iter':
            raise HarnessError('loop %s did not reach its first iteration: %s' % (lt, lt.state))

    def ensure_running(self, lt):
        if lt.state == 'idle':
            self.start(lt)

    def stop(self, lt):
        """make run_forever return right now, between two iterations (whatever is
        pending or ready stays so)"""
        if lt.state != 'iter':
            raise HarnessError('stop(%s) in state %s' % (lt, lt.state))
        self.log('%s.stop' % lt)
        lt.stop_flag = True
        self._grant(lt)
        if lt.state != 'idle':
            raise HarnessError('loop %s did not stop: %s' % (lt, lt.state))
        if self.last is lt:
            self.last = None
        for hook in list(self.stop_hooks):
            hook(lt)

    stop_hooks = ()

    def close_loop(self, lt):
        if lt.state != 'idle':
            raise HarnessError('close(%s) in state %s' % (lt, lt.state))
        self.log('%s.close' % lt)
        lt.loop.close()
        lt.closed = True

    # -- running
    def step(self):
        """run one segment of one runnable thread; False if nothing is runnable"""
        r = self.runnable()
        if not r:
            return False
        self.steps += 1
        if self.steps > self.step_budget:
            self.problem('SPIN: more than %d segments executed without the scenario '
                         'reaching quiescence at virtual time %g' % (self.step_budget, self.now))
        opts = [lt.idx for lt in r]
        cont = self.last.idx if (self.last is not None and self.last in r) else None
        lt = self.threads[self.chooser.pick(opts, cont)]
        self.last = lt
        self._grant(lt)
        return True

    def step_thread(self, lt):
        """run one segment of this very thread (script controlled, no choice)"""
        if not self._runnable(lt):
            return False
        self.steps += 1
        self.last = lt
        self._grant(lt)
        return True

    def settle(self):
        """run until nothing is runnable at the current virtual instant"""
        while self.step():
            pass
        for hook in self.quiescent_hooks:
            hook(False)

    def next_timer(self):
        best = None
        for lt in self.threads:
            if lt.state == 'idle':
                continue
            for h in lt.loop._scheduled:
                if not h._cancelled and (best is None or h._when < best):
                    best = h._when
        return best

    def run_for(self, dt, until=None):
        """advance virtual time by dt (firing every timer on the way) or until
        the predicate holds at a quiescent point. Returns True if `until` holds."""
        target = self.now + dt
        while True:
            self.settle()
            if until is not None and until():
                return True
            nt = self.next_timer()
            if nt is None or nt > target:
                if nt is None:
                    for hook in self.quiescent_hooks:
                        hook(True)
                self.now = max(self.now, target)
                self.settle()
                return until() if until is not None else False
            self.now = max(self.now, nt)

    def run_until(self, until, horizon=1000.0):
        return self.run_for(horizon, until)

    # -- teardown (always the same, also after problems / errors)
    def close(self):
        if self.closed:
            return
        self.closed = True
        self.free_run = True
        for lt in self.threads:
            lt.quit = True
            lt.go.release()
        stuck = []
        for lt in self.threads:
            lt.thread.join(30)
            if lt.thread.is_alive():
                stuck.append(lt.name)
        if _WORLD[0] is self:
            _WORLD[0] = None
        if stuck:
            raise HarnessError('loop threads did not terminate: %r' % stuck)
        # unwind the coroutines of abandoned tasks NOW (deterministically, instrumentation
        # inert) instead of whenever the garbage collector finds them
        for lt in self.threads:
            try:
                tasks = sorted(aio.all_tasks(lt.loop), key=_task_no)
            except Exception:
                tasks = []
            for t in tasks:
                try:
                    if not t.done():
                        t.get_coro().close()
                except BaseException:  # noqa
                    pass
        for lt in self.threads:
            try:
                if not lt.loop.is_closed():
                    lt.loop.close()
            except Exception:
                pass


# ------------------------------------------------------------------ instrumentation
class SchedLock:
    """stands in for threading.Lock() as event_making_lock"""

    def __init__(self):
        self._l = threading.Lock()
        self._w = _WORLD[0]     # the world it was created in; inert once that is closed

    def locked(self):
        return self._l.locked()

    def acquire(self, blocking=True, timeout=-1):
        w = self._w
        lt = w.current() if w is not None else None
        if lt is None or w.free_run:
            return self._l.acquire(blocking, timeout)
        w.point('lock.acquire')
        while not self._l.acquire(False):
            if w.free_run:
                return self._l.acquire(blocking, timeout)
            if not blocking:
                return False
            lt.waiting_lock = self
            lt.park('lockwait')
        lt.waiting_lock = None
        return True

    def release(self):
        self._l.release()
        w = self._w
        if w is not None:
            w.point('lock.released')

    def __enter__(self):
        self.acquire()
        return self

    def __exit__(self, *a):
        self.release()


_real_run_coro_ts = mod.run_coro_ts


def _hooked_run_coro_ts(coro, loop):
    w = _WORLD[0]
    if w is not None:
        w.point('rcts.before')
    fut = _real_run_coro_ts(coro, loop)
    if w is not None:
        w.point('rcts.after')
    return fut


mod.run_coro_ts = _hooked_run_coro_ts


class HookedDict(MutableMapping):
    """retaining mapping (a dict) with instrumented access points"""

    def __init__(self):
        self.data = {}
        self._w = _WORLD[0]

    def __getitem__(self, k):
        w = self._w
        if w is not None:
            w.point('get.before')
        try:
            return self.data[k]
        finally:
            if w is not None:
                w.point('get.after')

    def __setitem__(self, k, v):
        w = self._w
        if w is not None:
            w.point('set.before')
        self.data[k] = v
        if w is not None:
            w.point('set.after')

    def __delitem__(self, k):
        del self.data[k]

    def __iter__(self):
        return iter(self.data)

    def __len__(self):
        return len(self.data)


class PlainMapping(MutableMapping):
    """minimal retaining MutableMapping that is not a dict (falsy while empty)"""

    def __init__(self):
        self.data = {}

    def __getitem__(self, k):
        return self.data[k]

    def __setitem__(self, k, v):
        self.data[k] = v

    def __delitem__(self, k):
        del self.data[k]

    def __iter__(self):
        return iter(self.data)

    def __len__(self):
        return len(self.data)


# ------------------------------------------------------------------ harness function + monitors
class Boom(Exception):
    def __init__(self, inv):
        super().__init__('boom from invocation #%d' % inv.id)
        self.inv = inv


class Res:
    __slots__ = ('inv',)

    def __init__(self, inv):
        self.inv = inv

    def __repr__(self):
        return '<result of invocation #%d key=%r>' % (self.inv.id, self.inv.key)


class Inv:
    def __init__(self, id, key, lt, caller, now, beh):
        self.id, self.key, self.lt, self.caller, self.t_enter, self.beh = id, key, lt, caller, now, beh
        self.t_exit = None
        self.how = None
        self.abandoned_at = None
        self.gate = None
        self.gate_end = None
        self.result = None

    def __repr__(self):
        return '#%d(%s on %s, %s)' % (self.id, 'caller c%d' % self.caller.id if self.caller else '?', self.lt,
                                      self.how or ('abandoned' if self.abandoned_at is not None else 'in progress'))


class Caller:
    def __init__(self, id, key, lt, now, timeout):
        self.id, self.key, self.lt, self.t_start, self.timeout = id, key, lt, now, timeout
        self.t_end = None
        self.outcome = None
        self.cancel_req_at = None
        self.task = None

    @property
    def done(self):
        return self.outcome is not None

    def __repr__(self):
        return 'c%d(on %s, %s)' % (self.id, self.lt, self.outcome if self.outcome else 'pending')


_caller_var = contextvars.ContextVar('verif_caller', default=None)


def _task_no(t):
    name = t.get_name()
    try:
        return (0, int(name.rsplit('-', 1)[1]), name)
    except (IndexError, ValueError):
        return (1, 0, name)


def make_key(args, kwargs):
    return (tuple(args), frozenset(kwargs.items()))


class Harness:
    """the wrapped function, its callers and the oracles.

    plan: list of behaviours, the n-th invocation (per harness) uses plan[n] (last
    one repeated). behaviour = (dur, end): dur 0 = no suspension at all, 'y' = one
    bare yield (sleep(0)), number = virtual seconds, 'gate' = until release();
    end = 'ret' | 'raise'."""

    def __init__(self, world, plan, cache=None, retaining=True, check_overlap=True,
                 check_prompt=True, patch_lock=True, check_once=None):
        self.w = world
        self.plan = list(plan)
        self.invs = []
        self.callers = []
        self.retaining = retaining
        self.check_once = retaining if check_once is None else check_once
        self.check_overlap = check_overlap
        self.check_prompt = check_prompt
        old = getattr(mod, 'Lock', None)
        if patch_lock and old is not None:
            mod.Lock = SchedLock
        try:
            fn = self._make_fn()
            if cache is None:
                self.f = mod.threadsafe_async_cache(fn)
            else:
                self.f = mod.threadsafe_async_cache(fn, cache=cache)
        finally:
            if patch_lock and old is not None:
                mod.Lock = old
        world.quiescent_hooks.append(self._at_quiescence)
        world.stop_hooks = list(world.stop_hooks) + [self._on_stop]

    # -- the wrapped function
    def _make_fn(self):
        h = self

        async def fn(*args, **kwargs):
            w = h.w
            lt = w.current()
            key = make_key(args, kwargs)
            n = len(h.invs)
            beh = h.plan[min(n, len(h.plan) - 1)]
            inv = Inv(n, key, lt, _caller_var.get(), w.now, beh)
            if not w.free_run:
                h._on_enter(inv)
            h.invs.append(inv)
            dur, end = beh
            how = 'cancel'
            try:
                if dur == 'gate':
                    inv.gate = aio.Event()
                    await inv.gate.wait()
                    end = inv.gate_end or end
                elif dur == 'y':
                    await aio.sleep(0)
                elif isinstance(dur, tuple):       # several scheduling points
                    for d in dur:
                        await aio.sleep(0 if d == 'y' else d)
                elif dur:
                    await aio.sleep(dur)
                if end == 'raise':
                    how = 'raise'
                    raise Boom(inv)
                how = 'ret'
                inv.result = Res(inv)
                return inv.result
            except aio.CancelledError:
                how = 'cancel'
                raise
            finally:
                inv.t_exit = w.now
                inv.how = how
        return fn

    def live(self, key, exclude=None):
        return [i for i in self.invs if i.key == key and i.t_exit is None and i is not exclude
                and i.abandoned_at is None and i.lt is not None and i.lt.loop.is_running()]

    def _on_enter(self, inv):
        if self.check_overlap:
            others = self.live(inv.key)
            if others:
                self.w.problem('OVERLAP: invocation #%d for key %r entered on loop %s (caller %r) while %r still '
                               'in progress on a running loop' % (inv.id, inv.key, inv.lt, inv.caller, others))
        if self.check_once:
            ok = [i for i in self.invs if i.key == inv.key and i.how == 'ret']
            if ok:
                self.w.problem('RECOMPUTED: invocation #%d for key %r entered on loop %s (caller %r) although '
                               '%r had already returned successfully and the cache retains entries'
                               % (inv.id, inv.key, inv.lt, inv.caller, ok[0]))

    def _on_stop(self, lt):
        for i in self.invs:
            if i.lt is lt and i.t_exit is None and i.abandoned_at is None:
                i.abandoned_at = self.w.now

    def resume_abandoned(self, lt):
        """only for histories where a stopped loop is run again (C06)"""
        for i in self.invs:
            if i.lt is lt and i.t_exit is None:
                i.abandoned_at = None

    # -- callers
    def call(self, lt, *args, timeout=None, **kwargs):
        w = self.w
        c = Caller(len(self.callers), make_key(args, kwargs), lt, w.now, timeout)
        self.callers.append(c)
        w.log('c%d=%s.call%s%s' % (c.id, lt, args if not kwargs else (args, kwargs),
                                    '' if timeout is None else ' timeout=%g' % timeout))

        async def body():
            _caller_var.set(c)
            try:
                if timeout is None:
                    v = await self.f(*args, **kwargs)
                else:
                    v = await aio.wait_for(self.f(*args, **kwargs), timeout)
                c.outcome = ('value', v)
            except aio.CancelledError:
                c.outcome = ('cancelled', None)
                raise
            except BaseException as e:  # noqa
                c.outcome = ('exc', e)
            finally:
                c.t_end = w.now
                if not w.free_run:
                    self._on_caller_end(c)
        c.task = lt.loop.create_task(body())
        return c

    def cancel(self, c):
        self.w.log('cancel c%d' % c.id)
        if c.cancel_req_at is None:
            c.cancel_req_at = self.w.now
        c.task.cancel()

    def cancel_all(self, lt):
        """first half of an asyncio.run style shutdown (loop must be stopped)"""
        self.w.log('%s.cancel_all' % lt)
        tasks = aio.all_tasks(lt.loop)
        for c in self.callers:
            if c.task in tasks and c.cancel_req_at is None:
                c.cancel_req_at = self.w.now
        # all_tasks() is a set (address ordered): cancel in creation order so that the
        # scenario is reproducible
        for t in sorted(tasks, key=_task_no):
            t.cancel()
        return tasks

    def shutdown(self, lt, close=True):
        """asyncio.run style end of a loop: stop (if running), cancel leftovers, run
        until they are gone (other loops keep interleaving), close."""
        w = self.w
        if lt.state != 'idle':
            w.stop(lt)
        tasks = self.cancel_all(lt)
        if tasks:
            w.start(lt)
            if not w.run_until(lambda: all(t.done() for t in tasks), 200):
                w.problem('HANG: shutdown of loop %s: cancelled tasks still pending %r'
                          % (lt, [t for t in tasks if not t.done()]))
            w.stop(lt)
        if close:
            w.close_loop(lt)

    def release(self, inv, end=None):
        self.w.log('release #%d%s' % (inv.id, '' if end is None else ' ' + end))
        inv.gate_end = end
        inv.gate.set()

    def pending_gates(self):
        return [i for i in self.invs if i.t_exit is None and i.gate is not None and not i.gate.is_set()]

    # -- oracles
    def first_success(self, key):
        for i in self.invs:
            if i.key == key and i.how == 'ret':
                return i
        return None

    def _on_caller_end(self, c):
        w = self.w
        kind, val = c.outcome
        if kind == 'value':
            if not isinstance(val, Res) or val.inv.key != c.key or val.inv.how != 'ret' or val is not val.inv.result:
                w.problem('WRONG VALUE: caller %r for key %r got %r which is not the result of a successful '
                          'invocation for that key (invocations: %r)' % (c, c.key, val, self.invs))
            if self.check_once:
                fs = self.first_success(c.key)
                if val.inv is not fs:
                    w.problem('SECOND RESULT: caller %r for key %r got %r but the first successful invocation '
                              'was %r' % (c, c.key, val, fs))
        elif kind == 'cancelled':
            if c.cancel_req_at is None:
                w.problem('FOREIGN CANCEL: caller %r for key %r ended with CancelledError although nobody '
                          'cancelled its task (invocations: %r)' % (c, c.key, self.invs))
        else:
            if isinstance(val, Boom):
                if val.inv.caller is not c:
                    w.problem('FOREIGN EXCEPTION: caller %r got %r which was raised by invocation %r performed '
                              'by another caller' % (c, val, val.inv))
            elif isinstance(val, (aio.TimeoutError, TimeoutError)) and c.timeout is not None \
                    and w.now - c.t_start >= c.timeout:
                pass  # its own wait_for
            else:
                w.problem('BOOKKEEPING EXCEPTION: caller %r for key %r ended with %s: %r which no invocation '
                          'of the wrapped function raised' % (c, c.key, type(val).__name__, val))

    def _reap(self):
        """a task cancelled before its first step never runs the caller body"""
        for c in self.callers:
            if c.outcome is None and c.task is not None and c.task.done():
                if c.task.cancelled():
                    c.outcome = ('cancelled', None)
                else:   # cannot happen: body() catches everything else
                    raise HarnessError('caller task ended without outcome: %r' % c.task)
                c.t_end = self.w.now
                self._on_caller_end(c)

    def _at_quiescence(self, stuck):
        self._reap()
        if not self.check_prompt:
            return
        w = self.w
        for c in self.callers:
            if c.done or c.lt.state == 'idle':
                continue
            if c.cancel_req_at is not None:
                w.problem('CANCEL NOT DELIVERED: caller %r was cancelled at t=%g but is still pending at the '
                          'quiescent point t=%g' % (c, c.cancel_req_at, w.now))
            if self.live(c.key):
                continue
            during = [i for i in self.invs if i.key == c.key and (i.t_exit is None or i.t_exit >= c.t_start)]
            lost = [i for i in during if i.t_exit is None]
            if not lost:
                w.problem('LATE: caller %r for key %r is still pending at quiescent point t=%g although no '
                          'invocation for its key is in progress anywhere (invocations during its life: %r): it '
                          'should have returned or recomputed at once' % (c, c.key, w.now, during))
            limit = max((i.abandoned_at if i.abandoned_at is not None else i.t_enter) for i in lost) + SAFETY
            if w.now >= limit:
                w.problem('NOT RECOVERED: caller %r for key %r still pending and nothing computing at t=%g, '
                          'more than %gs after the computing loop stopped (abandoned: %r)'
                          % (c, c.key, w.now, SAFETY, lost))
            if stuck:
                w.problem('HANG: caller %r for key %r pending, nothing computing on a running loop, nothing '
                          'runnable and no timer armed on any running loop at t=%g (abandoned: %r)'
                          % (c, c.key, w.now, lost))

    def final_checks(self):
        """callers on running loops must all be done; called by scenarios at the end"""
        self._reap()
        for c in self.callers:
            if not c.done and c.lt.state != 'idle':
                self.w.problem('HANG: caller %r never finished (t=%g)' % (c, self.w.now))


def want(family):
    """debug aid: VERIF_FAMILY=G2,G3 restricts a module to some scenario families"""
    import os
    only = os.environ.get('VERIF_FAMILY')
    return not only or family in only.split(',')


KINDS = [None]      # set by the module: kinds of findings that are violations of ITS property


def run_scenario(fn, chooser=None, fine=(), step_budget=4000):
    """fn(world) -> None. Returns list of problems. HarnessError propagates."""
    w = World(chooser, fine, step_budget, KINDS[0])
    try:
        try:
            fn(w)
        except StopScenario:
            pass
        NOTES.extend(w.notes)
        return list(w.problems)
    finally:
        w.close()


# ------------------------------------------------------------------ history interpreter
class Hist:
    """Interprets a *history*: a sequence of call / loop life-cycle / computation
    events, each followed by settling (every runnable loop runs, in the order the
    chooser dictates, until nothing is runnable at the current virtual instant).

    events:
      ('call', X)      new caller for the key on loop X (X is started on first use)
      ('tcall', X)     same with a caller side timeout of 30 virtual seconds
      ('stop', X)      X's run_forever/run_until_complete returns, pending work stays
      ('drain', X)     stopped X: cancel every leftover task and run X until they are
                       gone (what asyncio.run does before closing); X is stopped again
      ('close', X)     stopped X: loop.close()
      ('restart', X)   stopped X runs again (next run_until_complete of the same loop)
      ('release',)     the computation in progress on a running loop returns
      ('fail',)        ... raises
      ('cancel', i)    caller i's task is cancelled
      ('tick', dt)     dt virtual seconds pass
    all computations wait on a gate (so they are "in progress" until released).
    """
    NAMES = 'ABCDEF'

    def __init__(self, w, h, cfg):
        self.w, self.h, self.cfg = w, h, cfg
        self.n = cfg['nloops']
        self.lts = [None] * self.n
        self.st = ['new'] * self.n
        self.restarted = False

    def lt(self, i):
        if self.lts[i] is None:
            self.lts[i] = self.w.thread(self.NAMES[i])
        return self.lts[i]

    def pending_on(self, i):
        lt = self.lts[i]
        return [c for c in self.h.callers if c.lt is lt and not c.done]

    def has_tasks(self, i):
        lt = self.lts[i]
        if lt is None or self.st[i] == 'closed':
            return False
        return any(not t.done() for t in aio.all_tasks(lt.loop)) or bool(lt.loop._ready)

    def live_gates(self):
        return [i for i in self.h.invs if i.t_exit is None and i.gate is not None and not i.gate.is_set()
                and i.abandoned_at is None and i.lt.state != 'idle']

    def enabled(self):
        cfg, h = self.cfg, self.h
        evs = cfg['events']
        out = []
        ncallers = len(h.callers)
        for i in range(self.n):
            st = self.st[i]
            can_call = (st == 'running' or (st == 'new' and (i == 0 or self.st[i - 1] != 'new')))
            if can_call and ncallers < cfg['max_callers'] and \
                    sum(1 for c in h.callers if c.lt is self.lts[i] and self.lts[i] is not None) < cfg.get('per_loop', 3):
                if 'call' in evs:
                    out.append(('call', i))
                if 'tcall' in evs:
                    out.append(('tcall', i))
            if st == 'running' and 'stop' in evs and self.pending_on(i):
                out.append(('stop', i))
            if st == 'stopped':
                if 'drain' in evs and self.has_tasks(i):
                    out.append(('drain', i))
                if 'close' in evs:
                    out.append(('close', i))
                if 'restart' in evs and self.pending_on(i):
                    out.append(('restart', i))
        if self.live_gates():
            if 'release' in evs:
                out.append(('release',))
            if 'fail' in evs:
                out.append(('fail',))
        if 'cancel' in evs:
            for c in h.callers:
                if not c.done and c.cancel_req_at is None and c.lt.state != 'idle':
                    out.append(('cancel', c.id))
        if 'tick' in evs and any(not c.done and c.lt.state != 'idle' for c in h.callers):
            for dt in cfg.get('ticks', (61,)):
                out.append(('tick', dt))
        return out

    def apply(self, ev):
        w, h = self.w, self.h
        kind = ev[0]
        if kind in ('call', 'tcall'):
            i = ev[1]
            lt = self.lt(i)
            if self.st[i] == 'new':
                w.start(lt)
                self.st[i] = 'running'
            h.call(lt, *self.cfg.get('args', (1,)), timeout=30 if kind == 'tcall' else None)
        elif kind == 'stop':
            w.stop(self.lts[ev[1]])
            self.st[ev[1]] = 'stopped'
        elif kind == 'drain':
            h.shutdown(self.lts[ev[1]], close=False)
        elif kind == 'close':
            w.close_loop(self.lts[ev[1]])
            self.st[ev[1]] = 'closed'
        elif kind == 'restart':
            self.restarted = True
            w.start(self.lts[ev[1]])
            h.resume_abandoned(self.lts[ev[1]])
            self.st[ev[1]] = 'running'
        elif kind in ('release', 'fail'):
            h.release(self.live_gates()[0], 'ret' if kind == 'release' else 'raise')
        elif kind == 'cancel':
            h.cancel(h.callers[ev[1]])
        elif kind == 'tick':
            w.log('tick %g' % ev[1])
            w.run_for(ev[1])
        else:
            raise HarnessError('unknown event %r' % (ev,))
        w.settle()

    def all_done(self):
        return all(c.done or c.lt.state == 'idle' for c in self.h.callers)

    def finish(self, probe=True):
        finish_all(self.w, self.h, self.cfg.get('args', (1,)), probe)


def live_gates(h):
    return [i for i in h.invs if i.t_exit is None and i.gate is not None and not i.gate.is_set()
            and i.abandoned_at is None and i.lt.state != 'idle']


def finish_all(w, h, args=(1,), probe=True):
    """standard ending: let every computation on a running loop return, give the
    safety timeouts room, then everybody on a running loop must be done; finally a
    fresh caller on a fresh loop probes what was cached."""
    def all_done():
        return all(c.done or c.lt.state == 'idle' for c in h.callers)
    w.log('finish')
    for _ in range(3 * len(h.callers) + 3):
        w.settle()
        if all_done():
            break
        gates = live_gates(h)
        for g in gates:
            h.release(g, 'ret')
        if not gates:
            w.run_for(SAFETY + 1, all_done)
    w.settle()
    h.final_checks()
    if probe:
        p = w.thread('P')
        w.start(p)
        had = h.first_success(make_key(args, {}))
        n0 = len(h.invs)
        c = h.call(p, *args)
        for _ in range(4):
            w.run_for(SAFETY + 1, lambda: c.done)
            if c.done:
                break
            for g in live_gates(h):
                h.release(g, 'ret')
        w.settle()
        h.final_checks()
        own_failure = (c.outcome[0] == 'exc' and isinstance(c.outcome[1], Boom) and c.outcome[1].inv.caller is c)
        if c.outcome[0] != 'value' and not own_failure:
            w.problem('PROBE: a fresh caller after the history ended with %r' % (c.outcome,))
        if had is None and len(h.invs) != n0 + 1:
            w.problem('PROBE: nothing had succeeded (failed/cancelled computations must cache nothing) '
                      'but a fresh caller got %r with %d new invocations' % (c.outcome, len(h.invs) - n0))
        if had is not None and h.check_once and len(h.invs) != n0:
            w.problem('RECOMPUTED: a fresh caller after the history caused %d new invocation(s) although %r '
                      'had succeeded' % (len(h.invs) - n0, had))
        h.shutdown(p)


def enumerate_histories(cfg, make_world_harness, on_problem, chooser_factory=None, max_runs=None):
    """run every history (event sequence) of length <= cfg['max_len'] that is enabled
    step by step; each prefix is itself a complete scenario (with the standard ending).
    Returns number of runs."""
    runs = [0]
    stop = [False]

    def run(seq):
        enabled = []

        def script(w):
            h = make_world_harness(w)
            hist = Hist(w, h, cfg)
            for ev in seq:
                hist.apply(ev)
            enabled.extend(hist.enabled())
            hist.finish()
        probs = run_scenario(script, chooser_factory() if chooser_factory else None)
        runs[0] += 1
        if probs:
            on_problem(seq, probs)
            stop[0] = True
        return enabled

    def rec(seq):
        if stop[0] or (max_runs is not None and runs[0] >= max_runs):
            return
        enabled = run(seq)
        if len(seq) >= cfg['max_len']:
            return
        for ev in enabled:
            if stop[0]:
                return
            rec(seq + [ev])
    rec([('call', 0)])
    return runs[0]
