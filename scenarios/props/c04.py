"""Bounded stand-in for C04 on the real AsyncBackgroundBatcher (virtual time, deterministic).

Oracle (from the statement): every call completes; it completes with what the harness-owned batch
function produced for its key in the batch that carried its request (first thing yielded for the key:
a value is returned, an Exception instance is raised - compared by identity; the function raising
mid-batch reaches every caller of that batch not answered before; a key never yielded / a protocol
breach (key yielded twice, unknown key) gives *an error*, never a hang); nobody ever receives an object
that was yielded for another key.  Every program ends with a later round (all keys again + fresh keys)
which must be served too: the batcher keeps working after any behaviour.

BOUNDED: batch_timeout 1.0; keys from a domain of <=4 (they repeat); gaps {0, next loop tick, 0.25 ..
2.75} straddling batch_timeout (and the retention window 2.0); max_batch_size 1..5,
max_concurrent_batches 1..3, retention_timeout {0, 2.0}; per key behaviour from {value, excval, omit,
raise, twice, unknown}; order fwd/rev/shuffled; durations pre/item/post from {0, .25, .5, 1.5}.
 A exhaustive: <=3 calls over 2 keys x gaps{0,.5,1.5} x all 36 behaviour pairs x fwd/rev x 2 durations x
   configurations (thorough: max_batch_size 1..3 x max_concurrent_batches 1..3 x retention 0/2.0; quick: 4 of
   them, two per 3-call program in rotation)
 B pseudo-random (fixed seed): 4..10 calls, everything drawn from the domains above
 C later rounds after max_concurrent_batches+1 failing batches, each disruptive behaviour
 D one key requested 4 (thorough: 5) times with all gaps of a grid around the retention window
"""
import itertools
import random
import time

from scenarios.props._batcher_common import (
    BEHAVIOURS, VALUE, EXCVAL, OMIT, RAISE, TWICE, UNKNOWN, TICK, Call, Spec, run_program, judge, tail)

BT = 1.0
RET = 2.0


def cfg(mbs, mcb, ret):
    return dict(max_batch_size=mbs, max_concurrent_batches=mcb, batch_timeout=BT, retention_timeout=ret)


def programs(thorough):
    # ---- A: exhaustive small core
    if thorough:
        cfgs = [cfg(m, c, r) for m in (1, 2, 3) for c in (1, 2, 3) for r in (0.0, RET)]
    else:
        cfgs = [cfg(1, 1, 0.0), cfg(2, 1, RET), cfg(3, 2, 0.0), cfg(2, 3, RET)]
    durs = [(0.0, 0.0, 0.0), (0.25, 0.5, 0.25)]
    rot = 0      # quick tier: the 4 configurations are rotated over the 3-call programs (2 each)
    for n in (1, 2, 3):
        for rest in itertools.product('ab', repeat=n - 1):
            keys = ('a',) + rest
            used = sorted(set(keys))
            for gaps in itertools.product((0, 0.5, 1.5), repeat=n - 1):
                for behs in itertools.product(BEHAVIOURS, repeat=len(used)):
                    for order in ('fwd', 'rev'):
                        if order == 'rev' and n == 1:
                            continue
                        for d in durs:
                            rot += 1
                            for cf in (cfgs if thorough or n < 3 else cfgs[rot % 2::2]):
                                calls = [Call(0 if i == 0 else gaps[i - 1], k, explicit=(i % 2 == 0))
                                         for i, k in enumerate(keys)]
                                yield 'A', cf, calls + tail(keys), Spec(dict(zip(used, behs)), order, *d), True
    # ---- C: the batcher keeps working after failing batches
    for dis in (EXCVAL, OMIT, RAISE, TWICE, UNKNOWN):
        for mcb in (1, 2, 3):
            for mbs in (1, 2, 3):
                for ret in (0.0, RET):
                    for same in (False, True):
                        for d in durs:
                            calls, beh = [], {}
                            for r in range(mcb + 1):
                                bad = 'x' if same else 'x%d' % r
                                beh[bad] = dis
                                calls += [Call(0 if r == 0 else 4.0, 'g%d' % r), Call(0, bad), Call(0, 'h%d' % r)]
                            yield 'C', cfg(mbs, mcb, ret), calls + tail([c.key for c in calls]), \
                                Spec(beh, 'fwd', *d), True
    # ---- D: one key, gaps around the retention window
    grid = (0.25, 0.75, 1.25, 1.75, 2.25, 2.75)
    for n in ((4, 5) if thorough else (4,)):
        for gaps in itertools.product(grid, repeat=n - 1):
            for cf in (cfg(2, 1, RET), cfg(3, 2, RET), cfg(2, 1, 0.0)):
                for d in ((0.0, 0.0, 0.0), (0.25, 0.0, 0.0)):
                    if n == 5 and (d[0] or cf['max_concurrent_batches'] == 2):
                        continue
                    calls = [Call(0 if i == 0 else gaps[i - 1], 'a') for i in range(n)]
                    yield 'D', cf, calls + tail('a'), Spec({}, 'fwd', *d), True
    # ---- B: pseudo-random larger programs (fixed seed: identical on every run)
    rnd = random.Random(4004 + thorough)
    gapdom = (0, 0, TICK, 0.25, 0.75, 0.75, 1.25, 1.75, 2.75)
    durdom = (0.0, 0.0, 0.25, 0.5, 1.5)
    for _ in range(150000 if thorough else 6000):
        n = rnd.randint(4, 10)
        dom = 'abcd'[:rnd.randint(2, 4)]
        keys = [rnd.choice(dom) for _ in range(n)]
        calls = [Call(0 if i == 0 else rnd.choice(gapdom), k, explicit=rnd.random() < 0.6)
                 for i, k in enumerate(keys)]
        beh = {k: (VALUE if rnd.random() < 0.4 else rnd.choice(BEHAVIOURS)) for k in dom}
        sp = Spec(beh, rnd.choice(('fwd', 'rev', 'shuf')), rnd.choice(durdom), rnd.choice(durdom), rnd.choice(durdom))
        cf = cfg(rnd.randint(1, 5), rnd.randint(1, 3), rnd.choice((0.0, RET)))
        yield 'B', cf, calls + tail(keys), sp, rnd.random() < 0.7


def main(thorough):
    t0 = time.time()
    runs, failing, per = 0, 0, {}
    for fam, cf, calls, sp, settle in programs(thorough):
        runs += 1
        per[fam] = per.get(fam, 0) + 1
        res = run_program(cf, calls, sp, settle=settle)
        probs = judge(res)
        if probs:
            failing += 1
            if failing <= 3:
                print('PROBLEM: [family %s] %s -> %s || observed: %s'
                      % (fam, res.describe(), ' | '.join(probs[:4]), res.observed()))
            if failing >= 25:
                break
    print('C04 stand-in: %d timed programs run (%s), %d violating, %.1fs (bounded: <=10 calls + later round, '
          '<=4 keys, gaps 0/tick/.25...2.75 around batch_timeout 1.0, max_batch_size 1..5, '
          'max_concurrent_batches 1..3, retention 0/2.0, 6 behaviours per key, 3 result orders, durations 0...1.5)'
          % (runs, ', '.join('%s:%d' % kv for kv in sorted(per.items())), failing, time.time() - t0))
    return 1 if failing else 0
