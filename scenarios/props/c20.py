"""Bounded stand-in / replay for C20 on the real code (virtual time). BOUNDED: 0..N awaitables,
small hierarchy, delays from a grid so every finishing order occurs."""
import asyncio as aio
import itertools
import sys
import time

from scenarios import vt
from aiuti.asyncio import gather_excs, raise_first_exc


class Base(Exception):
    pass


class Sub(Base):
    pass


class Other(Exception):
    pass


class BaseOnly(BaseException):
    pass


KINDS = [None, Base, Sub, Other, BaseOnly]
ONLYS = [BaseException, Exception, Base, Sub, Other, BaseOnly]


def run(thorough):
    probs = []
    runs = 0
    maxn = 4 if thorough else 3
    delays = [0, 1, 2] if thorough else [0, 2]
    for n in range(0, maxn + 1):
        for kinds in itertools.product(KINDS, repeat=n):
            for ds in itertools.product(delays, repeat=n):
                if not thorough and n == 3 and hash((kinds, ds)) % 3:
                    continue
                for only in ONLYS:
                    runs += 1
                    finished = []
                    excs = []

                    async def one(i, k, d):
                        try:
                            await aio.sleep(d)
                            if k is not None:
                                e = k(i)
                                excs.append(e)
                                raise e
                            return i
                        finally:
                            finished.append(i)

                    async def main():
                        got = []
                        ended_at_first = None
                        async for e in gather_excs([one(i, k, d) for i, (k, d) in enumerate(zip(kinds, ds))], only):
                            if ended_at_first is None:
                                ended_at_first = len(finished)
                            got.append(e)
                        return got, ended_at_first
                    try:
                        got, at_first = vt.run(main())
                    except BaseException as e:  # noqa
                        probs.append('gather_excs(%r, %r, only=%s) raised %r' % (kinds, ds, only.__name__, e))
                        return probs, runs
                    exp = [i for i, k in enumerate(kinds) if k is not None and issubclass(k, only)]
                    if [e.args[0] for e in got] != exp or any(type(e) is not kinds[e.args[0]] for e in got):
                        probs.append('gather_excs kinds=%r delays=%r only=%s yielded %r expected indices %r'
                                     % ([k and k.__name__ for k in kinds], ds, only.__name__, got, exp))
                        return probs, runs
                    if sorted(finished) != list(range(n)) or (at_first is not None and at_first != n):
                        probs.append('not every awaitable had finished when gather_excs yielded: kinds=%r delays=%r '
                                     'finished=%r at first yield %r' % (kinds, ds, finished, at_first))
                        return probs, runs
                    # raise_first_exc
                    finished.clear()

                    async def main2():
                        return await raise_first_exc([one(i, k, d) for i, (k, d) in enumerate(zip(kinds, ds))], only)
                    try:
                        r = vt.run(main2())
                        outcome = ('ret', r)
                    except BaseException as e:  # noqa
                        outcome = ('exc', e)
                    if exp:
                        ok = outcome[0] == 'exc' and type(outcome[1]) is kinds[exp[0]] and outcome[1].args == (exp[0],)
                    else:
                        ok = outcome == ('ret', None)
                    if not ok or sorted(finished) != list(range(n)):
                        probs.append('raise_first_exc kinds=%r delays=%r only=%s -> %r, finished=%r, expected first of %r'
                                     % ([k and k.__name__ for k in kinds], ds, only.__name__, outcome, finished, exp))
                        return probs, runs
    return probs, runs


def main(thorough):
    t0 = time.time()
    probs, runs = run(thorough)
    print('C20 stand-in: %d runs, %.1fs (bounded: <=%d awaitables x 5 outcome kinds x delay grid x 6 `only`)'
          % (runs, time.time() - t0, 4 if thorough else 3))
    for p in probs[:3]:
        print('PROBLEM:', p)
    return 1 if probs else 0
