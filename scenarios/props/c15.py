"""Bounded stand-in for C15 (decorator-with-options == direct form; per-loop batchers) on the real code,
virtual time, single thread, deterministic.

 1 threadsafe_async_cache(cache=store): direct form f=deco(func, cache=store) vs options form deco(cache=store)(func),
   same scripted calls (repeated, concurrent, a second loop, a second function sharing the store).  Oracle: the
   given mapping is THE store (it receives exactly one entry per distinct input, holding the returned objects, and
   an entry put there by one wrapper is served by another wrapper without calling its function); both forms give
   the same observable trace; without the option the mapping stays untouched.
 2 buffer_until_timeout(timeout=T), T in {0.25, 3.0} (default 1): the function runs exactly T after the last call
   of a burst (virtual instants), both forms identical, the no-option form flushes after 1.
 3 async_background_batcher: every subset of {max_batch_size=2, max_concurrent_batches=2, batch_timeout=0.5,
   retention_timeout=2.0} (each singly, jointly, none) x 4 probe programs, each sensitive to some option.  Oracle:
   the C10 invariants (size, slots, sharing below batch_timeout, dispatch deadline) and the C11 model
   (reuse window) evaluated with the option values GIVEN; and the traces (batches with instants, outcomes) of the
   direct form, the options form and a plain AsyncBackgroundBatcher with the same options are equal.
 4 loops: one decorated function (both forms) used from 1..3 loops one after another (every loop behaves like a
   fresh one: nothing leaks), and from 2..3 loops alive at once, stepped alternately from this thread with
   run_until_complete, calls interleaved in every pattern of 4 (thorough 5) steps incl. A,B,A: every batch runs on
   the loop of its callers and holds only that loop's calls, and each loop observes exactly the trace of its own
   timed program run alone (persistent per-loop batching and retention across the interleaving).

BOUNDED: as listed; gaps {0, .25, 1.0} per loop in part 4; keys a/b (shared across loops on purpose).
"""
import asyncio as aio
import itertools
import time

from aiuti.asyncio import (
    AsyncBackgroundBatcher, async_background_batcher, buffer_until_timeout, threadsafe_async_cache)
from scenarios import vt
from scenarios.props import c10, c11
from scenarios.props._batcher_common import GUARD, Arg, Call, Out, Recorder, Result, Spec, run_program

DEFAULTS = dict(max_batch_size=256, max_concurrent_batches=5, batch_timeout=0.05, retention_timeout=0.0)
NONDEFAULT = dict(max_batch_size=2, max_concurrent_batches=2, batch_timeout=0.5, retention_timeout=2.0)


# ------------------------------------------------------------------------------------------ 1 cache
class Store(dict):
    def __init__(self):
        dict.__init__(self)
        self.sets = 0

    def __setitem__(self, k, v):
        self.sets += 1
        dict.__setitem__(self, k, v)


def cache_trace(form):
    store = Store()
    invoked, invoked2 = [], []

    async def f(x):
        invoked.append(x)
        await aio.sleep(0.5)
        return ('f', x, len(invoked))

    async def g(x):
        invoked2.append(x)
        return ('g', x)

    if form == 'direct':
        w, w2 = threadsafe_async_cache(f, cache=store), threadsafe_async_cache(cache=store)(g)
    elif form == 'options':
        w, w2 = threadsafe_async_cache(cache=store)(f), threadsafe_async_cache(g, cache=store)
    else:
        w, w2 = threadsafe_async_cache(f), threadsafe_async_cache(g)

    async def first():
        r = [await w(1), await w(1), await w(2)]
        r += list(await aio.gather(w(3), w(3), w(1)))
        return r

    async def second():
        return [await w(1), await w(4), await w2(2), await w2(5)]

    r1 = vt.run(first())
    r2 = vt.run(second())
    return dict(results=r1 + r2, invoked=invoked, invoked2=invoked2, store=sorted(store.values()), sets=store.sets)


def part_cache():
    probs, runs = [], 3
    d, o, n = cache_trace('direct'), cache_trace('options'), cache_trace('none')
    exp_results = [('f', 1, 1), ('f', 1, 1), ('f', 2, 2), ('f', 3, 3), ('f', 3, 3), ('f', 1, 1),
                   ('f', 1, 1), ('f', 4, 4), ('f', 2, 2), ('g', 5)]
    exp_store = sorted([('f', 1, 1), ('f', 2, 2), ('f', 3, 3), ('f', 4, 4), ('g', 5)])
    for name, t in (('direct form f=deco(func, cache=store)', d), ('options form deco(cache=store)(func)', o)):
        if t['results'] != exp_results or t['invoked'] != [1, 2, 3, 4] or t['invoked2'] != [5] \
                or t['store'] != exp_store or t['sets'] != 5:
            probs.append('threadsafe_async_cache %s: cache=store not honoured: results %r, func invoked with %r, second '
                         'function sharing the store invoked with %r, store holds %r after %d writes; expected results '
                         '%r, invoked [1, 2, 3, 4] / [5], store %r after 5 writes'
                         % (name, t['results'], t['invoked'], t['invoked2'], t['store'], t['sets'], exp_results, exp_store))
    if d != o:
        probs.append('threadsafe_async_cache(cache=store): direct form trace %r != options form trace %r' % (d, o))
    if n['store'] or n['sets'] or n['invoked'] != [1, 2, 3, 4] or n['invoked2'] != [2, 5]:
        probs.append('threadsafe_async_cache without cache=: unexpected trace %r' % (n,))
    return probs, runs


# ------------------------------------------------------------------------------------------ 2 buffer
def buffer_trace(form, T):
    loop = vt.new_loop()
    aio.set_event_loop(loop)
    got = []
    try:
        async def f(args):
            got.append((loop.time(), sorted(args)))

        if form == 'direct':
            buf = buffer_until_timeout(f, timeout=T)
        elif form == 'options':
            buf = buffer_until_timeout(timeout=T)(f)
        else:
            buf = buffer_until_timeout(f)

        async def script():
            buf(1)
            buf(2)
            await aio.sleep(T / 2)
            buf(3)                       # re-arms: flush expected at T/2 + T
            await aio.sleep(T * 4)
            buf(4)                       # flush expected at T/2 + 4T + T
            await aio.sleep(T * 4)

        loop.run_until_complete(script())
    finally:
        try:
            vt._cancel_all(loop)
        finally:
            aio.set_event_loop(None)
            loop.close()
    return got


def part_buffer():
    probs, runs = [], 0
    for T in (0.25, 3.0):
        exp = [(T / 2 + T, [1, 2, 3]), (T / 2 + 4 * T + T, [4])]
        tr = {}
        for form in ('direct', 'options'):
            runs += 1
            tr[form] = buffer_trace(form, T)
            if tr[form] != exp:
                probs.append('buffer_until_timeout %s form, timeout=%g: calls 1,2 @0, 3 @%g, 4 @%g -> function ran %r, '
                             'expected %r (timeout after the last call)' % (form, T, T / 2, T / 2 + 4 * T, tr[form], exp))
        if tr['direct'] != tr['options']:
            probs.append('buffer_until_timeout(timeout=%g): direct form %r != options form %r' % (T, tr['direct'], tr['options']))
    runs += 1
    got = buffer_trace('none', 0.25)      # default timeout 1: calls @0, 0.125, 1.125
    if got != [(1.125, [1, 2, 3]), (2.125, [4])]:
        probs.append('buffer_until_timeout without timeout=: ran %r, expected flushes 1 s after the last call' % (got,))
    return probs, runs


# ------------------------------------------------------------------------------------------ 3 batcher options
def trace(res):
    bid = {b.id: n for n, b in enumerate(res.batches)}
    return ([(b.start, [(k, a.idx) for k, a in b.items]) for b in res.batches],
            [(o.kind, getattr(o.obj, 'key', type(o.obj).__name__), bid.get(getattr(o.obj, 'batch', None)), o.t_done)
             for o in res.outs], res.rec.maxocc)


def probe_programs():
    ks = ['k%d' % i for i in range(7)]
    return [
        ('burst of 7 keys', [Call(0, k) for k in ks], Spec({}, 'fwd', 0.25, 0.0, 0.0), 'c10'),
        ('7 keys 1.0 apart, batches last 8.0', [Call(0 if i == 0 else 1.0, k) for i, k in enumerate(ks)],
         Spec({}, 'fwd', 8.0, 0.0, 0.0), 'c10'),
        ('5 keys 0.25 apart', [Call(0 if i == 0 else 0.25, k) for i, k in enumerate(ks[:5])],
         Spec({}, 'rev', 0.0, 0.0, 0.0), 'c10'),
        ('keys a,b repeated after 1.0 and 4.0', [Call(0, 'a'), Call(0, 'b', explicit=False), Call(1.0, 'a'), Call(0, 'b'),
                                                 Call(4.0, 'a', explicit=False), Call(0, 'b')],
         Spec({}, 'fwd', 0.25, 0.0, 0.0), 'c11'),
    ]


def makers(opts):
    full = dict(DEFAULTS, **opts)
    return full, [
        ('direct form deco(func, %s)', lambda fn, cfg: async_background_batcher(fn, **opts)),
        ('options form deco(%s)(func)', lambda fn, cfg: async_background_batcher(**opts)(fn)),
        ('AsyncBackgroundBatcher(func, %s)', lambda fn, cfg: AsyncBackgroundBatcher(fn, **opts)),
    ]


def part_batcher_options():
    probs, runs = [], 0
    names = sorted(NONDEFAULT)
    for r in range(0, len(names) + 1):
        for sub in itertools.combinations(names, r):
            opts = {k: NONDEFAULT[k] for k in sub}
            ostr = ', '.join('%s=%r' % kv for kv in sorted(opts.items())) or 'no options'
            full, mk = makers(opts)
            for pname, calls, sp, oracle in probe_programs():
                traces = []
                for label, make in mk:
                    runs += 1
                    res = run_program(full, calls, sp, make=make)
                    p = (c10.check(res) if oracle == 'c10' else []) + c11.check(res)
                    if p:
                        probs.append('async_background_batcher %s; program "%s": option value not in effect: %s || %s; observed %s'
                                     % (label % ostr, pname, ' | '.join(p[:3]), res.describe(), res.observed()))
                    traces.append((label % ostr, trace(res)))
                for label, t in traces[1:]:
                    if t != traces[0][1]:
                        probs.append('async_background_batcher program "%s": %s behaves differently from %s: (batches, outcomes, '
                                     'max occupancy) %r vs %r' % (pname, label, traces[0][0], t, traces[0][1]))
                if len(probs) >= 6:
                    return probs, runs
    return probs, runs


# ------------------------------------------------------------------------------------------ 4 loops
class Shared(object):
    """One decorated function whose batch function is re-targeted to the recorder of the current scenario."""

    def __init__(self, form, opts):
        self.rec = None

        async def tramp(batch):
            async for kv in self.rec.fn(batch):
                yield kv
        self.f = async_background_batcher(tramp, **opts) if form == 'direct' else async_background_batcher(**opts)(tramp)


LOOP_OPTS = dict(max_batch_size=3, max_concurrent_batches=1, batch_timeout=0.5, retention_timeout=2.0)
LOOP_SPEC = Spec({}, "fwd", 0.125, 0.0, 0.0)


def solo(calls):
    return run_program(LOOP_OPTS, calls, LOOP_SPEC)


def part_successive(thorough):
    probs, runs = [], 0
    calls = [Call(0, 'a'), Call(0, 'b'), Call(0.25, 'c'), Call(0, 'a'), Call(1.0, 'a'), Call(0, 'd'), Call(4.0, 'a')]
    ref = trace(solo(calls))
    runs += 1
    for form in ('direct', 'options'):
        for nloops in (1, 2, 3):
            sh = Shared(form, LOOP_OPTS)
            for n in range(nloops):
                def make(fn, cfg, _sh=sh):
                    _sh.rec = fn.__self__
                    return _sh.f
                res = run_program(LOOP_OPTS, calls, LOOP_SPEC, make=make)
                runs += 1
                p = c11.check(res)
                t = trace(res)
                if p or t != ref:
                    probs.append('async_background_batcher %s form used from %d loops one after another: loop #%d does not behave '
                                 'like a fresh batcher: %s; trace %r, expected %r || %s'
                                 % (form, nloops, n + 1, ' | '.join(p[:3]) or 'trace differs', t, ref, res.describe()))
                    return probs, runs
    return probs, runs


class LoopCtx(object):
    def __init__(self, name):
        self.name = name
        self.loop = vt.new_loop()
        self.calls, self.args, self.outs, self.tasks = [], [], [], []
        self.seq = itertools.count()


def run_interleaved(form, steps, nloops):
    """steps: [(loop index, gap on that loop's own clock, key)].  Returns per-loop Results."""
    sh = Shared(form, LOOP_OPTS)
    rec = Recorder(LOOP_SPEC)
    sh.rec = rec
    ctxs = [LoopCtx('ABC'[i]) for i in range(nloops)]
    closed = []
    try:
        for li, gap, key in steps:
            cx = ctxs[li]

            async def go(cx=cx, gap=gap, key=key):
                lp = aio.get_running_loop()
                if gap > 0:
                    await aio.sleep(gap)
                i = len(cx.calls)
                cx.calls.append(Call(gap, key))
                cx.args.append(Arg(key, i))
                cx.outs.append(Out())

                async def _call():
                    o = Out()
                    cx.outs[i].seq = o.seq = next(cx.seq)
                    cx.outs[i].t_arrive = o.t_arrive = lp.time()
                    try:
                        o.kind, o.obj = 'val', await sh.f(cx.args[i], key=key)
                    except aio.CancelledError:
                        o.kind = 'cancelled'
                    except Exception as e:  # outcome under observation
                        o.kind, o.obj = 'exc', e
                    o.t_done = lp.time()
                    if not closed:
                        cx.outs[i] = o
                cx.tasks.append(lp.create_task(_call()))
                await aio.sleep(0)
                await aio.sleep(0)
            cx.loop.run_until_complete(go())
        for cx in ctxs:
            if cx.tasks:
                cx.loop.run_until_complete(aio.wait(cx.tasks, timeout=GUARD))
        closed.append(1)
    finally:
        for cx in ctxs:
            try:
                vt._cancel_all(cx.loop)
                cx.loop.run_until_complete(cx.loop.shutdown_asyncgens())
            finally:
                cx.loop.close()
        aio.set_event_loop(None)
    results = []
    for cx in ctxs:
        class _R(object):
            pass
        r = _R()
        r.batches = [b for b in rec.batches
                     if b.loop is cx.loop or any(isinstance(a, Arg) and a.idx < len(cx.args) and cx.args[a.idx] is a
                                                 for _, a in b.items)]
        r.maxocc = max([b.occ for b in r.batches] or [0])
        res = Result(LOOP_OPTS, cx.calls, LOOP_SPEC, r, cx.outs, cx.args)
        for b in r.batches:
            if b.loop is not cx.loop:
                res.item_problems.append('batch %r holding calls of loop %s was executed on another loop' % (b, cx.name))
        results.append(res)
    return results


def part_concurrent(thorough):
    probs, runs = [], 0
    solo_cache = {}
    m_max = 5 if thorough else 4
    for form in ('direct', 'options'):
        for nloops in (2, 3):
            for m in range(3, (5 if nloops == 2 else m_max) + 1):
                for pat in itertools.product(range(nloops), repeat=m):
                    if pat[0] != 0 or len(set(pat)) != nloops or list(dict.fromkeys(pat)) != sorted(set(pat)):
                        continue
                    for gaps in itertools.product((0, 0.25, 1.0), repeat=m):
                        if gaps[0] != 0 or (not thorough and nloops == 3 and m == 4 and 0.25 in gaps and 1.0 in gaps):
                            continue
                        for keymode in ('same', 'alt'):
                            steps = [(li, g, 'a' if keymode == 'same' or n % 2 == 0 else 'b')
                                     for n, (li, g) in enumerate(zip(pat, gaps))]
                            runs += 1
                            results = run_interleaved(form, steps, nloops)
                            for li, res in enumerate(results):
                                key = tuple((c.gap, c.key) for c in res.calls)
                                if key not in solo_cache:
                                    solo_cache[key] = trace(solo([Call(g, k) for g, k in key]))
                                    runs += 1
                                p = list(res.item_problems)
                                if all(o.seq is not None for o in res.outs):
                                    p += c11.check(res)
                                t = trace(res)[:2]      # the occupancy counter is shared by the loops: not compared
                                if not p and t != solo_cache[key][:2]:
                                    p.append('loop observes (batches, outcomes) %r, alone it would observe %r'
                                             % (t, solo_cache[key][:2]))
                                if p:
                                    probs.append('async_background_batcher %s form, %d loops alive at once, steps (loop, gap on its '
                                                 'clock, key) %r with %r: loop %s did not get its own independent persistent batching: %s'
                                                 % (form, nloops, [('ABC'[a], g, k) for a, g, k in steps], LOOP_OPTS, 'ABC'[li],
                                                    ' | '.join(p[:3])))
                            if len(probs) >= 3:
                                return probs, runs
    return probs, runs


def main(thorough):
    t0 = time.time()
    allp, counts = [], []
    for name, part in (('cache', part_cache), ('buffer', part_buffer), ('batcher options', part_batcher_options),
                       ('successive loops', lambda: part_successive(thorough)),
                       ('concurrent loops', lambda: part_concurrent(thorough))):
        p, n = part()
        counts.append('%s:%d' % (name, n))
        allp += p
    for p in allp[:4]:
        print('PROBLEM:', p if len(p) < 3000 else p[:3000] + ' ...')
    print('C15 stand-in: %d scenario runs (%s), %d violating, %.1fs (bounded: cache store option x 2 forms; buffer timeout '
          '0.25/3.0 x 2 forms; all 16 subsets of 4 batcher options x 4 probe programs x 3 forms; 1..3 successive loops; 2..3 '
          'concurrent loops x all interleavings of %d..%d calls (3 loops: ..%d) x gaps 0/.25/1.0)'
          % (sum(int(c.split(':')[1]) for c in counts), ', '.join(counts), len(allp), time.time() - t0, 3, 5, 5 if thorough else 4))
    return 1 if allp else 0
