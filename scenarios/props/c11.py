"""Bounded stand-in for C11 on the real AsyncBackgroundBatcher (virtual time, deterministic, no cancellation).

Oracle = a model of the statement, replayed per key over the observed arrival / answer instants:
 the first call of a key starts a computation (its argument - every call has its own argument object -
 must reach the batch function exactly once).  A later call of the key
   * arriving while that request is still unanswered, or less than retention_timeout (minus margin) after
     its owner was answered, must add NO work (its argument never reaches any batch) and must get the
     identical outcome object (same value object / same exception instance) as the owner;
   * arriving more than retention_timeout (plus margin) after the answer (retention 0: any instant after
     the answer) must start a NEW computation: its argument reaches a batch and it receives what that
     batch produced, never the old object;
   * exactly on the boundary (timer tie): either, but consistently one of the two.
 and no batch ever carries a key twice.

BOUNDED: batch_timeout 0.5; batch duration 0 or 0.125 (so windows end off the arrival grid);
retention_timeout in {0, 1.0, 4.0}; 1..3 keys; default str(arg) keys and explicit key=; outcomes value /
yielded exception / raised exception.
 S exhaustive gap sequences: 1 key up to 5 calls (thorough 6), 2 keys up to 4 calls, 3 keys 4..5 calls on a
   coarser grid; gap grids around the batch completion and around retention_timeout, long enough for 3+
   computations of one key (stale eviction timers would matter)
 Q bursts: all key sequences of 3..6 calls over 3 keys arriving in one loop tick / consecutive ticks with tiny
   max_batch_size x max_concurrent_batches
 R pseudo-random (fixed seed) up to 8 (thorough 10) calls
"""
import itertools
import random
import time

from scenarios.props._batcher_common import (
    EPS, TICK, VALUE, EXCVAL, RAISE, Call, Spec, run_program, judge_call, dup_key_batches)

BT = 0.5
GRIDS = {
    0.0: (0, TICK, 0.25, 0.5, 0.75, 1.25),
    1.0: (0, 0.25, 0.5, 0.75, 1.25, 1.75),
    4.0: (0, 0.5, 3.5, 4.25, 4.75, 5.25),
}


def cfg(mbs, mcb, ret):
    return dict(max_batch_size=mbs, max_concurrent_batches=mcb, batch_timeout=BT, retention_timeout=ret)


def same_outcome(a, b):
    return a.kind == b.kind and a.obj is b.obj


def check(res):
    probs = list(res.item_problems)
    for b, k in dup_key_batches(res):
        probs.append('batch %r carries key %s more than once' % (b, k))
    ret = res.cfg['retention_timeout']
    outs, calls = res.outs, res.calls
    order = sorted(range(len(calls)), key=lambda i: outs[i].seq)
    cur = {}       # key -> index of the call owning the current computation
    for i in order:
        k, o = calls[i].key, outs[i]
        is_new = i in res.owners
        who = 'call %d (key %s @%g)' % (i, k, o.t_arrive)
        if k not in cur:
            must = 'new'
            why = 'first request of the key'
        else:
            ow = outs[cur[k]]
            if ow.kind == 'never' or o.t_arrive < ow.t_done - EPS:
                must, why = 'share', 'request of call %d still pending' % cur[k]
            elif ret > 0 and o.t_arrive < ow.t_done + ret - EPS:
                must, why = 'share', 'call %d was answered @%g, retained until %g' % (cur[k], ow.t_done, ow.t_done + ret)
            elif o.t_arrive > ow.t_done + ret + EPS:
                must, why = 'new', 'call %d was answered @%g, window ended @%g' % (cur[k], ow.t_done, ow.t_done + ret)
            else:
                must, why = ('new' if is_new else 'share'), 'boundary'
        if must == 'share':
            if is_new:
                probs.append('%s added work (batch %r) although %s' % (who, res.owners[i][0], why))
            if not same_outcome(o, outs[cur[k]]):
                probs.append('%s got %r, the original request (call %d) got %r (%s)'
                             % (who, o, cur[k], outs[cur[k]], why))
        else:
            if not is_new:
                probs.append('%s did not trigger a new computation (got %r) although %s' % (who, o, why))
            else:
                p = judge_call(res, i)
                if p:
                    probs.append(p)
                if k in cur and o.obj is not None and o.obj is outs[cur[k]].obj:
                    probs.append('%s received the OLD result %r' % (who, o))
        if is_new:
            cur[k] = i
    return probs


def programs(thorough):
    # ---- S
    behs = [{}, {'a': EXCVAL}, {'a': RAISE}]
    for ret, G in sorted(GRIDS.items()):
        jobs = []
        for n in range(1, (6 if thorough else 5) + 1):
            jobs += [(('a',) * n, g) for g in itertools.product(G, repeat=n - 1)]
        for n in (2, 3, 4):
            for rest in itertools.product('ab', repeat=n - 1):
                if 'b' in rest:
                    jobs += [(('a',) + rest, g) for g in itertools.product(G, repeat=n - 1)]
        G3 = (G[0], G[3], G[5])
        for n in ((4, 5) if thorough or ret == 1.0 else (4,)):
            for rest in itertools.product('abc', repeat=n - 1):
                if 'b' in rest and 'c' in rest and rest.index('b') < rest.index('c'):
                    jobs += [(('a',) + rest, g) for g in itertools.product(G3, repeat=n - 1)]
        for num, (keys, gaps) in enumerate(jobs):
            calls_of = lambda mode: [Call(0 if i == 0 else gaps[i - 1], k,  # noqa: E731
                                          explicit=(mode == 0 or (mode == 2 and i % 2 == 0)))
                                     for i, k in enumerate(keys)]
            if thorough and len(keys) == 6:
                variants = [(0.125, behs[0], 2, (3, 2)), (0.0, behs[1], 1, (1, 1)), (0.125, behs[2], 0, (2, 1)),
                            (0.0, behs[num % 3], num % 3, (3, 2))]
            elif thorough:
                variants = [(pre, beh, mode, mm) for pre in (0.125, 0.0) for beh in behs
                            for mode, mm in ((2, (3, 2)), (1, (1, 1)))]
            else:
                # rotate the secondary dimensions over the programs, the gap sequences stay exhaustive
                variants = [(0.125, behs[num % 3], num % 3, (3, 2)),
                            (0.0, behs[(num + 1) % 3], (num + 1) % 3, ((1, 1) if num % 2 else (2, 1)))]
                if len(keys) >= 5 and len(set(keys)) == 1:
                    variants = variants[:1]
            for pre, beh, mode, (mbs, mcb) in variants:
                yield 'S', cfg(mbs, mcb, ret), calls_of(mode), Spec(beh, 'fwd', pre, 0.0, 0.0), True
    # ---- Q
    for n in (3, 4, 5, 6):
        for keys in itertools.product('abc', repeat=n):
            if keys[0] != 'a' or (n == 6 and not thorough and keys.count('c') < 2):
                continue
            for gapkind in (0, TICK, 'mix'):
                for mbs, mcb in ((1, 1), (2, 1), (1, 2), (2, 2)):
                    for ret in (0.0, 1.0):
                        if not thorough and (gapkind == 'mix') != (ret == 1.0 and mbs == 2):
                            if gapkind != 0 or ret == 1.0:
                                continue
                        calls = [Call(0 if i == 0 else ((0, TICK)[i % 2] if gapkind == 'mix' else gapkind), k,
                                      explicit=bool(i % 2)) for i, k in enumerate(keys)]
                        yield 'Q', cfg(mbs, mcb, ret), calls, Spec({}, 'rev', 0.125, 0.0, 0.0), True
    # ---- R
    rnd = random.Random(1111 + thorough)
    for _ in range(80000 if thorough else 4000):
        ret = rnd.choice((0.0, 1.0, 1.0, 4.0))
        G = GRIDS[ret] + (0, TICK, 2.25)
        dom = 'abc'[:rnd.randint(1, 3)]
        n = rnd.randint(3, 10 if thorough else 8)
        calls = [Call(0 if i == 0 else rnd.choice(G), rnd.choice(dom), explicit=rnd.random() < 0.5) for i in range(n)]
        beh = {k: rnd.choice((VALUE, VALUE, EXCVAL, RAISE)) for k in dom}
        sp = Spec(beh, rnd.choice(('fwd', 'rev', 'shuf')), rnd.choice((0.0, 0.125, 0.625)), rnd.choice((0.0, 0.0, 0.125)),
                  rnd.choice((0.0, 0.0, 0.125)))
        yield 'R', cfg(rnd.randint(1, 3), rnd.randint(1, 3), ret), calls, sp, rnd.random() < 0.7


def main(thorough):
    t0 = time.time()
    runs, failing, per = 0, 0, {}
    for fam, cf, calls, sp, settle in programs(thorough):
        runs += 1
        per[fam] = per.get(fam, 0) + 1
        res = run_program(cf, calls, sp, settle=settle)
        probs = check(res)
        if probs:
            failing += 1
            if failing <= 3:
                print('PROBLEM: [family %s] %s -> %s || observed: %s'
                      % (fam, res.describe(), ' | '.join(probs[:4]), res.observed()))
            if failing >= 25:
                break
    print('C11 stand-in: %d timed programs run (%s), %d violating, %.1fs (bounded: <=6 calls exhaustive / <=10 random over '
          '1..3 keys, batch_timeout 0.5, retention_timeout 0/1.0/4.0, gap grids around batch completion and the '
          'retention window, value/exception outcomes, default and explicit keys, no cancellation)'
          % (runs, ', '.join('%s:%d' % kv for kv in sorted(per.items())), failing, time.time() - t0))
    return 1 if failing else 0
