"""Bounded stand-in for C09 on the real AsyncBackgroundBatcher (virtual time, deterministic).

A base program (calls with shared and distinct keys, later calls, a final round of fresh calls) is first
run without any cancellation to learn its instants; then it is re-run with one or two callers (victims)
cancelled (task.cancel()) or timed out (asyncio.wait_for) at instants derived from that dry run:
   now      the loop iteration in which the victim was started
   queued   between its arrival and the start of the batch carrying its key
   running  between the start of that batch and the result for its key
   pre/post the very loop turn of the result (inside the batch function right before / after yielding it)
   other    the loop turn in which another key of the same batch got its result
   after    after its result
Oracle (statement): every caller that was NOT cancelled completes with exactly what the batch function
produced for its key (the C04 oracle: identity of the yielded value / exception instance), callers of the
same batch and sharers of the victim's key included; the final round (every key again + fresh keys) is served.
A victim itself must end (cancelled / timed out / answered correctly), never hang.

KNOWN_SUBCASES: runs falling into a listed sub-case are reported as `KNOWN-SUBCASE:` (not PROBLEM, exit code
unaffected); the sub-case is recognised by its cause (see `is_known_subcase`), everything else is a PROBLEM.

BOUNDED: batch_timeout 1.0, 1.0 per item (or 1.0 per batch); <=6 calls + final round; keys a..d; gaps {0, .5, 1.5,
2.5}; max_batch_size 5 / 2, max_concurrent_batches 2 / 1; retention_timeout 0 and 2.0; result order fwd / rev /
shuffled; every single victim x every instant x {cancel, wait_for}; pairs of victims x pairs of instants
(quick: a fixed-stride subset of the pairs; thorough: all pairs and all triples for the core programs of <=4 calls,
a fixed-stride subset for the others).
"""
import itertools
import time

from scenarios.props._batcher_common import (
    EPS, EXCVAL, OMIT, Call, Spec, run_program, judge_call, serving, dup_key_batches, tail)

BT = 1.0
RET = 2.0
OFF = 1.0 / 64          # victims are cancelled off the grid of all other events (multiples of 1/8)

KNOWN_SUBCASES = [
    dict(id='queued-owner-cancelled-then-fresh-same-key-call',
         function='subcase_queued_owner_cancelled_then_fresh_call',
         summary='the first caller (owner) of a key is cancelled / times out while its request is still QUEUED, its '
                 'retention entry is gone (retention_timeout 0, or elapsed) and a FRESH call for the same key '
                 'arrives before the batch is handed to the batch function: the batch then carries two requests '
                 'with the same key; a caller that shared the cancelled owner\'s request may never be answered and, '
                 'when the batch function yields the key once per item, the remaining callers of that batch get '
                 'KeyError'),
]


def cfg(mbs, mcb, ret):
    return dict(max_batch_size=mbs, max_concurrent_batches=mcb, batch_timeout=BT, retention_timeout=ret)


def base_programs(thorough):
    """(keys, gaps) of the base programs; first call at 0."""
    progs = []
    # all key patterns of 3 calls (canonical naming) x gaps
    for keys in ('aaa', 'aab', 'aba', 'abb', 'abc'):
        for gaps in itertools.product((0, 0.5, 1.5), repeat=2):
            progs.append((keys, (0,) + gaps))
    progs += [
        ('abca', (0, 0, 0, 0)),                 # the classic: owner, two bystanders, a sharer
        ('abab', (0, 0, 0.5, 0)),
        ('aabca', (0, 0, 0, 0, 1.5)),           # later call joins the pending key while the batch runs
        ('abcab', (0, 0, 0.5, 2.5, 0)),         # later calls after the results (retained or recomputed)
        ('abcdab', (0, 0, 0, 0, 0, 0)),         # several batches when max_batch_size = 2
        ('abacad', (0, 0.5, 0, 0.5, 0, 0.5)),
    ]
    core = len(progs)
    if thorough:
        for keys in ('aabb', 'abba', 'abac', 'abcb', 'aaab'):
            for gaps in itertools.product((0, 0.5, 1.5), repeat=3):
                progs.append((keys, (0,) + gaps))
    return [(k, g, n < core) for n, (k, g) in enumerate(progs)]


def instants(dry, v):
    """cancellation instants for victim v from the dry run: list of (label, cancel-spec)."""
    o = dry.outs[v]
    key = dry.calls[v].key
    res = [('now', ('now',))]
    s = serving(dry, v)
    if s is None or o.kind == 'never':
        return res
    b = dry.owners[s][0]
    ty = None
    for ev in b.events:
        if ev[1] == key:
            ty = ev[3]
            break
    if ty is None:
        ty = b.end if b.end is not None else b.start
    if o.t_arrive >= ty:            # answered from the retained result straight away
        return res
    if b.start > o.t_arrive:
        res.append(('queued', ('at', (o.t_arrive + b.start) / 2 + OFF)))
    if ty > max(b.start, o.t_arrive):
        res.append(('running', ('at', (max(b.start, o.t_arrive) + ty) / 2 + OFF)))
    res.append(('pre', ('hook', 'pre', key)))
    res.append(('post', ('hook', 'post', key)))
    others = [k for k in b.keys() if k != key]
    if others:
        res.append(('other', ('hook', 'post', others[0])))
    res.append(('after', ('at', ty + 0.25 + OFF)))
    return res


def with_timeout(spec, t_arrive):
    if spec[0] != 'at':
        return None
    return ('timeout', spec[1] - t_arrive)


def is_known_subcase(res, victims):
    """Batches carrying a key twice BECAUSE the earlier request's owner was cancelled while still queued and its
    retention entry had gone before the later (fresh) call arrived.  Returns (set of excused calls) or None."""
    ret = res.cfg['retention_timeout']
    dups = dup_key_batches(res)
    if not dups:
        return None
    excused = set()
    for b, k in dups:
        idxs = [a.idx for kk, a in b.items if kk == k]
        for i1, i2 in zip(idxs, idxs[1:]):
            o1, o2 = res.outs[i1], res.outs[i2]
            if not (i1 in victims and o1.kind in ('cancelled', 'timeout') and o1.t_done <= b.start + EPS
                    and o2.seq > o1.seq and o2.t_arrive >= o1.t_done - EPS
                    and (ret == 0 or o2.t_arrive >= o1.t_done + ret - EPS)):
                return None
        members = set(a.idx for _, a in b.items)
        for i in range(len(res.calls)):
            if serving(res, i) in members:
                excused.add(i)
    return excused


def examine(res, victims):
    """-> (problems, known) for one run."""
    probs = list(res.item_problems)
    excused = is_known_subcase(res, victims)
    known = []
    for i in range(len(res.calls)):
        o = res.outs[i]
        if i in victims:
            if o.kind in ('cancelled', 'timeout'):
                continue
            if o.kind == 'never':
                p = 'victim call %d (key %s) NEVER FINISHED after being cancelled' % (i, res.calls[i].key)
            else:
                p = judge_call(res, i)
        else:
            p = judge_call(res, i)
        if p:
            (known if excused is not None and i in excused else probs).append(p)
    return probs, known


def variants(thorough):
    out = []
    for ret in (0.0, RET):
        for mbs, mcb in ((5, 2), (2, 1)):
            for order, pre, item, beh in (('fwd', 0.0, 1.0, {}), ('rev', 1.0, 0.0, {'b': EXCVAL}),
                                          ('shuf', 0.5, 0.5, {'a': EXCVAL, 'c': OMIT})):
                if not thorough and order == 'shuf' and mbs == 2:
                    continue
                out.append((cfg(mbs, mcb, ret), Spec(beh, order, pre, item, 0.25)))
    return out


def build(keys, gaps, cancels):
    calls = [Call(g, k, explicit=(i % 2 == 0), cancel=cancels.get(i)) for i, (k, g) in enumerate(zip(keys, gaps))]
    return calls + tail(keys)


def subcase_queued_owner_cancelled_then_fresh_call():
    """The KNOWN sub-case as minimal timed programs.  Returns (runs, lines to print with KNOWN-SUBCASE:)."""
    lines, runs = [], 0
    progs = [
        # owner a cancelled @0.25 while queued; sharer of a; bystander b; FRESH a @0.5 inside the batching window
        ('cancel', 0.0, 'fwd', [Call(0, 'a', cancel=('at', 0.25)), Call(0, 'a'), Call(0, 'b'), Call(0.5, 'a')]),
        ('cancel', 0.0, 'rev', [Call(0, 'a', cancel=('at', 0.25)), Call(0, 'a'), Call(0, 'b'), Call(0.5, 'a')]),
        ('wait_for', 0.0, 'fwd', [Call(0, 'a', cancel=('timeout', 0.25)), Call(0, 'a'), Call(0, 'b'), Call(0.5, 'a')]),
        # the fresh call precedes bystander b: the function yields a twice before b -> b gets KeyError
        ('cancel, bystander after the fresh call', 0.0, 'fwd',
         [Call(0, 'a', cancel=('at', 0.25)), Call(0, 'a'), Call(0.5, 'a'), Call(0, 'b')]),
        ('cancel, no sharer', 0.0, 'rev', [Call(0, 'a', cancel=('at', 0.25)), Call(0, 'b'), Call(0.5, 'a')]),
        ('cancel, retention 0.125 elapsed', 0.125, 'fwd',
         [Call(0, 'a', cancel=('at', 0.25)), Call(0, 'a'), Call(0, 'b'), Call(0.5, 'a')]),
        # control: the fresh call arrives after the batch was handed over -> no sub-case expected
        ('control: fresh call after dispatch', 0.0, 'fwd',
         [Call(0, 'a', cancel=('at', 0.25)), Call(0, 'a'), Call(0, 'b'), Call(1.5, 'a')]),
    ]
    for label, ret, order, calls in progs:
        runs += 1
        res = run_program(cfg(5, 2, ret), calls + tail('ab'), Spec({}, order, 0.0, 1.0, 0.0))
        probs, known = examine(res, {0})
        for p in probs:
            lines.append(('PROBLEM', '[known-subcase program, %s] %s -> %s || observed: %s'
                          % (label, res.describe(), p, res.observed())))
        if known:
            # repaired by commit 9866b3b (D11): a run in this sub-case is a violation again
            lines.append(('PROBLEM', '%s [%s] %s -> %s || observed: %s'
                          % (KNOWN_SUBCASES[0]['id'], label, res.describe(), ' | '.join(known), res.observed())))
    return runs, lines


def custom_key_programs():
    """Explicit key= different from str(arg): the owner of key 'alias' (arg 1) is cancelled while pending, a caller with
    the default key '1' (same arg) shares the batch; later the custom key must be computed afresh (retention 0) or be
    served from the retained answer and then afresh after the window."""
    import asyncio as aio
    from scenarios import vt
    from aiuti.asyncio import AsyncBackgroundBatcher
    lines, runs = [], 0
    for retention in (0.0, 2.0):
        for cancel_at in (0.25, 1.25):           # queued / batch running
            runs += 1
            seen = []

            async def fn(batch):
                batch = list(batch)
                seen.append([k for k, _ in batch])
                await aio.sleep(0.5)
                for k, v in batch:
                    yield k, ('result', k, v, len(seen))

            async def prog():
                b = AsyncBackgroundBatcher(fn, max_batch_size=8, batch_timeout=1.0, retention_timeout=retention)
                owner = aio.ensure_future(b(1, key='alias'))
                plain = aio.ensure_future(b(1))
                await aio.sleep(cancel_at)
                owner.cancel()
                out = {}
                try:
                    out['plain'] = await aio.wait_for(plain, 50)
                except BaseException as e:  # noqa
                    out['plain'] = 'raised %r' % (e,)
                await aio.sleep(retention + 3)
                try:
                    out['later_alias'] = await aio.wait_for(b(2, key='alias'), 50)
                except BaseException as e:  # noqa
                    out['later_alias'] = 'raised %r' % (e,)
                try:
                    out['later_plain'] = await aio.wait_for(b(1), 50)
                except BaseException as e:  # noqa
                    out['later_plain'] = 'raised %r' % (e,)
                return out
            out = vt.run(prog())
            desc = 'custom key: owner of key=alias (arg 1) cancelled at %s, retention %s' % (cancel_at, retention)
            if not (isinstance(out['plain'], tuple) and out['plain'][:3] == ('result', '1', 1)):
                lines.append(('PROBLEM', '%s: the caller of default key \'1\' got %r' % (desc, out['plain'])))
            la = out['later_alias']
            if not (isinstance(la, tuple) and la[:3] == ('result', 'alias', 2)):
                lines.append(('PROBLEM', '%s: a later call b(2, key=alias) after the retention window got %r (batches %r)'
                              % (desc, la, seen)))
            lp = out['later_plain']
            if not (isinstance(lp, tuple) and lp[:3] == ('result', '1', 1) and lp[3] > out['plain'][3] if isinstance(out['plain'], tuple) else False):
                lines.append(('PROBLEM', '%s: a later call b(1) after the retention window got %r' % (desc, lp)))
    return runs, lines


def main(thorough):
    t0 = time.time()
    runs = failing = known_runs = 0
    known_example = None
    stop = False
    for keys, gaps, core in base_programs(thorough):
        if stop:
            break
        for cf, sp in variants(thorough):
            if stop:
                break
            dry = run_program(cf, build(keys, gaps, {}), sp)
            runs += 1
            probs, _ = examine(dry, set())
            if probs:
                failing += 1
                print('PROBLEM: [no cancellation at all] %s -> %s || observed: %s'
                      % (dry.describe(), ' | '.join(probs[:4]), dry.observed()))
                stop = failing >= 25
                continue
            n = len(keys)
            per = {v: instants(dry, v) for v in range(n)}
            jobs = []
            for v in range(n):
                for label, spec in per[v]:
                    jobs.append({v: spec})
                    tm = with_timeout(spec, dry.outs[v].t_arrive)
                    if tm:
                        jobs.append({v: tm})
            pairs = []
            for v, w in itertools.combinations(range(n), 2):
                for (_, s1), (_, s2) in itertools.product(per[v], per[w]):
                    pairs.append({v: s1, w: s2})
                    t1, t2 = with_timeout(s1, dry.outs[v].t_arrive), with_timeout(s2, dry.outs[w].t_arrive)
                    if t1 and t2:
                        pairs.append({v: t1, w: s2})
            if not thorough:
                stride = 9 if n <= 4 else 19
                pairs = pairs[(len(keys) + len(jobs)) % stride::stride]
            elif not core:
                pairs = pairs[len(jobs) % 5::5]
            elif n > 4:
                pairs = pairs[len(jobs) % 2::2]
            if thorough and core and n <= 4:
                for trio in itertools.combinations(range(n), 3):
                    for specs in itertools.product(*[[s for _, s in per[v] if s[0] != 'hook' or s[1] == 'post']
                                                     for v in trio]):
                        pairs.append(dict(zip(trio, specs)))
            for cancels in jobs + pairs:
                res = run_program(cf, build(keys, gaps, cancels), sp)
                runs += 1
                probs, known = examine(res, set(cancels))
                if known:
                    # the former known sub-case (D11, repaired): counted as a violation
                    probs = list(probs) + ['[former known sub-case] ' + k for k in known]
                if probs:
                    failing += 1
                    if failing <= 3:
                        print('PROBLEM: %s -> %s || observed: %s' % (res.describe(), ' | '.join(probs[:4]), res.observed()))
                    if failing >= 25:
                        stop = True
                        break
    r2, lines = subcase_queued_owner_cancelled_then_fresh_call()
    runs += r2
    r3, lines3 = custom_key_programs()
    runs += r3
    lines += lines3
    for kind, text in lines:
        print('%s: %s' % (kind, text))
        if kind == 'PROBLEM':
            failing += 1
    if known_runs:
        print('KNOWN-SUBCASE: %s also met %d time(s) inside the general enumeration (excused there), first: %s'
              % (KNOWN_SUBCASES[0]['id'], known_runs, known_example))
    print('C09 stand-in: %d timed programs run, %d violating, %d in known sub-case, %.1fs (bounded: <=6 calls + final round, '
          'keys a..d shared and distinct, 1..2%s victims x instants {now, queued, running, pre/post result turn, other key\'s '
          'result turn, after} x {cancel, wait_for}, retention 0/2.0, 3 result orders, max_batch_size 5/2, '
          'max_concurrent_batches 2/1)' % (runs, failing, known_runs, time.time() - t0, '..3' if thorough else ''))
    return 1 if failing else 0
