"""Bounded stand-in for C08 on the real code (virtual time): the buffer debounces -- one non-overlapping,
non-empty call per quiet period.

Oracle (from the property statement; `m` = 1e-6 margin, all instants are exact binary fractions at least
timeout/8 apart unless they are exact ties):
  O1  an invocation never starts while another one is running (occupancy counter in the wrapped function);
  O2  the wrapped function is never called with an empty set;
  and, for immediately available arguments (plain calls, synchronous iterables) with no forced flush:
  O3  if two consecutive submissions are less than `timeout` apart, no invocation STARTS strictly between
      them ("not called while submissions keep arriving less than timeout apart");
  O4  for every maximal burst (consecutive gaps < timeout): the arguments of the burst that arrived while the
      function was idle are all in ONE invocation that starts `timeout` after the burst's last submission, and
      in no earlier invocation;
  O5  after a raising invocation the next invocation starts no earlier than `timeout` after it ended (the retry
      also waits for a quiet period: "one call per quiet period").
  Ties are not judged: a burst is skipped by O4 when a gap to a neighbouring submission is within m of
  `timeout`, or when one of its submissions is within m of the start or the end of an invocation (that is where
  a submission ties with a timer firing / the function returning); O3/O5 compare with margin m.

BOUNDED domain:
  D  arrival-time sequences of 3 (all) / 4 (reduced gap grid; thorough: all, and 5 on the reduced grid)
     submissions with gaps from {0,.5,.75,.875,1,1.125,1.5,2,2.125,3} x timeout (0, just below / at / just above
     timeout, multiples); function durations {none,.5,1.5,2} x timeout (shorter and longer than timeout);
     invocations raising: {}, {0}, {1}, {0,1}; timeouts {1, .25, 3}; submissions all plain or cycling through
     plain / list / non-iterator iterable / iterator;
  B  O1+O2 only, on a broad family that also has forced flushes, empty iterables, only-failing producers, slow
     asynchronous producers, foreign-thread submissions at every loop-thread operation point.
"""
import itertools
import random
import time

from scenarios.props import _buffer_common as bc
from scenarios.props._buffer_common import catalogue, GAPS, Ctx, Stop, f_bases

M = bc.EPS
GAPS_FULL = (0, 0.5, 0.75, 0.875, 1, 1.125, 1.5, 2, 2.125, 3)
GAPS_RED = (0.5, 0.75, 1, 1.125, 1.5, 2.125)
DURS = (None, 0.5, 1.5, 2)
FAILS = ((), (0,), (1,), (0, 1))
STATS = {'O3 pairs': 0, 'O4 bursts judged': 0, 'O4 bursts skipped at ties': 0, 'O4 bursts without idle arrivals': 0,
         'O5 retries': 0}


def debounce_problems(w, T, where):
    probs = bc.basic_call_problems(w, where)
    subs = w.subs
    calls = w.calls
    times = [s['t'] for s in subs]
    for c in calls:
        if c.end is None:
            raise bc.HarnessError('horizon too short: %r still running' % (c,))
    # O3
    for i in range(len(times) - 1):
        a, b = times[i], times[i + 1]
        if b - a < T - M:
            STATS['O3 pairs'] += 1
            for c in calls:
                if a + M < c.start < b - M:
                    probs.append('%s: %r STARTED between the submissions at t=%g and t=%g which are only %g < timeout '
                                 'apart; calls=%s' % (where, c, a, b, b - a, bc.fmt_calls(calls)))
    # O5
    for i in range(len(calls) - 1):
        c, n = calls[i], calls[i + 1]
        STATS['O5 retries'] += c.ok is False
        if c.ok is False and n.start < c.end + T - M:
            probs.append('%s: %r raised and ended at t=%g, the next invocation %r started only %g later, expected a '
                         'quiet period of timeout=%g first; calls=%s'
                         % (where, c, c.end, n, n.start - c.end, T, bc.fmt_calls(calls)))
    # O4
    bursts = []          # [first index, last index, ambiguous]
    for i in range(len(times)):
        if i == 0:
            bursts.append([0, 0, False])
            continue
        gap = times[i] - times[i - 1]
        if gap < T - M:
            bursts[-1][1] = i
        else:
            amb = gap <= T + M
            if amb:
                bursts[-1][2] = True
            bursts.append([i, i, amb])
    for lo, hi, amb in bursts:
        if amb:
            STATS['O4 bursts skipped at ties'] += 1
            continue
        idle = []
        edge = False
        status = []
        for s in subs[lo:hi + 1]:
            t = s['t']
            if any(abs(t - c.start) <= M or abs(t - c.end) <= M for c in calls):
                edge = True
                break
            busy = any(c.start < t < c.end for c in calls)
            status.append(busy)
            if not busy:
                idle.append(s)
        if edge:
            STATS['O4 bursts skipped at ties'] += 1
            continue
        want = set(x for s in idle for x in s['expected'])
        if not want or status[-1]:
            STATS['O4 bursts without idle arrivals'] += 1
            continue
        STATS['O4 bursts judged'] += 1
        last = times[hi]
        hit = [c for c in calls if abs(c.start - (last + T)) <= M]
        early = [c for c in calls if c.start < last + T - M and c.start >= idle[0]['t'] and (c.args & want)]
        desc = 'the burst of submissions at t=%s (arguments %s arrived while the function was idle)' % (
            [times[i] for i in range(lo, hi + 1)], sorted(want, key=str))
        if early:
            probs.append('%s: %s: %r received some of them before the quiet period was over (expected one call at '
                         't=%g); calls=%s' % (where, desc, early[0], last + T, bc.fmt_calls(calls)))
        elif not hit:
            probs.append('%s: %s: no invocation started at t=%g = last submission + timeout; calls=%s'
                         % (where, desc, last + T, bc.fmt_calls(calls)))
        elif not hit[0].args >= want:
            probs.append('%s: %s: %r, which started timeout after the last of them, did not receive all of them '
                         '(missing %s); calls=%s' % (where, desc, hit[0], sorted(want - hit[0].args, key=str),
                                                    bc.fmt_calls(calls)))
    return probs


def sub_action(pattern, i):
    if pattern == 'plain' or i % 4 == 0:
        return ('call', 'x%d' % i)
    if i % 4 == 1:
        return ('map', 'list', ('x%da' % i, 'x%db' % i), None)
    if i % 4 == 2:
        return ('map', 'iterable', ('x%da' % i, 'x%db' % i), None)
    return ('map', 'iterator', ('x%da' % i, 'x%db' % i), None)


def run_debounce(ctx, T, gaps, dur, fails, pattern):
    ctx.count('D%d' % (len(gaps) + 1))
    t = 0
    actions = [(0, ) + sub_action(pattern, 0)]
    for i, g in enumerate(gaps):
        t += g * T
        actions.append((t, ) + sub_action(pattern, i + 1))
    d = None if dur is None else dur * T
    H = bc.default_horizon(T, actions, (), fails, d, extra_rounds=len(actions) + 2)
    w = bc.World(T, fails=fails, default_dur=d)
    try:
        w.run(w.drive(actions, H))
        where = 'timeout=%g, program {%s}, %s' % (T, bc.fmt_actions(actions), bc.fmt_func((), fails, d))
        probs = debounce_problems(w, T, where)
    finally:
        w.close()
    ctx.report(probs)


def family_D(ctx, thorough):
    cfgs = [(d, f) for d in DURS for f in FAILS]
    for T in (1.0, 0.25, 3.0):
        main_T = T == 1.0
        for pattern in ('plain', 'mixed'):
            for gaps in itertools.product(GAPS_FULL, repeat=2):
                for dur, fails in (cfgs if (thorough or main_T) else cfgs[5:12:2]):
                    run_debounce(ctx, T, gaps, dur, fails, pattern)
            if thorough or main_T:
                for gaps in itertools.product(GAPS_FULL if (thorough and main_T) else GAPS_RED, repeat=3):
                    if pattern == 'mixed' and not thorough and (gaps[0] + 2 * gaps[1] + 3 * gaps[2]) * 8 % 3:
                        continue
                    for dur, fails in cfgs:
                        run_debounce(ctx, T, gaps, dur, fails, pattern)
            if thorough and main_T:
                for gaps in itertools.product(GAPS_RED, repeat=4):
                    for dur, fails in cfgs:
                        run_debounce(ctx, T, gaps, dur, fails, pattern)
        # one submission only / the same instant several times
        for dur, fails in cfgs:
            run_debounce(ctx, T, (), dur, fails, 'mixed')
            run_debounce(ctx, T, (0, 0, 0), dur, fails, 'mixed')


# ------------------------------------------------------------------------------------------ B (O1 + O2 only)

def run_basic(ctx, fam, T, actions, durations=(), fails=(), default_dur=None, inject=None):
    ctx.count(fam)
    H = bc.default_horizon(T, actions, durations, fails, default_dur)
    w = bc.World(T, durations=durations, fails=fails, default_dur=default_dur, hooks=inject is not None)
    try:
        if inject is not None and inject >= 0:
            w.hooks.inject[inject] = [lambda: w.foreign_submit_now(('map', 'list', ('F0', 'F1'), None), 'foreign-1'),
                                      lambda: w.foreign_submit_now(('map', 'list', (), None), 'foreign-2')]
        w.run(w.drive(actions, H))
        n_ops = w.hooks.n if w.hooks else 0
        where = 'timeout=%g, program {%s}, %s%s' % (
            T, bc.fmt_actions(actions), bc.fmt_func(durations, fails, default_dur),
            '' if inject is None or inject < 0 else
            '; two foreign threads submitting [F0, F1] and [] at loop-thread operation #%d' % inject)
        probs = bc.basic_call_problems(w, where)
    finally:
        w.close()
    ctx.report(probs)
    return n_ops


def family_B(ctx, thorough, T):
    cat = catalogue(T, thorough)
    names = list(cat)
    empties = [n for n in names if not bc.produced(cat[n]('p'))]
    # every single producer kind, with and without flushes
    for n in names:
        for fails, dur in (((), None), ((0,), 0.5 * T), ((0, 1), 1.5 * T)):
            for waits in ((), ((0, True),), ((0.5, False),), ((0, True), (1, True), (1.125, False))):
                acts = sorted([(0, ) + cat[n]('p')] + [(g * T, 'wait', c) for g, c in waits], key=lambda a: a[0])
                run_basic(ctx, 'B1', T, acts, fails=fails, default_dur=dur)
    # producers that produce nothing, in every pair / order, +- a real argument later
    for n1 in empties:
        for n2 in names:
            for g in (0, 0.5, 1, 1.125):
                for tail in (None, 2.5):
                    for waits in ((), ((g, True),), ((g + 0.5, True), (g + 1, False))):
                        acts = [(0, ) + cat[n1]('p'), (g * T, ) + cat[n2]('q')]
                        if tail is not None:
                            acts.append(((g + tail) * T, 'call', 'z'))
                        acts += [(x * T, 'wait', c) for x, c in waits]
                        acts.sort(key=lambda a: a[0])
                        run_basic(ctx, 'B2', T, acts, fails=(0,), default_dur=0.5 * T)
    # pairs at every gap with a forced flush somewhere (overlap needs a call in flight + a flush / new round)
    for n1, n2 in itertools.product(names if thorough else names[::2], repeat=2):
        for g in GAPS:
            for wg in (0.25, 1.25):
                acts = sorted([(0, ) + cat[n1]('p'), (g * T, ) + cat[n2]('q'), (wg * T, 'wait', True),
                               ((g + wg) * T, 'wait', True), ((g + wg + 0.25) * T, 'call', 'z')], key=lambda a: a[0])
                run_basic(ctx, 'B3', T, acts, fails=(1,), default_dur=1.5 * T)
    # seeded long programs
    full = catalogue(T, True)
    fnames = list(full)
    for seed in range(1500 if thorough else 150):
        rnd = random.Random(2000 + seed)
        t = 0
        acts = []
        for i in range(8):
            t += rnd.choice(GAPS) * T
            acts.append((t, ) + full[rnd.choice(fnames)]('s%d_' % i))
        for _ in range(rnd.randrange(4)):
            acts.append((rnd.choice(GAPS + (2, 3, 4.5, 6)) * T, 'wait', rnd.random() < 0.7))
        acts.sort(key=lambda a: a[0])
        fails = tuple(i for i in range(6) if rnd.random() < 0.3)
        durs = tuple(rnd.choice((None, 0.5 * T, 1.5 * T)) for _ in range(7))
        run_basic(ctx, 'B8', T, acts, durations=durs, fails=fails)
    # foreign threads (a non-empty and an empty submission) at every loop-thread operation point
    for name, own, fails, dur in f_bases(T):
        n0 = run_basic(ctx, 'BF', T, own, fails=fails, default_dur=dur, inject=-1)
        for i in range(n0):
            run_basic(ctx, 'BF', T, own, fails=fails, default_dur=dur, inject=i)


# ------------------------------------------------------------------------------------------ main

def run(thorough):
    ctx = Ctx()
    try:
        family_D(ctx, thorough)
        for T in ((1.0, 0.25) if thorough else (1.0,)):
            family_B(ctx, thorough, T)
    except Stop:
        pass
    return ctx


def main(thorough):
    t0 = time.time()
    with bc.deterministic_gc():
        ctx = run(thorough)
    for p in ctx.probs[:3]:
        print('PROBLEM:', p)
    print('C08 stand-in: judged', ', '.join('%s: %d' % kv for kv in STATS.items()))
    print('C08 stand-in: %d scenario runs %s, %.1fs (bounded: debounce over 1..%d submissions with gaps from %s x timeout '
          '(4th%s gap from %s; reduced grid for timeouts != 1), function durations %s x timeout, raising invocations %s, timeouts [1, 0.25, 3], margin %g; '
          'overlap / empty-set checks additionally over the C03 producer catalogue with flushes, seeded 8-submission '
          'programs and 2 foreign threads at every loop-thread operation point)'
          % (ctx.runs, dict(sorted(ctx.per.items())), time.time() - t0, 5 if thorough else 4, list(GAPS_FULL),
             '/5th' if thorough else '', list(GAPS_FULL if thorough else GAPS_RED), list(DURS), list(FAILS), M))
    return 1 if ctx.probs else 0
