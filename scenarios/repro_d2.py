"""
Reproducer D2: a caller of a threadsafe_async_cache function observes
CancelledError although its own task was never cancelled, because the
loop which was computing the value (in another thread) shut down.

Thread A / loop LA: starts the computation f(1) (never finishes), waits
until B's proxy ``event.wait()`` task exists on LA, then returns from
main -> asyncio.run-style shutdown cancels all leftover tasks on LA.
Main thread / loop LB: ``await f(1)``; legal outcome: B takes over and
recomputes (second invocation returns immediately) -> value 42.

exit 0: B got a value; exit 1: B got an exception it did not cause;
exit 2: harness problem (timeout/hang).
"""
import sys
import asyncio
import threading

import aiuti.asyncio as mod

T = 20  # generous bound for every wait

a_computing = threading.Event()    # first invocation is running on LA
proxy_submitted = threading.Event()  # B called run_coroutine_threadsafe
a_done = threading.Event()
a_info = {}
calls = []

_real_run_coro_ts = mod.run_coro_ts


def _spy_run_coro_ts(coro, loop):
    fut = _real_run_coro_ts(coro, loop)
    proxy_submitted.set()
    return fut


mod.run_coro_ts = _spy_run_coro_ts


@mod.threadsafe_async_cache
async def f(x):
    calls.append(threading.current_thread().name)
    if len(calls) == 1:
        a_computing.set()
        await asyncio.Event().wait()  # forever (until LA shuts down)
    return 42


def thread_a():
    la = asyncio.new_event_loop()
    asyncio.set_event_loop(la)

    async def main():
        comp = la.create_task(f(1))
        ok = await la.run_in_executor(None, proxy_submitted.wait, T)
        a_info['proxy_submitted'] = ok
        # main + comp + B's proxy task actually created on LA
        for _ in range(int(T / 0.001)):
            if len(asyncio.all_tasks(la)) >= 3:
                break
            await asyncio.sleep(0.001)
        a_info['tasks_at_exit'] = len(asyncio.all_tasks(la))
        a_info['comp_done'] = comp.done()

    try:
        la.run_until_complete(main())
    finally:
        try:  # what asyncio.run does on the way out
            to_cancel = asyncio.all_tasks(la)
            for t in to_cancel:
                t.cancel()
            la.run_until_complete(
                asyncio.gather(*to_cancel, return_exceptions=True))
            la.run_until_complete(la.shutdown_asyncgens())
            la.run_until_complete(la.shutdown_default_executor())
        finally:
            asyncio.set_event_loop(None)
            la.close()
            a_done.set()


async def main_b():
    task = asyncio.ensure_future(f(1))
    done, pending = await asyncio.wait([task], timeout=T)
    if pending:
        task.cancel()
        await asyncio.wait([task], timeout=T)
        return 'hang', None
    if task.cancelled():
        return 'cancelled', None
    if task.exception() is not None:
        return 'exception', task.exception()
    return 'value', task.result()


def main():
    ta = threading.Thread(target=thread_a, name='A', daemon=True)
    ta.start()
    if not a_computing.wait(T):
        print('HARNESS: computation on LA never started')
        return 2
    outcome, payload = asyncio.run(main_b())
    a_done.wait(T)
    print('LA info:', a_info, '| invocations by thread:', calls)
    if outcome == 'value':
        print('OK: B obtained value', payload)
        return 0 if payload == 42 else 1
    if outcome == 'hang':
        print('HARNESS: B did not finish within', T, 's')
        return 2
    print('FAIL: B was never cancelled by anybody, yet its call ended with:',
          outcome, repr(payload) if payload is not None else 'CancelledError')
    return 1


if __name__ == '__main__':
    sys.exit(main())
