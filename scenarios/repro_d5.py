"""
Deterministic reproducer: cancelling / timing out one caller of an
AsyncBackgroundBatcher must not change the outcome of any other caller.

Timeline (virtual time, batch_timeout=0.05, 0.05s per item):
  t=0.00  callers own1(key 1), own2(key 2), own3(key 3), shr1(key 1) start
  t=0.05  batch [1, 2, 3] starts
  t=0.10  result for key 1   t=0.15 key 2   t=0.20 key 3
Exit status 1 (and outcomes printed) on any deviation.
"""
import asyncio
import sys

from scenarios import vt as vt_helper
from aiuti.asyncio import AsyncBackgroundBatcher

NAMES = ['own1', 'own2', 'own3', 'shr1']
ARGS = {'own1': 1, 'own2': 2, 'own3': 3, 'shr1': 1}

# name -> (victim, cancel time or 'instant'/'timeout')
SCENARIOS = [
    ('a: cancel owner of key 1 while batch runs', 'own1', 0.07),
    ('b: cancel sharer of key 1 while batch runs', 'shr1', 0.07),
    ('c1: cancel owner of key 1 while queued', 'own1', 0.02),
    ('c2: cancel owner of key 2 while queued', 'own2', 0.02),
    ('c3: cancel sharer of key 1 while queued', 'shr1', 0.02),
    ('d1: cancel owner of key 1 after its result', 'own1', 0.12),
    ('d2: cancel owner of key 1 the instant its result is set',
     'own1', 'instant'),
    ('d3: cancel sharer of key 1 the instant its result is set',
     'shr1', 'instant'),
    ('e: owner of key 1 times out (wait_for) while batch runs',
     'own1', 'timeout'),
]


def describe(task):
    if not task.done():
        return 'HUNG'
    if task.cancelled():
        return 'Cancelled'
    exc = task.exception()
    if exc is not None:
        return type(exc).__name__
    return task.result()


async def scenario(victim, when, retention):
    hook = []

    async def add_1(batch):
        for key, value in batch:
            await asyncio.sleep(0.05)
            yield key, value + 1
            # resumed only after the batcher has answered the future
            for h in hook:
                h(key)

    batched = AsyncBackgroundBatcher(add_1, retention_timeout=retention)

    tasks = {}
    for name in NAMES:
        coro = batched(ARGS[name])
        if name == victim and when == 'timeout':
            coro = asyncio.wait_for(coro, 0.07)
        tasks[name] = asyncio.ensure_future(coro)
        await asyncio.sleep(0)  # fix the arrival order: own1 really owns

    if when == 'instant':
        hook.append(lambda key: key == '1' and tasks[victim].cancel())
    elif when != 'timeout':
        asyncio.get_running_loop().call_later(when, tasks[victim].cancel)

    await asyncio.wait(list(tasks.values()), timeout=5)
    outcomes = {n: describe(t) for n, t in tasks.items()}
    for t in tasks.values():
        t.cancel()

    later = {}
    for arg in (1, 2, 3):
        t = asyncio.ensure_future(batched(arg))
        await asyncio.wait([t], timeout=5)
        later[arg] = describe(t)
        t.cancel()
    return outcomes, later


def expected(victim, when):
    exp = {n: ARGS[n] + 1 for n in NAMES}
    if when == 0.12:
        pass  # already finished: cancel is a no-op, victim has its value
    elif when == 'timeout':
        exp[victim] = 'TimeoutError'
    else:
        exp[victim] = 'Cancelled'
    return exp


def main():
    bad = 0
    for retention in (0.0, 1.0):
        for title, victim, when in SCENARIOS:
            try:
                outcomes, later = vt_helper.run(
                    scenario(victim, when, retention))
            except Exception as e:  # e.g. VirtualDeadlock
                outcomes, later = {'driver': repr(e)}, {}
            exp = expected(victim, when)
            exp_later = {1: 2, 2: 3, 3: 4}
            ok = outcomes == exp and later == exp_later
            bad += not ok
            print(f"[{'ok' if ok else 'FAIL'}] retention={retention} {title}")
            if not ok:
                print(f"        outcomes {outcomes}")
                print(f"        expected {exp}")
                print(f"        later    {later}")
                print(f"        expected {exp_later}")
    print(f"{bad} failing scenario(s)")
    return 1 if bad else 0


if __name__ == '__main__':
    sys.exit(main())
