"""
Bounded stand-in / replay for C18 (split, exhaust) and C19 (parse_to_dict) on the REAL code.
BOUNDED: small exhaustive domains (stated in the final line).  Never counted as proof.
usage: python -m scenarios.pure_props C18|C19 [--quick|--thorough]
"""
import ast
import itertools
import sys
import time


def c18(thorough):
    from aiuti.itertools import split, exhaust
    probs = []
    runs = 0
    maxlen = 5 if not thorough else 7
    vals = [0, 1, 2]
    conds_vals = [True, False, 1, 0, '', 'x', None]

    def interleavings(n0, n1, limit):
        # every order of next() calls on the two iterators, incl. abandoning (prefixes)
        seqs = set()
        for k in range(0, n0 + n1 + 3):
            for bits in itertools.product((0, 1), repeat=k):
                seqs.add(bits)
                if len(seqs) > limit:
                    return seqs
        return seqs

    for n in range(0, maxlen + 1):
        for src in ([tuple(vals[(i * 7 + j) % 3] for i in range(n)) for j in range(2)]):
            for m in sorted({0, max(n - 1, 0), n, n + 1}):
                for cbits in itertools.product(range(3), repeat=min(m, 4)):
                    C = [conds_vals[(c * 3 + i) % len(conds_vals)] for i, c in enumerate(cbits)] + [True] * (m - min(m, 4))
                    k = min(len(src), len(C))
                    exp_t = [x for x, c in zip(src[:k], C[:k]) if c]
                    exp_f = [x for x, c in zip(src[:k], C[:k]) if not c]
                    for kind in ('list', 'iter', 'reiter'):
                        for order in sorted(interleavings(len(exp_t), len(exp_f), 12 if not thorough else 40)):
                            runs += 1
                            pulled = []

                            def gen():
                                for i, x in enumerate(src):
                                    pulled.append(i)
                                    yield x
                            class Logged:
                                """a container that is not its own iterator: every pass over it pulls (and logs) again"""
                                __iter__ = staticmethod(gen)
                            s = gen() if kind == 'iter' else Logged() if kind == 'reiter' else list(src)
                            c = iter(C) if kind == 'iter' else list(C)
                            try:
                                a, b = split(s, c)
                                if pulled:
                                    probs.append('split pulled %r before any next()' % (pulled,))
                                got = ([], [])
                                its = (a, b)
                                for w in order:
                                    try:
                                        got[w].append(next(its[w]))
                                    except StopIteration:
                                        pass
                                # drain the rest of both to compare complete streams
                                rest0, rest1 = list(a), list(b)
                            except BaseException as e:  # noqa  (raised by the code under test: a finding)
                                probs.append('split(%r, %r) consumed in order %r raised %r, expected %r / %r'
                                             % (src, C, order, e, exp_t, exp_f))
                                return probs, runs
                            if got[0] + rest0 != exp_t or got[1] + rest1 != exp_f:
                                probs.append('split(%r, %r) order %r -> %r / %r, expected %r / %r'
                                             % (src, C, order, got[0] + rest0, got[1] + rest1, exp_t, exp_f))
                            if len(pulled) != len(set(pulled)):
                                probs.append('source pulled twice at an index: %r' % (pulled,))
                            if probs:
                                return probs, runs
            # callable conditions, incl. stateful ones, evaluated exactly once per element in order
            for name in ('even', 'seen_before', 'alternate'):
                calls = []
                state = {'seen': set(), 'n': 0}

                def cond(x):
                    calls.append(x)
                    if name == 'even':
                        return x % 2 == 0
                    if name == 'seen_before':
                        r = x in state['seen']
                        state['seen'].add(x)
                        return r
                    state['n'] += 1
                    return state['n'] % 2
                ref_state = {'seen': set(), 'n': 0}
                refC = []
                for x in src:
                    if name == 'even':
                        refC.append(x % 2 == 0)
                    elif name == 'seen_before':
                        refC.append(x in ref_state['seen'])
                        ref_state['seen'].add(x)
                    else:
                        ref_state['n'] += 1
                        refC.append(ref_state['n'] % 2)
                try:
                    a, b = split(iter(src), cond)
                    if calls:
                        probs.append('callable evaluated before any next()')
                    # alternate pulls
                    ga, gb = [], []
                    while True:
                        pa = next(a, StopIteration)
                        pb = next(b, StopIteration)
                        if pa is not StopIteration:
                            ga.append(pa)
                        if pb is not StopIteration:
                            gb.append(pb)
                        if pa is StopIteration and pb is StopIteration:
                            break
                except BaseException as e:  # noqa
                    probs.append('split(%r, %s) raised %r' % (src, name, e))
                    return probs, runs
                runs += 1
                et = [x for x, c in zip(src, refC) if c]
                ef = [x for x, c in zip(src, refC) if not c]
                if ga != et or gb != ef or calls != list(src):
                    probs.append('split(%r, %s): %r / %r (expected %r / %r); callable saw %r'
                                 % (src, name, ga, gb, et, ef, calls))
                    return probs, runs
    seen = []
    r = exhaust(map(seen.append, range(5)))
    if r is not None or seen != [0, 1, 2, 3, 4]:
        probs.append('exhaust: returned %r, consumed %r' % (r, seen))
    # exhaust pulls everything whatever the elements are (truthy, falsy, None, exceptions as values)
    for vals in ([0, 1, 2, 0, 3], [1, 1, 1], [0, '', None], [None, True, False, 'x', (), [0]], list(range(50))):
        src = iter(vals)
        try:
            r = exhaust(src)
        except BaseException as e:  # noqa  (raised by the code under test: a finding)
            r = e
        left = list(src)
        runs += 1
        if r is not None or left:
            probs.append('exhaust(iter(%r)): returned %r, left unconsumed %r' % (vals, r, left))
    # sets, frozensets and dict views are iterables like any other: source order is THEIR iteration order, and
    # elements need not be orderable; None is an element like any other for a callable condition
    for source in ({8, 1}, frozenset({8, 1, 16}), {1, 'a', None}, {'k2': 0, 'k1': 1}.keys()):
        order = list(source)
        flags = [i % 2 == 0 for i in range(len(order))]
        runs += 1
        try:
            a, b = split(source, flags)
            got = (list(a), list(b))
        except BaseException as e:  # noqa
            got = e
        exp = ([x for x, f_ in zip(order, flags) if f_], [x for x, f_ in zip(order, flags) if not f_])
        if got != exp:
            probs.append('split(%r, %r) -> %r, expected %r (iteration order of the source)' % (source, flags, got, exp))
    seen_by_pred = []

    def is_none(x):
        seen_by_pred.append(x)
        return x is None
    a, b = split([3, None, 0, None, 'x'], is_none)
    got = (list(a), list(b))
    runs += 1
    if got != ([None, None], [3, 0, 'x']) or seen_by_pred != [3, None, 0, None, 'x']:
        probs.append('split([3, None, 0, None, "x"], lambda x: x is None) -> %r, predicate saw %r' % (got, seen_by_pred))
    # a failure while pulling is the caller's to see, whatever its class; what came before it has been pulled
    for exc_cls in (TypeError, ValueError, KeyError, StopAsyncIteration, KeyboardInterrupt):
        pulled = []

        def failing():
            for i in range(5):
                if i == 2:
                    raise exc_cls('at element 2')
                pulled.append(i)
                yield i
        runs += 1
        try:
            r = exhaust(failing())
            probs.append('exhaust(<iterable raising %s at its third element>) returned %r after pulling %r'
                         % (exc_cls.__name__, r, pulled))
        except exc_cls:
            if pulled != [0, 1]:
                probs.append('exhaust(<iterable raising at its third element>) pulled %r before the failure' % (pulled,))
        except BaseException as e:  # noqa
            probs.append('exhaust(<iterable raising %s>) raised %r instead' % (exc_cls.__name__, e))
    # a lazy iterable that is sized (a progress wrapper, a view): exhaust still has to run it dry
    class SizedLazy:
        def __init__(self, n):
            self.n, self.log = n, []

        def __len__(self):
            return self.n

        def __iter__(self):
            for i in range(self.n):
                self.log.append(i)
                yield i
    for n in (0, 1, 4):
        sl = SizedLazy(n)
        runs += 1
        r = exhaust(sl)
        if r is not None or sl.log != list(range(n)):
            probs.append('exhaust(<sized lazy iterable of %d>): returned %r, pulled %r' % (n, r, sl.log))
    # predicates that are callable AND look iterable (types used as predicates)
    for pred, data in ((list, [[], [1], '', 'ab', ()]), (str, ['', 'a', 0, None]), (tuple, [(), (1,), [2], []]),
                       (dict, [{}, {'a': 1}])):
        calls = []

        def counted(x, _p=pred):
            calls.append(x)
            return _p(x)
        runs += 1
        try:
            a, b = split(iter(data), pred)
            ga, gb = list(a), list(b)
        except BaseException as e:  # noqa
            probs.append('split(%r, %s) raised %r' % (data, pred.__name__, e))
            continue
        et = [x for x in data if pred(x)]
        ef = [x for x in data if not pred(x)]
        if ga != et or gb != ef:
            probs.append('split(%r, %s): %r / %r, expected %r / %r' % (data, pred.__name__, ga, gb, et, ef))

    class AnyOf:
        """a predicate object that is callable and iterable"""
        def __init__(self, *ps):
            self.ps = ps
            self.n = 0

        def __iter__(self):
            return iter(self.ps)

        def __call__(self, x):
            self.n += 1
            return any(p(x) for p in self.ps)
    pr = AnyOf(lambda x: x < 0, lambda x: x > 4)
    data = [5, -1, 2, 3, 9, 0, -7, 4]
    a, b = split(iter(data), pr)
    ga, gb = list(a), list(b)
    runs += 1
    if ga != [5, -1, 9, -7] or gb != [2, 3, 0, 4] or pr.n != len(data):
        probs.append('split(%r, <callable and iterable predicate>): %r / %r, predicate called %d times' % (data, ga, gb, pr.n))
    return probs, runs


FRAGS = ['1', '1.5', '"b"', "'q'", '(1, 2)', '[1]', "{'a': 1}", 'None', 'True', 'word', 'f(1)', 'a.b', '1+',
         '__import__("os")', ' 2 ', '', 'x=y', 'a::b', '-3', ' word', 'word ', '\tq\n', ' ']


def model_tp(x, parse):
    if isinstance(x, str):
        try:
            return parse(x)
        except BaseException:  # noqa
            return x
    return x


def c19(thorough):
    from aiuti.parsing import parse_to_dict
    probs = []
    runs = 0

    class Boom(BaseException):
        pass

    def raising_parse(s):
        if 'o' in s:
            raise Boom(s)
        if s == '1':
            raise KeyError(s)
        return ast.literal_eval(s)
    called = []

    def spy_parse(s):
        called.append(s)
        return ast.literal_eval(s)
    frs = FRAGS if thorough else FRAGS[:14] + FRAGS[-7:]
    for sep in ('=', ':', '::', '=>'):
        for parse_keys in (True, False):
            for parse in (ast.literal_eval, raising_parse):
                for k, v in itertools.product(frs, repeat=2):
                    if sep in k:
                        continue
                    runs += 1
                    kw = dict(sep=sep, parse=parse, parse_keys=parse_keys)
                    ek = model_tp(k, parse) if parse_keys else k
                    ev = model_tp(v, parse)
                    try:
                        hash(ek)
                    except TypeError:
                        continue
                    exp = {ek: ev}
                    outs = {}
                    import types as _types
                    import collections as _collections
                    for shape, items in (('str', [k + sep + v]), ('pairs', [(k, v)]), ('mapping', {k: v}),
                                         ('mappingproxy', _types.MappingProxyType({k: v})),
                                         ('userdict', _collections.UserDict({k: v})),
                                         ('chainmap', _collections.ChainMap({k: v}))):
                        try:
                            outs[shape] = parse_to_dict(items, **kw)
                        except BaseException as e:  # noqa
                            outs[shape] = ('raised', type(e).__name__)
                    for shape, o in outs.items():
                        if o != exp or [type(x) for x in list(o.values())] != [type(x) for x in exp.values()]:
                            probs.append('parse_to_dict(%s %r/%r, sep=%r, parse_keys=%r, parse=%s) -> %r, model %r'
                                         % (shape, k, v, sep, parse_keys, parse.__name__, o, exp))
                            return probs, runs
                # non-string values pass through untouched; string without separator raises ValueError
                runs += 1
                obj = object()
                if parse_to_dict([('k', obj)], sep=sep, parse=parse, parse_keys=parse_keys) != {'k': obj}:
                    probs.append('non-string value changed')
                try:
                    parse_to_dict(['no separator here'], sep=sep, parse=parse, parse_keys=parse_keys)
                    probs.append('string without separator did not raise')
                except ValueError:
                    pass
                except BaseException as e:  # noqa
                    probs.append('string without separator raised %r' % (e,))
    # parse_keys is a flag: its truthiness counts, not its identity with True/False
    for flag in (1, 'yes', [0], 2.5, 0, '', None, []):
        runs += 1
        got = parse_to_dict({'1': '2'}, parse_keys=flag)
        if got != ({1: 2} if flag else {'1': 2}):
            probs.append('parse_to_dict({"1": "2"}, parse_keys=%r) -> %r' % (flag, got))
    # every item counts: an empty string is a string without the separator, an empty tuple is not a pair
    for items, exp in ((['a=1', '', 'b=2'], ValueError), ([''], ValueError), (['a=1', ()], (TypeError, ValueError)),
                       ([('k', '')], {'k': ''}), (['='], {'': ''})):
        runs += 1
        try:
            got = parse_to_dict(items)
        except BaseException as e:  # noqa
            got = type(e)
        ok = (got == exp) if isinstance(exp, dict) else (isinstance(got, type) and issubclass(got, exp))
        if not ok:
            probs.append('parse_to_dict(%r) -> %r, expected %r' % (items, got, exp))
    # keys and values that are not strings pass through untouched, with parse_keys on and off, in every input shape
    class K:
        def __repr__(self):
            return 'K()'
    k_obj = K()
    for key in (1, None, 2.5, (1, 2), k_obj, b'b', True):
        for pk in (True, False):
            for shape, items in (('mapping', {key: 'v'}), ('pairs', [(key, 'v')]), ('pair list', [[key, 'v']]),
                                 ('generator', ((k_, v_) for k_, v_ in [(key, 'v')]))):
                runs += 1
                try:
                    got = parse_to_dict(items, parse_keys=pk)
                except BaseException as e:  # noqa
                    got = e
                if not isinstance(got, dict) or list(got.items()) != [(key, 'v')] or type(list(got)[0]) is not type(key):
                    probs.append('parse_to_dict(%s with the non-string key %r, parse_keys=%r) -> %r' % (shape, key, pk, got))
    # a string is a string whatever its exact class (str mixin enums, markup-safe strings, ...)
    class Tagged(str):
        pass
    for item, exp in ((Tagged('a=1'), {'a': 1}), (Tagged('ab'), ValueError), (Tagged('k=[1, 2]'), {'k': [1, 2]}),
                      (('k', Tagged('(1, 2)')), {'k': (1, 2)}), (('k', Tagged('word')), {'k': 'word'})):
        runs += 1
        try:
            got = parse_to_dict([item])
        except ValueError:
            got = ValueError
        except BaseException as e:  # noqa
            got = e
        if got != exp:
            probs.append('parse_to_dict([%s(%r)]) -> %r, model %r' % (type(item).__name__, item, got, exp))
    if parse_to_dict([(Tagged('1'), 'v')], parse_keys=True) != {1: 'v'}:
        probs.append('a str-subclass key was not parsed with parse_keys=True')
    # default parser is literal_eval; nothing else is applied to the text
    import inspect
    if inspect.signature(parse_to_dict).parameters['parse'].default is not ast.literal_eval:
        probs.append('default parser is not ast.literal_eval')
    marker = []
    import builtins
    evil = '__import__("builtins").marker.append(1)'
    builtins.marker = marker
    try:
        r = parse_to_dict(['a=' + evil, evil + '=1'])
        if marker or r != {'a': evil, evil: 1}:
            probs.append('expression text was evaluated: %r %r' % (marker, r))
    finally:
        del builtins.marker
    # multi-item: last pair wins, order kept
    r = parse_to_dict(['a=1', 'b=2', 'a=3'])
    if r != {'a': 3, 'b': 2} or list(r) != ['a', 'b']:
        probs.append('multi-item result %r' % (r,))
    return probs, runs


def main():
    which = sys.argv[1]
    thorough = '--thorough' in sys.argv
    t0 = time.time()
    probs, runs = (c18 if which == 'C18' else c19)(thorough)
    print('pure_props %s: %d runs, %.1fs (bounded: %s)' % (
        which, runs, time.time() - t0,
        'sources <= %d, all next() interleavings up to a cap, 3 stateful callables' % (7 if thorough else 5)
        if which == 'C18' else '%d fragments^2 x 4 separators x parse_keys x 2 parsers x 3 shapes' % len(FRAGS)))
    for p in probs[:5]:
        print('PROBLEM:', p)
    return 1 if probs else 0


if __name__ == '__main__':
    try:
        rc = main()
    except Exception:
        import traceback
        traceback.print_exc()
        rc = 3
    sys.exit(rc)
