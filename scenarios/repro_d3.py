"""
Deterministic reproducer: an argument submitted from the loop's own thread is
delivered to two successful calls of a buffer_until_timeout function when a
foreign thread submits between ``_run_func``'s ``event.set()`` and
``_process_queue``'s re-read of ``event.is_set()``.

The foreign submission is a real call from a real second thread; it is only
*placed* deterministically: the instance's ``event`` is replaced by a proxy
whose ``set()`` performs the real ``set()`` and then runs (start + join) a
thread that calls ``buf('foreign')``.

exit 1: a loop-thread argument was seen in more than one successful call
exit 0: otherwise
"""
import asyncio
import sys
import threading

from scenarios import vt as vt_helper
from aiuti.asyncio import buffer_until_timeout


class EventProxy:
    """Delegates to the real Event; injects one foreign call right after set()."""

    def __init__(self, real, inject):
        self._real = real
        self._inject = inject
        self._fired = False

    def set(self):
        self._real.set()
        if not self._fired:
            self._fired = True
            t = threading.Thread(target=self._inject, name='foreign')
            t.start()
            t.join()

    def __getattr__(self, name):
        return getattr(self._real, name)


def main() -> int:
    calls = []          # successful calls, in order
    threads = {}        # arg -> submitting thread name

    loop = vt_helper.new_loop()
    asyncio.set_event_loop(loop)

    async def func(args):
        calls.append(sorted(args))

    buf = buffer_until_timeout(func, timeout=0.1)

    def foreign():
        threads['foreign'] = threading.current_thread().name
        buf('foreign')

    buf.event = EventProxy(buf.event, foreign)

    async def scenario():
        threads['own'] = threading.current_thread().name
        buf('own')                 # submitted from the loop's own thread
        await buf.wait()
        await asyncio.sleep(1)     # let every pending round finish
        await buf.wait()

    vt_helper.run(scenario(), loop=loop)
    loop.close()

    print("submitting threads:", threads)
    print("successful calls seen:", calls)
    n_own = sum('own' in c for c in calls)
    n_foreign = sum('foreign' in c for c in calls)
    print(f"'own' delivered to {n_own} successful call(s), "
          f"'foreign' to {n_foreign}")
    if n_own > 1:
        print("FAIL: loop-thread argument 'own' delivered more than once")
        return 1
    if n_own != 1 or n_foreign != 1:
        print("NOTE: no double delivery, but delivery counts are not 1/1 "
              "(not the defect this script checks)")
        return 0
    print("OK: every argument delivered to exactly one successful call")
    return 0


if __name__ == '__main__':
    sys.exit(main())
