"""
Witness scenarios for the genuine defects D1..D9 found in the design round
(DESIGN.md section 5).  Each function drives the REAL code deterministically and
returns a list of human-readable violation strings (empty = property held on
this run).  Run:  /venv/bin/python -m scenarios.defects d6
"""
import asyncio as aio
import os
import sys
import tempfile
import threading
import time

sys.path.insert(0, os.path.dirname(os.path.dirname(os.path.abspath(__file__))))
from scenarios import vt  # noqa: E402


# --------------------------------------------------------------------- D6 / C12
def d6():
    """reentrant, depth 2, release(force=True) -> another thread can acquire."""
    from aiuti.filelock import FileLock
    out = []
    with tempfile.TemporaryDirectory() as d:
        lk = FileLock(os.path.join(d, 'l'), reentrant=True)
        assert lk.acquire() and lk.acquire()
        lk.release(force=True)
        if lk.is_locked:
            out.append('is_locked still true after release(force=True)')
        got = []
        t = threading.Thread(target=lambda: got.append(lk.acquire(timeout=0.3)))
        t.start()
        t.join()
        if got != [True]:
            out.append('after release(force=True) at depth 2 another thread '
                       'cannot acquire: acquire(timeout=0.3) -> %r' % got)
        elif got == [True]:
            # release from the thread that got it is impossible now; just drop
            lk._release() if lk.is_locked else None
    return out


# --------------------------------------------------------------------- D9 / C02
def d9():
    """with-statement on an object with default timeout>=0 enters without lock."""
    from aiuti.filelock import FileLock
    out = []
    with tempfile.TemporaryDirectory() as d:
        p = os.path.join(d, 'l')
        a = FileLock(p)
        b = FileLock(p, timeout=0.05)
        assert a.acquire()
        entered = False
        try:
            with b:
                entered = True
                if not b.is_locked:
                    out.append('with-block of b entered while a holds the file '
                               '(b.is_locked=False)')
        except TimeoutError:
            pass
        finally:
            a.release()
        if entered and not out:
            out.append('with-block entered while another object held the lock')
        # same object, three threads
        c = FileLock(p, timeout=0.05)
        inside = [0]
        peak = [0]
        mu = threading.Lock()
        bar = threading.Barrier(3)

        def worker():
            bar.wait()
            try:
                with c:
                    with mu:
                        inside[0] += 1
                        peak[0] = max(peak[0], inside[0])
                    time.sleep(0.2)
                    with mu:
                        inside[0] -= 1
            except TimeoutError:
                pass
        ts = [threading.Thread(target=worker) for _ in range(3)]
        [t.start() for t in ts]
        [t.join() for t in ts]
        if peak[0] > 1:
            out.append('%d threads inside one with-block at once' % peak[0])
    return out


# --------------------------------------------------------------------- D7 / C15
def d7():
    """options form of async_background_batcher must bind retention_timeout."""
    from aiuti.asyncio import async_background_batcher
    out = []

    def build(form):
        calls = []

        async def f(batch):
            calls.append(list(batch))
            for k, v in batch:
                yield k, v + 1
        if form == 'options':
            g = async_background_batcher(retention_timeout=5, batch_timeout=0.01)(f)
        else:
            g = async_background_batcher(f, retention_timeout=5, batch_timeout=0.01)
        return g, calls

    for form in ('direct', 'options'):
        g, calls = build(form)

        async def main():
            r1 = await g(1)
            await aio.sleep(1)
            r2 = await g(1)
            return r1, r2
        vt.run(main())
        if len(calls) != 1:
            out.append('%s form: retention_timeout=5 ignored, batch function '
                       'called %d times for a repeat within the window' % (form, len(calls)))
    return out


# ---------------------------------------------------------------- D1 / C01, C06
def d1():
    """A computes on loop LA and LA stops; B (loop LB) takes over; LA's leftover
    task is cancelled and its finally must not remove B's marker."""
    from aiuti.asyncio import threadsafe_async_cache
    out = []
    active = [0]
    peak = [0]
    started = []
    gates = {}

    @threadsafe_async_cache
    async def f(x):
        me = len(started)
        started.append(me)
        active[0] += 1
        peak[0] = max(peak[0], active[0])
        try:
            gates[me] = aio.Event()
            await gates[me].wait()
            return ('r', me)
        finally:
            active[0] -= 1

    la, lb, lc = vt.new_loop(), vt.new_loop(), vt.new_loop()
    errs = []
    # A starts computing on la, la stops with the computation pending
    ta = la.create_task(f(1))
    la.run_until_complete(aio.sleep(0))
    assert started == [0]
    # B takes over on lb (la is not running): starts invocation 1
    tb = lb.create_task(f(1))
    lb.run_until_complete(aio.sleep(0))
    if started != [0, 1]:
        out.append('take-over did not happen: started=%r' % started)
        return out
    # la delivers cancellation to its leftover (this is what aio.run shutdown does)
    ta.cancel()
    try:
        la.run_until_complete(ta)
    except aio.CancelledError:
        pass
    except BaseException as e:  # bookkeeping error reaches a caller
        errs.append(('A', repr(e)))
    # C arrives on lc while B's invocation is still live on ... lb is not running
    # right now (single thread), so make lb live by running C from inside lb.
    async def on_lb():
        tc = aio.ensure_future(f(1))
        await aio.sleep(0)
        await aio.sleep(0)
        n = len(started)
        gates[1].set()
        rb = await tb
        rc = await aio.wait_for(tc, 5)
        return n, rb, rc
    try:
        n, rb, rc = lb.run_until_complete(on_lb())
    except BaseException as e:
        errs.append(('B/C', repr(e)))
        n = len(started)
    if n > 2 or peak[0] > 1 and n > 2:
        out.append('third caller started a second overlapping invocation while '
                   "B's was live on a running loop: started=%r" % started)
    for who, e in errs:
        if 'Cancelled' not in e:
            out.append('caller %s observed bookkeeping exception %s' % (who, e))
    for l in (la, lb, lc):
        l.close()
    return out


SCENARIOS = {n: g for n, g in globals().items() if n[0] == 'd' and n[1:].isdigit()}

if __name__ == '__main__':
    names = sys.argv[1:] or sorted(SCENARIOS)
    rc = 0
    for n in names:
        res = SCENARIOS[n]()
        print(n, 'OK' if not res else 'FAIL', *res, sep='\n  ' if res else ' ')
        rc |= bool(res)
    sys.exit(rc)
