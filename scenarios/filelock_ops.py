"""
Bounded stand-in / replay harness for FileLock (C02, C12, C13): model-based operation
sequences on the REAL aiuti.filelock with OSError injection, run under /venv/bin/python.

BOUNDED: sequences up to --len operations over 2 objects x 2 threads on one path; single and
double fault injection at each os.open/flock/close call index.  Never counted as proof.

exit 0: every run agreed with the reference model; exit 1: a disagreement (printed); >=3: harness error.
"""
import argparse
import itertools
import json
import os
import queue
import random
import sys
import tempfile
import threading
import time

import logging
logging.disable(logging.CRITICAL)
import aiuti.filelock as FL


class Worker(threading.Thread):
    def __init__(self):
        super().__init__(daemon=True)
        self.q = queue.Queue()
        self.start()

    def run(self):
        while True:
            fn, box, ev = self.q.get()
            if fn is None:
                return
            try:
                box.append(('ok', fn()))
            except BaseException as e:  # noqa
                box.append(('exc', e))
            ev.set()

    def call(self, fn, timeout=10):
        box, ev = [], threading.Event()
        self.q.put((fn, box, ev))
        if not ev.wait(timeout):
            return ('hang', None)
        return box[0]

    def stop(self):
        self.q.put((None, None, None))


class Faults:
    """Wraps os.open / fcntl.flock / os.close as seen by aiuti.filelock; the n-th call of a kind raises."""

    def __init__(self):
        self.plan = {}
        self.count = {'open': 0, 'lock': 0, 'unlock': 0, 'close': 0}
        self.real_os, self.real_fcntl = FL.os, FL.fcntl
        outer = self

        class OS:
            def __getattr__(s, n):
                return getattr(outer.real_os, n)

            def open(s, *a, **k):
                outer._hit('open')
                return outer.real_os.open(*a, **k)

            def close(s, fd):
                outer.real_os.close(fd)      # the descriptor IS released, the error is only reported
                outer._hit('close')

        class FC:
            def __getattr__(s, n):
                return getattr(outer.real_fcntl, n)

            def flock(s, fd, op):
                outer._hit('unlock' if op & outer.real_fcntl.LOCK_UN else 'lock')
                return outer.real_fcntl.flock(fd, op)
        self.os, self.fcntl = OS(), FC()

    def _hit(self, kind):
        self.count[kind] += 1
        if self.plan.get((kind, self.count[kind])):
            raise OSError('injected %s #%d' % (kind, self.count[kind]))

    def __enter__(self):
        FL.os, FL.fcntl = self.os, self.fcntl
        return self

    def __exit__(self, *a):
        FL.os, FL.fcntl = self.real_os, self.real_fcntl


def nfds():
    return len(os.listdir('/proc/self/fd'))


GRAVEYARD = []      # abandoned context managers (kept alive on purpose, see rel_force)

OPS = ['acq_nb', 'acq_t0', 'acq_ctx', 'with', 'rel', 'rel_force', 'exit_ctx', 'exit_exc']


def run_sequence(seq, reentrant, faults_plan, tmpdir):
    """seq: list of (thread, obj, op). Returns list of problems."""
    path = os.path.join(tmpdir, 'l%d' % random.randrange(1 << 30))
    problems = []
    with Faults() as F:
        F.plan = dict(faults_plan)
        objs = [FL.FileLock(path, reentrant=reentrant[i]) for i in range(2)]
        workers = [Worker(), Worker()]
        base_fds = nfds()
        # reference model
        owner = [None, None]
        depth = [0, 0]
        ctxs = {}          # (thread,obj) -> list of open context managers
        holder = [None]    # which object holds the flock on the path

        def model_acquire(t, o):
            if owner[o] == t:
                if reentrant[o]:
                    depth[o] += 1
                    return True
                return False
            if owner[o] is not None:
                return False
            if holder[0] is not None:
                return False
            owner[o], depth[o], holder[0] = t, 1, o
            return True

        def model_release(t, o, force):
            if owner[o] != t:
                return
            if depth[o] > 1 and not force:
                depth[o] -= 1
                return
            owner[o], depth[o] = None, 0
            if holder[0] == o:
                holder[0] = None

        for step, (t, o, op) in enumerate(seq):
            lk = objs[o]
            before = dict(F.count)
            tag = '%d:%s(t%d,o%d)' % (step, op, t, o)
            faulty = bool(F.plan)
            if op in ('acq_nb', 'acq_t0'):
                kw = dict(blocking=False) if op == 'acq_nb' else dict(timeout=0)
                if op == 'acq_t0' and faulty:
                    kw = dict(blocking=False)
                pre = (owner[o], depth[o], holder[0])
                t0 = time.time()
                st, res = workers[t].call(lambda: lk.acquire(**kw))
                dt = time.time() - t0
                if st == 'hang':
                    problems.append('%s hung' % tag)
                    break
                injected = {k: F.count[k] - before[k] for k in F.count}
                hit = [k for (k, n) in F.plan if before[k] < n <= F.count[k]]
                if st == 'exc':
                    # only a failing close may propagate, and nothing may be kept
                    if not (isinstance(res, OSError) and 'close' in hit):
                        problems.append('%s raised %r' % (tag, res))
                    expect = False
                    owner[o], depth[o], holder[0] = pre
                elif hit and owner[o] != t:
                    # an OS error while opening/locking: the attempt fails, nothing kept
                    expect = False if any(k in ('open', 'lock') for k in hit) else model_acquire(t, o)
                    if expect is False:
                        owner[o], depth[o], holder[0] = pre
                else:
                    expect = model_acquire(t, o)
                if st == 'ok' and bool(res) != bool(expect):
                    problems.append('%s returned %r, model says %r' % (tag, res, expect))
                    break
                if dt > 2.0:
                    problems.append('%s took %.2fs (non-blocking / zero timeout)' % (tag, dt))
            elif op in ('acq_ctx', 'with'):
                cm = lk.acquire_ctx(blocking=False) if op == 'acq_ctx' else lk
                lk.timeout = 0 if op == 'with' else lk.timeout
                pre = (owner[o], depth[o], holder[0])
                st, res = workers[t].call(cm.__enter__)
                if op == 'with':
                    lk.timeout = -1
                hit = [k for (k, n) in F.plan if before[k] < n <= F.count[k]]
                if st == 'hang':
                    problems.append('%s hung' % tag)
                    break
                expect = model_acquire(t, o) if not any(k in ('open', 'lock') for k in hit) or owner[o] == t else False
                if hit and expect is False:
                    owner[o], depth[o], holder[0] = pre
                if st == 'ok':
                    if not expect:
                        problems.append('%s entered the with-block although the lock is not available' % tag)
                        break
                    ctxs.setdefault((t, o), []).append(cm)
                else:
                    if expect and not (isinstance(res, OSError) and 'close' in hit):
                        problems.append('%s raised %r although the lock was available' % (tag, res))
                        break
                    if expect:
                        owner[o], depth[o], holder[0] = pre
                    if not isinstance(res, (TimeoutError, OSError)):
                        problems.append('%s raised %r' % (tag, res))
            elif op in ('exit_ctx', 'exit_exc'):
                st_ = ctxs.get((t, o))
                if not st_:
                    continue
                if owner[o] is not None and owner[o] != t:
                    # a stale context manager (its level was already given back by an explicit release) while
                    # ANOTHER thread holds the lock: leaving it would release that thread's lock, which is outside
                    # the contract (release is called by the acquiring thread, A-rel)
                    GRAVEYARD.append(st_.pop())
                    continue
                cm = st_.pop()
                if op == 'exit_ctx':
                    stt, res = workers[t].call(lambda: cm.__exit__(None, None, None))
                else:
                    # the with-block is left by an exception: exactly one level is released all the same
                    boom = ValueError('raised inside the with-block')
                    stt, res = workers[t].call(lambda: cm.__exit__(ValueError, boom, None))
                    if stt == 'ok' and res:
                        problems.append('%s: __exit__ swallowed the exception of the with-block' % tag)
                    if stt == 'exc' and res is boom:
                        stt = 'ok'      # a generator-based manager may re-raise the very exception: same thing
                if stt != 'ok':
                    problems.append('%s: __exit__ -> %s %r' % (tag, stt, res))
                model_release(t, o, False)
            elif op in ('rel', 'rel_force'):
                if owner[o] is not None and owner[o] != t:
                    continue        # releasing another thread's lock is outside the contract
                force = op == 'rel_force'
                stt, res = workers[t].call(lambda: lk.release(force=force))
                if stt != 'ok':
                    problems.append('%s: release -> %s %r' % (tag, stt, res))
                    break
                model_release(t, o, force)
                if force:
                    # the context managers of the levels just dropped are never left: keep them referenced, a
                    # garbage-collected acquire_ctx() generator runs its `finally: release()` at a random moment
                    GRAVEYARD.extend(ctxs.pop((t, o), []))
            # ---- observable state against the model after every operation
            for i in range(2):
                if objs[i].is_locked != (owner[i] is not None):
                    problems.append('%s: obj%d.is_locked=%r, model holder=%r' % (tag, i, objs[i].is_locked, owner[i]))
                if objs[i]._lock_counter != depth[i]:
                    problems.append('%s: obj%d counter=%d, model depth=%d' % (tag, i, objs[i]._lock_counter, depth[i]))
            held = sum(1 for i in range(2) if owner[i] is not None)
            if nfds() - base_fds != held:
                problems.append('%s: %d descriptors open beyond baseline, model says %d'
                                % (tag, nfds() - base_fds, held))
            if problems:
                break
        # ---- epilogue: release everything, then anybody can acquire again
        if not problems:
            F.plan = {}
            for i in range(2):
                if owner[i] is not None:
                    workers[owner[i]].call(lambda i=i: objs[i].release(force=True))
                    model_release(owner[i], i, True)
            for i in range(2):
                for t in range(2):
                    st, res = workers[t].call(lambda i=i: objs[i].acquire(timeout=0.2))
                    if st != 'ok' or res is not True:
                        problems.append('after full release thread %d cannot acquire obj%d: %s %r' % (t, i, st, res))
                    else:
                        workers[t].call(lambda i=i: objs[i].release())
            if nfds() != base_fds:
                problems.append('descriptor leak at the end: %d' % (nfds() - base_fds))
        for w in workers:
            w.stop()
        for ob in objs:
            try:
                ob.release(force=True)
            except Exception:
                pass
    return problems


DIRECTED = [
    # nested with-blocks / context managers left by an exception, then the state is observed
    [(0, 0, 'with'), (0, 0, 'with'), (0, 0, 'exit_exc'), (1, 1, 'acq_nb'), (0, 0, 'exit_ctx')],
    [(0, 0, 'acq_ctx'), (0, 0, 'acq_ctx'), (0, 0, 'exit_exc'), (1, 1, 'acq_nb'), (0, 0, 'exit_exc')],
    [(0, 0, 'acq_nb'), (0, 0, 'with'), (0, 0, 'exit_exc'), (0, 1, 'acq_nb'), (0, 0, 'rel')],
    [(0, 0, 'with'), (0, 0, 'acq_ctx'), (0, 0, 'exit_exc'), (0, 0, 'exit_exc'), (1, 1, 'acq_nb')],
    [(0, 0, 'acq_nb'), (0, 0, 'acq_nb'), (0, 0, 'rel'), (1, 1, 'acq_nb'), (0, 0, 'rel'), (1, 1, 'acq_nb')],
    [(0, 0, 'acq_nb'), (0, 0, 'acq_nb'), (0, 0, 'rel_force'), (1, 1, 'acq_nb'), (1, 1, 'rel'), (0, 0, 'acq_nb')],
]


def interrupted_wait(tmpdir):
    """An acquire that is polling for a contended lock is cut short by KeyboardInterrupt (Ctrl-C reaching a
    blocked main thread): the attempt must keep nothing (C12: failed attempts keep no internal lock)."""
    problems = []
    for reentrant in (False, True):
        path = os.path.join(tmpdir, 'intr%d' % reentrant)
        a, b = FL.FileLock(path), FL.FileLock(path, reentrant=reentrant)
        w0, w1 = Worker(), Worker()
        real_time = FL.time

        class FakeTime:
            fired = 0

            def __getattr__(s, n):
                return getattr(real_time, n)

            def sleep(s, d):
                if not FakeTime.fired:
                    FakeTime.fired = 1
                    raise KeyboardInterrupt('injected while polling')
                return real_time.sleep(d)
        try:
            w0.call(lambda: a.acquire())
            FL.time = FakeTime()
            st, res = w1.call(lambda: b.acquire(timeout=5))
            FL.time = real_time
            if not (st == 'exc' and isinstance(res, KeyboardInterrupt)):
                problems.append('interrupted acquire(timeout=5) -> %s %r (the interrupt must propagate)' % (st, res))
            if b.is_locked or b._lock_counter != 0:
                problems.append('after an interrupted acquire: is_locked=%r counter=%d' % (b.is_locked, b._lock_counter))
            w0.call(lambda: a.release())
            st, res = w0.call(lambda: b.acquire(timeout=0.5))     # ANOTHER thread, same object
            if st != 'ok' or res is not True:
                problems.append('after an interrupted acquire (reentrant=%r) another thread cannot acquire through '
                                'the same object: %s %r (the in-process lock was kept)' % (reentrant, st, res))
            else:
                w0.call(lambda: b.release())
        finally:
            FL.time = real_time
            for o in (a, b):
                try:
                    o.release(force=True)
                except Exception:
                    pass
            w0.stop()
            w1.stop()
        if problems:
            break
    return problems


def release_while_another_thread_polls(tmpdir):
    """C12/C02: thread A is polling for a contended lock through object L; another thread calls L.release()
    (for that thread L is unheld: a no-op).  A's later acquire / nested use / release must be unaffected."""
    problems = []
    for reentrant in (False, True):
        path = os.path.join(tmpdir, 'relpoll%d' % reentrant)
        other, lk = FL.FileLock(path), FL.FileLock(path, reentrant=reentrant)
        w0, w1 = Worker(), Worker()
        real_time = FL.time
        polling, go = threading.Event(), threading.Event()

        class FakeTime:
            def __getattr__(s, n):
                return getattr(real_time, n)

            def sleep(s, d):
                if not polling.is_set():
                    polling.set()
                    go.wait(10)
                return real_time.sleep(min(d, 0.01))
        try:
            w0.call(lambda: other.acquire())
            FL.time = FakeTime()
            box = []
            th = threading.Thread(target=lambda: box.append(w1.call(lambda: lk.acquire(timeout=5), timeout=20)))
            th.start()
            if not polling.wait(10):
                problems.append('scenario set-up: the contender never started polling')
            st, res = w0.call(lambda: lk.release())            # unheld for this thread
            if st != 'ok':
                problems.append('release() of an unheld lock while another thread polls raised %r' % (res,))
            w0.call(lambda: other.release())
            go.set()
            th.join(20)
            FL.time = real_time
            if not box or box[0] != ('ok', True):
                problems.append('the polling thread did not get the lock after the holder released: %r' % (box,))
            else:
                if reentrant:
                    w1.call(lambda: lk.acquire())
                    w1.call(lambda: lk.release())
                    if not lk.is_locked or other.acquire(blocking=False):
                        problems.append('after a foreign no-op release() during its poll, the owner lost the lock '
                                        'when it left a NESTED level (is_locked=%r)' % lk.is_locked)
                        other.release()
                w1.call(lambda: lk.release())
                if lk.is_locked or lk._lock_counter != 0:
                    problems.append('after a foreign no-op release() during its poll, the owner\'s own release did '
                                    'not release: is_locked=%r counter=%d' % (lk.is_locked, lk._lock_counter))
                st, res = w0.call(lambda: other.acquire(timeout=0.5))
                if st != 'ok' or res is not True:
                    problems.append('after a foreign no-op release() during a poll nobody can acquire the lock any '
                                    'more: %s %r' % (st, res))
        finally:
            FL.time = real_time
            go.set()
            for o in (other, lk):
                try:
                    o.release(force=True)
                except Exception:
                    pass
            w0.stop()
            w1.stop()
        if problems:
            break
    return problems


def abandoned_holder_and_descriptor_reuse(tmpdir):
    """C02/C13: (a) a holder object that is garbage-collected while holding gives the lock back and leaves the lock
    FILE alone (removing it would let a waiter lock the orphaned inode while newcomers lock a new file of that
    name); (b) while A releases, B acquires as early as it can: whatever A does afterwards must not touch B's lock
    (a descriptor number used after close() may by then be B's)."""
    import gc
    problems = []
    path = os.path.join(tmpdir, 'abandon')
    h = FL.FileLock(path)
    h.acquire()
    ino = os.stat(path).st_ino
    del h
    gc.collect()
    if not os.path.exists(path) or os.stat(path).st_ino != ino:
        problems.append('a holder that was garbage-collected while holding removed / replaced the lock file')
    o = FL.FileLock(path)
    if not o.acquire(timeout=0.5):
        problems.append('after a holder was garbage-collected while holding nobody can acquire the lock')
    else:
        o.release()
    if problems:
        return problems
    path2 = os.path.join(tmpdir, 'reuse')
    a, b, c = FL.FileLock(path2), FL.FileLock(path2), FL.FileLock(path2)
    a.acquire()
    real_unlock, real_close = a._unlock, FL.os.close
    state = {'b': False, 'in_release': False}

    def try_b():
        if state['in_release'] and not state['b']:
            state['b'] = bool(b.acquire(blocking=False))

    def unlock(fd):
        try_b()                      # B tries right before A's unlock ...
        return real_unlock(fd)

    class OSProxy:
        def __getattr__(s_, n):
            return getattr(real_os, n)

        def close(s_, fd):
            r = real_close(fd)
            try_b()                  # ... and right after A's close
            return r
    real_os = FL.os
    a._unlock = unlock
    FL.os = OSProxy()
    try:
        state['in_release'] = True
        a.release()
        state['in_release'] = False
    finally:
        FL.os = real_os
    if state['b']:
        if not b.is_locked:
            problems.append('B acquired during A\'s release but does not report is_locked')
        if c.acquire(blocking=False):
            problems.append('B acquired the lock while A was releasing it; once A\'s release() had finished a third '
                            'object could acquire the same lock file while B was still inside (A\'s late unlock hit a '
                            'descriptor number that had become B\'s)')
            c.release()
        b.release()
    for o_ in (a, b, c):
        try:
            o_.release(force=True)
        except Exception:
            pass
    return problems


def gen_sequences(maxlen, rng, budget):
    moves = [(t, o, op) for t in range(2) for o in range(2) for op in OPS]
    seen = 0
    for seq in DIRECTED:
        yield list(seq)
    if maxlen <= 3:
        for n in range(1, maxlen + 1):
            for seq in itertools.product(moves, repeat=n):
                yield list(seq)
        return
    while seen < budget:
        n = rng.randint(1, maxlen)
        yield [rng.choice(moves) for _ in range(n)]
        seen += 1


def main():
    ap = argparse.ArgumentParser()
    ap.add_argument('--quick', action='store_true')
    ap.add_argument('--thorough', action='store_true')
    ap.add_argument('--replay')
    a = ap.parse_args()
    rng = random.Random(int(os.environ.get('VERIF_SEED', '0') or 0))
    tmpdir = tempfile.mkdtemp(prefix='flops_')
    runs = 0
    bad = []
    t0 = time.time()
    try:
        if a.replay:
            case = json.load(open(a.replay))
            pr = run_sequence([tuple(x) for x in case['seq']], case['reentrant'],
                              {tuple(k.split('#')[:1]) + (int(k.split('#')[1]),): True for k in case['faults']},
                              tmpdir)
            print('\n'.join(pr) or 'OK')
            return 1 if pr else 0
        pr = interrupted_wait(tmpdir) or release_while_another_thread_polls(tmpdir) or \
            abandoned_holder_and_descriptor_reuse(tmpdir)
        runs += 6
        if pr:
            print('filelock_ops: directed scenarios')
            for x in pr:
                print('PROBLEM:', x)
            return 1
        budget = 250 if not a.thorough else 4000
        maxlen = 5 if not a.thorough else 7
        limit_s = 40 if not a.thorough else 600
        kinds = ['open', 'lock', 'unlock', 'close']
        for seq in gen_sequences(maxlen, rng, budget):
            for reentrant in ((False, False), (True, True), (True, False)):
                plans = [{}]
                # single and double injections at small call indices
                k1 = rng.choice(kinds)
                n1 = rng.randint(1, 3)
                plans.append({(k1, n1): True})
                k2 = rng.choice(kinds)
                plans.append({(k1, n1): True, (k2, rng.randint(1, 3)): True})
                for plan in plans:
                    runs += 1
                    pr = run_sequence(seq, reentrant, plan, tmpdir)
                    if pr:
                        bad.append(dict(seq=seq, reentrant=reentrant,
                                        faults=['%s#%d' % k for k in plan], problems=pr))
                        break
                if bad:
                    break
            if bad or time.time() - t0 > limit_s:
                break
    finally:
        import shutil
        shutil.rmtree(tmpdir, ignore_errors=True)
    print('filelock_ops: %d runs (bounded: len<=%d, 2 objects x 2 threads, <=2 faults), %.1fs'
          % (runs, 5 if not a.thorough else 7, time.time() - t0))
    if bad:
        print(json.dumps(bad[0], indent=1, default=str))
        return 1
    return 0


if __name__ == '__main__':
    try:
        rc = main()
    except Exception:
        import traceback
        traceback.print_exc()
        rc = 3
    sys.exit(rc)
