"""
Stub conformance: every fact the stub contracts (pyvc/stubs.py, pyvc/aio.py, contract-local stubs) ASSUME about
CPython / the kernel is exercised here against the real thing under /venv/bin/python (3.12.1).
A failure means a stub describes the platform wrongly: checker error (exit 3), never a property violation.
"""
import asyncio as aio
import collections
import fcntl
import itertools
import operator
import os
import queue
import sys
import tempfile
import threading
from concurrent.futures import ThreadPoolExecutor

FAILS = []


def fact(name, ok, detail=''):
    if not ok:
        FAILS.append('%s %s' % (name, detail))


def run(coro):
    loop = aio.new_event_loop()
    try:
        return loop.run_until_complete(coro)
    finally:
        loop.close()


def threading_facts():
    lk = threading.Lock()
    fact('Lock.acquire(False) on free lock succeeds', lk.acquire(False))
    fact('Lock is not reentrant', lk.acquire(False) is False)
    try:
        lk.acquire(False, 1)
        fact('Lock.acquire(False, timeout) raises ValueError', False)
    except ValueError:
        pass
    try:
        threading.Lock().acquire(True, -5)
        fact('Lock.acquire(True, -5) raises ValueError', False)
    except ValueError:
        pass
    fact('timed acquire on held lock returns False', lk.acquire(True, 0.01) is False)
    lk.release()
    try:
        lk.release()
        fact('release of unlocked Lock raises RuntimeError', False)
    except RuntimeError:
        pass
    rl = threading.RLock()
    fact('RLock reenters', rl.acquire() and rl.acquire(False))
    rl.release()
    rl.release()
    try:
        rl.release()
        fact('release of unowned RLock raises RuntimeError', False)
    except RuntimeError:
        pass
    got = []
    rl.acquire()
    t = threading.Thread(target=lambda: got.append(rl.acquire(timeout=0.01)))
    t.start()
    t.join()
    fact('RLock excludes other threads', got == [False])
    rl.release()


def kernel_facts():
    d = tempfile.mkdtemp()
    p = os.path.join(d, 'f')
    a = os.open(p, os.O_RDWR | os.O_CREAT | os.O_TRUNC)
    b = os.open(p, os.O_RDWR | os.O_CREAT | os.O_TRUNC)
    fact('os.open returns distinct descriptors', a != b)
    fact('descriptors are close-on-exec by default (PEP 446)', not os.get_inheritable(a))
    fcntl.flock(a, fcntl.LOCK_EX | fcntl.LOCK_NB)
    try:
        fcntl.flock(b, fcntl.LOCK_EX | fcntl.LOCK_NB)
        fact('flock LOCK_EX excludes another open file description of the same file', False)
    except OSError:
        pass
    fcntl.flock(a, fcntl.LOCK_EX | fcntl.LOCK_NB)      # re-locking through the same OFD is fine
    os.close(a)
    try:
        fcntl.flock(b, fcntl.LOCK_EX | fcntl.LOCK_NB)
    except OSError:
        fact('closing the descriptor drops its flock', False)
    fcntl.flock(b, fcntl.LOCK_UN)
    c = os.open(p, os.O_RDWR)
    try:
        fcntl.flock(c, fcntl.LOCK_EX | fcntl.LOCK_NB)
    except OSError:
        fact('LOCK_UN drops the flock', False)
    os.close(b)
    os.close(c)
    fact('LOCK constants as read by the stubs', (fcntl.LOCK_EX & fcntl.LOCK_SH) == 0 and fcntl.LOCK_NB != 0)


def str_and_iter_facts():
    fact("split(sep,1) no occurrence", 'abc'.split('=', 1) == ['abc'])
    fact("split(sep,1) first occurrence", 'a=b=c'.split('=', 1) == ['a', 'b=c'])
    fact("split(sep,1) two-char sep", 'a::b::c'.split('::', 1) == ['a', 'b::c'])
    fact("split(sep) all pieces", 'a=b=c'.split('=') == ['a', 'b', 'c'])
    fact("rsplit(sep,1) last occurrence", 'a=b=c'.rsplit('=', 1) == ['a=b', 'c'])
    fact("partition", 'a=b=c'.partition('=') == ('a', '=', 'b=c') and 'abc'.partition('=') == ('abc', '', ''))
    fact("find", 'a=b'.find('=') == 1 and 'ab'.find('=') == -1)
    try:
        'a'.split('', 1)
        fact('empty separator raises ValueError', False)
    except ValueError:
        pass
    fact('slicing clamps', 'abc'[:-1] == 'ab' and 'abc'[5:] == '' and 'abc'[-9:2] == 'ab')
    fact('dict(map(..)) last pair wins, order kept', dict(map(lambda x: x, [('a', 1), ('b', 2), ('a', 3)])) == {'a': 3, 'b': 2})
    pulled = []

    def src():
        for i in range(4):
            pulled.append(i)
            yield i
    a, b = itertools.tee(src())
    fact('tee is lazy', pulled == [])
    fact('tee duplicates', [next(a), next(a), next(b)] == [0, 1, 0] and pulled == [0, 1])
    m = map(pulled.append, [9])
    fact('map is lazy', 9 not in pulled)
    list(m)
    fact('compress semantics', list(itertools.compress('abcd', [1, 0, 'x', None])) == ['a', 'c'])
    fact('compress stops at the shorter', list(itertools.compress('abcd', [1, 1])) == ['a', 'b'])
    fact('operator.not_', operator.not_('') is True and operator.not_(3) is False)
    seen = []
    collections.deque(map(seen.append, range(3)), maxlen=0)
    fact('deque(maxlen=0) consumes everything', seen == [0, 1, 2])
    q = queue.Queue()
    for i in range(3):
        q.put_nowait(i)
    fact('queue.Queue FIFO', [q.get(), q.get(), q.get()] == [0, 1, 2])


def asyncio_facts():
    async def gather_order():
        async def a():
            await aio.sleep(0.02)
            return 'a'

        async def b():
            raise KeyError('b')
        r = await aio.gather(a(), b(), return_exceptions=True)
        return r[0] == 'a' and isinstance(r[1], KeyError)
    fact('gather(return_exceptions=True): input order, nothing cancelled', run(gather_order()))

    async def extend_partial():
        q = aio.Queue()
        for i in range(3):
            q.put_nowait(i)
        lst = ['first']
        try:
            lst.extend(itertools.islice(iter(q.get_nowait, object()), 5))
            return False
        except aio.QueueEmpty:
            pass
        q2 = aio.Queue()
        for i in range(6):
            q2.put_nowait(i)
        l2 = []
        l2.extend(itertools.islice(iter(q2.get_nowait, object()), 4))
        return lst == ['first', 0, 1, 2] and l2 == [0, 1, 2, 3] and q2.qsize() == 2
    fact('list.extend(islice(iter(get_nowait, sentinel), n)) keeps what it appended', run(extend_partial()))

    async def cancel_facts():
        loop = aio.get_running_loop()
        f = loop.create_future()

        async def waiter(x):
            return await x
        t = aio.ensure_future(waiter(f))
        await aio.sleep(0)
        t.cancel()
        try:
            await t
        except aio.CancelledError:
            pass
        bare_cancels = f.cancelled()
        f2 = loop.create_future()
        t2 = aio.ensure_future(waiter(aio.shield(f2)))
        await aio.sleep(0)
        t2.cancel()
        try:
            await t2
        except aio.CancelledError:
            pass
        shield_protects = not f2.done()
        try:
            f.set_result(1)
            ise = False
        except aio.InvalidStateError:
            ise = True
        f2.set_result(5)
        return bare_cancels and shield_protects and ise
    fact('await of a bare future propagates cancellation; shield does not; set_result on cancelled raises', run(cancel_facts()))

    async def cancelling_counter():
        t = aio.current_task()
        before = t.cancelling()
        t.cancel()
        try:
            await aio.sleep(0)
            return False
        except aio.CancelledError:
            during = t.cancelling()
            t.uncancel()
            return before == 0 and during == 1
    fact('Task.cancelling() counts pending cancellation requests', run(cancelling_counter()))

    async def inner_cancel_is_no_request():
        loop = aio.get_running_loop()
        f = loop.create_future()
        t = aio.ensure_future(aio.wait_for(f, 60))
        await aio.sleep(0)
        f.cancel()
        try:
            await t
        except aio.CancelledError:
            pass
        return t.cancelled() and t.cancelling() == 0
    fact('a task cancelled through the future it awaits has cancelling() == 0', run(inner_cancel_is_no_request()))

    async def wait_for_get():
        q = aio.Queue()
        try:
            await aio.wait_for(q.get(), 0.01)
            return False
        except aio.TimeoutError:
            pass
        q.put_nowait('x')
        return await aio.wait_for(q.get(), 1) == 'x' and issubclass(aio.TimeoutError, TimeoutError)
    fact('wait_for(q.get(), T): item or TimeoutError; asyncio.TimeoutError is TimeoutError', run(wait_for_get()))

    async def sem():
        s = aio.Semaphore(1)
        inside = []

        async def w(i):
            async with s:
                inside.append(i)
                m = len(inside)
                await aio.sleep(0.01)
                inside.remove(i)
                return m
        return max(await aio.gather(w(1), w(2), w(3))) == 1
    fact('Semaphore(n) admits at most n holders', run(sem()))

    loop = aio.new_event_loop()
    order = []
    done = threading.Event()

    async def coro():
        order.append('coro')
        done.set()

    def thread():
        for i in range(3):
            loop.call_soon_threadsafe(order.append, i)
        aio.run_coroutine_threadsafe(coro(), loop)
    t = threading.Thread(target=loop.run_forever)
    t.start()
    threading.Thread(target=thread).start()
    done.wait(5)
    loop.call_soon_threadsafe(loop.stop)
    t.join()
    fact('per-thread FIFO of call_soon_threadsafe then run_coroutine_threadsafe', order == [0, 1, 2, 'coro'], str(order))
    fact('is_running false when stopped', not loop.is_running())
    loop.close()
    try:
        c = coro()
        aio.run_coroutine_threadsafe(c, loop)
        fact('run_coroutine_threadsafe on closed loop raises RuntimeError', False)
    except RuntimeError:
        c.close()
    with ThreadPoolExecutor(1) as pool:
        fut = pool.submit(lambda: 1 / 0)
        try:
            fut.result()
            fact('executor future carries the exception', False)
        except ZeroDivisionError:
            pass
        th = [x for x in threading.enumerate() if x.name.startswith('ThreadPoolExecutor')]
    alive = [x for x in th if x.is_alive()]
    fact('ThreadPoolExecutor.__exit__ joins its workers', not alive)


def platform_facts():
    import aiuti.filelock as FL
    fact('FileLock is UnixFileLock on this platform', FL.FileLock is FL.UnixFileLock)
    fact('module sees fcntl and no msvcrt', FL.fcntl is not None and FL.msvcrt is None)
    fact('CancelledError is BaseException-only', not issubclass(aio.CancelledError, Exception))
    fact('python version', sys.version_info[:2] == (3, 12), str(sys.version_info))


def main():
    for f in (threading_facts, kernel_facts, str_and_iter_facts, asyncio_facts, platform_facts):
        try:
            f()
        except Exception as e:  # noqa
            FAILS.append('%s crashed: %r' % (f.__name__, e))
    print('stub conformance against CPython %s: %d facts groups, %d failures' % (sys.version.split()[0], 5, len(FAILS)))
    for x in FAILS:
        print('  CONFORMANCE FAILURE:', x)
    return 3 if FAILS else 0


if __name__ == '__main__':
    sys.exit(main())
