"""usage: /venv/bin/python -m scenarios.aio_props <Cxx> [--quick|--thorough]
Bounded stand-ins / replays on the real asyncio code (virtual time). exit 0 ok / 1 violation / 3 error."""
import importlib
import logging
import sys

logging.disable(logging.CRITICAL)

if __name__ == '__main__':
    try:
        m = importlib.import_module('scenarios.props.' + sys.argv[1].lower())
        rc = m.main('--thorough' in sys.argv)
    except Exception:
        import traceback
        traceback.print_exc()
        rc = 3
    sys.exit(rc)
