"""usage: /venv/bin/python -m scenarios.aio_props <Cxx> [--quick|--thorough]
Bounded stand-ins / replays on the real asyncio code (virtual time). exit 0 ok / 1 violation / 3 error.
The property module runs in a child process under a wall-clock limit: a run that does not terminate (busy loop or
hang in the code under test -- every stand-in finishes in well under a minute on the unchanged tree) is reported
as a violation, not left to hang the check."""
import importlib
import logging
import multiprocessing as mp
import os
import sys

logging.disable(logging.CRITICAL)


def _child(name, thorough):
    sys.unraisablehook = lambda *a: None      # loops finalised twice at interpreter shutdown: stderr noise only
    try:
        from scenarios.props import directed
        pr = directed.run(name)
        if pr:
            print('aio_props %s: directed scenarios' % name.upper())
            for x in pr[:5]:
                print('PROBLEM:', x)
            sys.stdout.flush()
            os._exit(1)
        m = importlib.import_module('scenarios.props.' + name)
        rc = m.main(thorough)
    except SystemExit as e:
        rc = e.code if isinstance(e.code, int) else 3
    except BaseException as e:
        import traceback
        traceback.print_exc()
        rc = 3
        msgs = []
        x = e
        while x is not None:
            msgs.append('%s: %s' % (type(x).__name__, x))
            x = x.__context__ or x.__cause__
        stuck = [m for m in msgs if m.startswith('HarnessError') and
                 ('did not report back within' in m or 'loop threads did not terminate' in m)]
        if stuck:
            # a loop thread that runs the code under test never came back to the scheduler of the harness: the call
            # it runs spins or blocks (same verdict as the wall-clock watchdog below, reached earlier)
            print('PROBLEM: a call in the code under test never completes or spins: %s' % stuck[-1][:600])
            rc = 1
    sys.stdout.flush()
    sys.stderr.flush()
    os._exit(rc if isinstance(rc, int) else 3)


if __name__ == '__main__':
    name = sys.argv[1].lower()
    thorough = '--thorough' in sys.argv
    limit = int(os.environ.get('STANDIN_LIMIT_S', '3000' if thorough else '420'))
    p = mp.get_context('fork').Process(target=_child, args=(name, thorough))
    p.start()
    p.join(limit)
    if p.is_alive():
        p.kill()
        p.join(10)
        print('PROBLEM: the scenario run for %s did not terminate within %d s of wall-clock time: a call in the code '
              'under test never completes or spins (all scenarios of this stand-in finish in well under a minute on '
              'the unchanged tree)' % (sys.argv[1], limit))
        sys.exit(1)
    sys.exit(p.exitcode if p.exitcode is not None else 3)
