"""
Bounded stand-in / replay for C02 (exclusion across objects, threads, processes) and C13 (a killed
holder never leaves the lock stuck), on the REAL aiuti.filelock under /venv/bin/python.

BOUNDED: P processes x R rounds of acquire / critical section (O_EXCL marker) / release; children
SIGKILLed at a set of instants while acquiring / holding / releasing.  Never counted as proof.
exit 0 ok / 1 violation / 3 harness error.
"""
import argparse
import logging
import multiprocessing as mp
import os
import signal
import sys
import tempfile
import threading
import time

logging.disable(logging.CRITICAL)
import aiuti.filelock as FL  # noqa: E402


def contender(path, marker, rounds, how, out):
    bad = 0
    lk = FL.FileLock(path, reentrant=(how == 'reentrant'))
    for r in range(rounds):
        if how == 'ctx':
            cm = lk.acquire_ctx(timeout=20)
        elif how == 'with':
            lk.timeout = 20
            cm = lk
        else:
            cm = None
        try:
            if cm is None:
                if not lk.acquire(timeout=20):
                    continue
            else:
                cm.__enter__()
        except TimeoutError:
            continue
        try:
            try:
                fd = os.open(marker, os.O_CREAT | os.O_EXCL | os.O_WRONLY)
            except FileExistsError:
                bad += 1
            else:
                time.sleep(0.001)
                os.close(fd)
                os.unlink(marker)
        finally:
            if cm is None:
                lk.release()
            else:
                cm.__exit__(None, None, None)
    out.put(bad)


def exclusion(nproc, rounds, tmp):
    path = os.path.join(tmp, 'lock')
    marker = os.path.join(tmp, 'marker')
    ctx = mp.get_context('fork')
    out = ctx.Queue()
    hows = ['plain', 'ctx', 'with', 'reentrant']
    ps = [ctx.Process(target=contender, args=(path, marker, rounds, hows[i % 4], out)) for i in range(nproc)]
    [p.start() for p in ps]
    # threads sharing objects inside this process too
    tq = mp.get_context('fork').Queue()
    ths = [threading.Thread(target=contender, args=(path, marker, rounds, hows[i % 4], out)) for i in range(2)]
    [t.start() for t in ths]
    [p.join(120) for p in ps]
    [t.join(120) for t in ths]
    bad = 0
    for _ in range(nproc + 2):
        bad += out.get(timeout=30)
    return ['%d overlapping critical sections among %d processes + 2 threads' % (bad, nproc)] if bad else []


def victim(path, stage, ready):
    lk = FL.FileLock(path, reentrant=True)
    if stage == 'holding':
        lk.acquire()
        ready.set()
        time.sleep(60)
    elif stage == 'nested':
        lk.acquire()
        lk.acquire()
        ready.set()
        time.sleep(60)
    elif stage == 'acquiring':
        ready.set()
        while True:
            lk.acquire()
            lk.release()
    elif stage == 'trace':
        # stop at a chosen line event inside filelock.py and wait to be killed
        import sys as _s
        n = [0]

        def tr(frame, ev, arg):
            if frame.f_code.co_filename.endswith('filelock.py'):
                if ev == 'line':
                    n[0] += 1
                    if n[0] == victim.k:
                        ready.set()
                        time.sleep(60)
                return tr
            return None
        _s.settrace(tr)
        lk.acquire(timeout=5)
        lk.acquire(timeout=5)
        lk.release()
        lk.release()
        _s.settrace(None)
        ready.set()
        time.sleep(60)


def exec_holder(path, ready_fd):
    # a daemon-like holder: stdin closed, acquires, starts a long-lived child by plain fork+exec, reports
    os.close(0)
    lk = FL.FileLock(path)
    lk.acquire()
    pid = os.spawnlp(os.P_NOWAIT, 'sleep', 'sleep', '30')
    os.write(ready_fd, str(pid).encode())
    time.sleep(60)


def crash_with_execd_child(tmp):
    """C13: the holder dies while an unrelated child it exec'd lives on: the lock must not survive in the child
    (descriptors must be close-on-exec)."""
    path = os.path.join(tmp, 'lock3')
    r, w = os.pipe()
    os.set_inheritable(w, True)
    ctx = mp.get_context('fork')
    p = ctx.Process(target=exec_holder, args=(path, w))
    p.start()
    os.close(w)
    import select
    rl, _, _ = select.select([r], [], [], 20)
    if not rl:
        p.kill()
        return []
    child = int(os.read(r, 32).decode() or 0)
    os.close(r)
    os.kill(p.pid, signal.SIGKILL)
    p.join(10)
    a = FL.FileLock(path)
    got = a.acquire(timeout=3)
    out = []
    if not got:
        out.append('holder SIGKILLed while a child it had exec\'d (sleep) lives on: lock stuck, acquire(timeout=3) failed '
                   '(the lock descriptor was inherited across exec)')
    else:
        a.release()
    try:
        os.kill(child, signal.SIGKILL)
        os.waitpid(child, os.WNOHANG)
    except Exception:
        pass
    return out


def crash(tmp, ks):
    problems = []
    ctx = mp.get_context('fork')
    path = os.path.join(tmp, 'lock2')
    cases = [('holding', 0), ('nested', 0), ('acquiring', 0)] + [('trace', k) for k in ks]
    for stage, k in cases:
        ready = ctx.Event()
        victim.k = k
        p = ctx.Process(target=victim, args=(path, stage, ready))
        p.start()
        if not ready.wait(20):
            p.kill()
            continue
        if stage == 'acquiring':
            time.sleep(0.05)
        os.kill(p.pid, signal.SIGKILL)
        p.join(10)
        t0 = time.time()
        a, b = FL.FileLock(path), FL.FileLock(path)
        got = a.acquire(timeout=3)
        dt = time.time() - t0
        if not got:
            problems.append('after SIGKILL of a holder at %s/%d the lock is stuck (acquire(timeout=3) failed)' % (stage, k))
        else:
            if dt > 1.5:
                problems.append('acquire after SIGKILL at %s/%d took %.1fs' % (stage, k, dt))
            if b.acquire(blocking=False):
                problems.append('exclusion lost among survivors after SIGKILL at %s/%d' % (stage, k))
                b.release()
            a.release()
        if problems:
            break
    return problems


def main():
    ap = argparse.ArgumentParser()
    ap.add_argument('--quick', action='store_true')
    ap.add_argument('--thorough', action='store_true')
    a = ap.parse_args()
    tmp = tempfile.mkdtemp(prefix='flprocs_')
    t0 = time.time()
    try:
        nproc, rounds = (6, 25) if not a.thorough else (16, 60)
        ks = range(1, 60, 7) if not a.thorough else range(1, 80)
        pr = exclusion(nproc, rounds, tmp)
        if not pr:
            pr = crash(tmp, ks)
        if not pr:
            pr = crash_with_execd_child(tmp)
    finally:
        import shutil
        shutil.rmtree(tmp, ignore_errors=True)
    print('filelock_procs: %d processes x %d rounds + kill points %s, %.1fs (bounded)'
          % (nproc, rounds, len(list(ks)), time.time() - t0))
    for p in pr:
        print('PROBLEM:', p)
    return 1 if pr else 0


if __name__ == '__main__':
    try:
        rc = main()
    except Exception:
        import traceback
        traceback.print_exc()
        rc = 3
    sys.exit(rc)
