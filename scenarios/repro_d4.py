"""
Reproducer D4: cancelling BufferAsyncCalls' background task (``_waiting``),
as ``asyncio.run``'s cancel-all-tasks does at shutdown, must terminate it.

Three states at the time of ``buf._waiting.cancel()``:
  (a) idle        - nothing submitted, daemon awaiting ``q.get()``
  (b) collecting  - one item submitted, daemon awaiting ``self._getting``
  (c) running     - wrapped function is awaiting a long sleep

Deterministic: runs on the virtual-time loop (vt_helper).  Every wait is
bounded in virtual seconds, so the script cannot hang.
Exit 0 if the task ended in all states, 1 otherwise.
"""
import asyncio
import logging
import sys

from scenarios import vt as vt_helper
from aiuti.asyncio import BufferAsyncCalls

logging.disable(logging.CRITICAL)  # the buggy code logs the swallowed cancel

TIMEOUT = 1.0       # buffer timeout
BOUND = 50.0        # virtual seconds granted to the task to finish
LONG = 1000.0       # duration of the wrapped function in state (c)


def scenario(state):
    loop = vt_helper.new_loop()
    asyncio.set_event_loop(loop)
    calls = []

    async def func(inputs):
        calls.append(set(inputs))
        if state == 'running':
            await asyncio.sleep(LONG)

    try:
        buf = BufferAsyncCalls(func, timeout=TIMEOUT)
        task = buf._waiting

        async def drive():
            await asyncio.sleep(0)  # let the daemon start
            if state != 'idle':
                buf(1)
                # collecting: well inside the timeout; running: past it
                await asyncio.sleep(TIMEOUT / 2 if state == 'collecting'
                                    else TIMEOUT * 2)
            if state == 'collecting':
                assert buf._getting is not None and not buf._getting.done()
                assert not calls
            if state == 'running':
                assert calls == [{1}], calls
            assert not task.done()
            task.cancel()
            # bounded: give the task BOUND virtual seconds to terminate
            await asyncio.wait([task], timeout=BOUND)

        loop.run_until_complete(drive())
        ok = task.done() and task.cancelled()
        print(f"  state={state:<10} done={task.done()} "
              f"cancelled={task.done() and task.cancelled()} "
              f"func_calls={len(calls)} vt={loop.time():.1f}"
              f" -> {'ok' if ok else 'STILL PENDING (cancellation swallowed)'}")
        return ok
    finally:
        # bounded cleanup (the buggy code needs several cancel rounds)
        for _ in range(20):
            pending = asyncio.all_tasks(loop)
            if not pending:
                break
            for t in pending:
                t.cancel()
            for _ in range(5):
                loop.run_until_complete(asyncio.sleep(0))
        asyncio.set_event_loop(None)
        loop.close()


def main():
    results = {s: scenario(s) for s in ('idle', 'collecting', 'running')}
    bad = [s for s, ok in results.items() if not ok]
    if bad:
        print(f"FAIL: background task still pending after cancel() in: {bad}")
        return 1
    print("PASS: cancel() terminates the background task in every state")
    return 0


if __name__ == '__main__':
    sys.exit(main())
