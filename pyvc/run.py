"""Task runner: one process per function under contract."""
import importlib
import multiprocessing as mp
import os
import sys
import time
import traceback

ROOT = os.path.dirname(os.path.dirname(os.path.abspath(__file__)))
REPO = os.environ.get('PYVC_REPO', '/repo')
MODULES = {
    'aiuti.asyncio': 'aiuti/asyncio.py',
    'aiuti.filelock': 'aiuti/filelock.py',
    'aiuti.itertools': 'aiuti/itertools.py',
    'aiuti.parsing': 'aiuti/parsing.py',
}
CONTRACT_MODULES = ['contracts.filelock', 'contracts.pure', 'contracts.gather', 'contracts.decorators', 'contracts.cache', 'contracts.batcher', 'contracts.buffer', 'contracts.bridges']


def load_modules():
    from .engine import ModuleInfo
    out = {}
    for name, rel in MODULES.items():
        out[name] = ModuleInfo(name, os.path.join(REPO, rel))
    return out


def all_tasks():
    if ROOT not in sys.path:
        sys.path.insert(0, ROOT)
    tasks = {}
    for m in CONTRACT_MODULES:
        try:
            mod = importlib.import_module(m)
        except ModuleNotFoundError as e:
            if e.name == m:
                continue
            raise
        for k, (fn, props) in mod.TASKS.items():
            tasks[k] = (m, fn, props)
    return tasks


def run_task(name):
    """Executed in a worker process: returns the FunctionReport as a dict."""
    from .engine import Engine, FunctionReport
    t0 = time.time()
    rep = FunctionReport(name)
    try:
        tasks = all_tasks()
        m, fn, props = tasks[name]
        E = Engine(load_modules())
        E.report = rep
        fn(E)
        rep.source = {mi.path: mi.sha256 for mi in E.modules.values()}
    except Exception:
        rep.errors.append(traceback.format_exc())
    d = rep.as_dict()
    d['wall_s'] = round(time.time() - t0, 3)
    return d


def _child(name, conn):
    try:
        conn.send(run_task(name))
    finally:
        conn.close()


TASK_TIMEOUT_S = int(os.environ.get('PYVC_TASK_TIMEOUT_S', '600'))


def run_tasks(names, procs=16):
    """One process per task, at most `procs` at a time, each under a hard wall-clock limit: a task
    that does not finish is reported as undecided (never as a violation)."""
    if os.environ.get('PYVC_SERIAL'):
        return [run_task(n) for n in names]
    from .engine import FunctionReport
    ctx = mp.get_context('fork')
    pending = list(names)
    running = {}
    results = {}
    while pending or running:
        while pending and len(running) < procs:
            n = pending.pop(0)
            a, b = ctx.Pipe(duplex=False)
            p = ctx.Process(target=_child, args=(n, b))
            p.start()
            b.close()
            running[n] = (p, a, time.time())
        for n, (p, a, t0) in list(running.items()):
            if a.poll(0.02):
                try:
                    results[n] = a.recv()
                except EOFError:
                    rep = FunctionReport(n)
                    rep.errors.append('worker died without a result')
                    results[n] = dict(rep.as_dict(), wall_s=round(time.time() - t0, 1))
                p.join(5)
                del running[n]
            elif not p.is_alive():
                rep = FunctionReport(n)
                rep.errors.append('worker exited with code %s and no result' % p.exitcode)
                results[n] = dict(rep.as_dict(), wall_s=round(time.time() - t0, 1))
                del running[n]
            elif time.time() - t0 > TASK_TIMEOUT_S:
                p.kill()
                p.join(5)
                rep = FunctionReport(n)
                rep.unsupported.append(('task exceeded its %ds wall-clock limit (solver did not return)'
                                        % TASK_TIMEOUT_S, 0))
                results[n] = dict(rep.as_dict(), wall_s=round(time.time() - t0, 1))
                del running[n]
    return [results[n] for n in names]
