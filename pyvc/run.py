"""Task runner: one process per function under contract."""
import importlib
import multiprocessing as mp
import os
import sys
import time
import traceback

ROOT = os.path.dirname(os.path.dirname(os.path.abspath(__file__)))
REPO = os.environ.get('PYVC_REPO', '/repo')
MODULES = {
    'aiuti.asyncio': 'aiuti/asyncio.py',
    'aiuti.filelock': 'aiuti/filelock.py',
    'aiuti.itertools': 'aiuti/itertools.py',
    'aiuti.parsing': 'aiuti/parsing.py',
}
CONTRACT_MODULES = ['contracts.filelock']


def load_modules():
    from .engine import ModuleInfo
    out = {}
    for name, rel in MODULES.items():
        out[name] = ModuleInfo(name, os.path.join(REPO, rel))
    return out


def all_tasks():
    if ROOT not in sys.path:
        sys.path.insert(0, ROOT)
    tasks = {}
    for m in CONTRACT_MODULES:
        try:
            mod = importlib.import_module(m)
        except ModuleNotFoundError as e:
            if e.name == m:
                continue
            raise
        for k, (fn, props) in mod.TASKS.items():
            tasks[k] = (m, fn, props)
    return tasks


def run_task(name):
    """Executed in a worker process: returns the FunctionReport as a dict."""
    from .engine import Engine, FunctionReport
    t0 = time.time()
    rep = FunctionReport(name)
    try:
        tasks = all_tasks()
        m, fn, props = tasks[name]
        E = Engine(load_modules())
        E.report = rep
        fn(E)
        rep.source = {mi.path: mi.sha256 for mi in E.modules.values()}
    except Exception:
        rep.errors.append(traceback.format_exc())
    d = rep.as_dict()
    d['wall_s'] = round(time.time() - t0, 3)
    return d


def run_tasks(names, procs=None):
    procs = procs or min(16, max(1, len(names)))
    if len(names) == 1 or os.environ.get('PYVC_SERIAL'):
        return [run_task(n) for n in names]
    ctx = mp.get_context('fork')
    with ctx.Pool(procs) as pool:
        return pool.map(run_task, names, chunksize=1)
