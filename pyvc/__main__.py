"""
python3-vt -m pyvc check <Cxx> [--tier quick|thorough]
python3-vt -m pyvc task <task-name>            (debug)

Exit codes: 0 held (incl. only KNOWN-FINDING lines) / 1 violation / 2 undecided, no stand-in /
            3 checker failure (traceback, vacuity, contradictory assumptions).
"""
import argparse
import hashlib
import json
import os
import subprocess
import sys
import time

from . import run as R

ROOT = R.ROOT
EVID = os.environ.get('PYVC_EVIDENCE_DIR') or os.path.join(ROOT, 'evidence')
REPLAYS = os.environ.get('PYVC_REPLAY_DIR') or os.path.join(ROOT, 'replays')
VENV_PY = '/venv/bin/python'


def load_known():
    out = {'finding': [], 'fixed': []}
    fn = os.path.join(ROOT, 'known_findings.txt')
    if os.path.exists(fn):
        for ln in open(fn):
            ln = ln.strip()
            if not ln or ln.startswith('#'):
                continue
            kind, _, rest = ln.partition(':')
            kind = kind.strip()
            if kind in out:
                d = {'text': rest.strip()}
                for tok in rest.split():
                    if '=' in tok:
                        k, v = tok.split('=', 1)
                        d[k] = v
                out[kind].append(d)
    return out


def registry():
    sys.path.insert(0, ROOT)
    import contracts.registry as reg
    return reg


def run_cmd(cmd, timeout):
    t0 = time.time()
    try:
        p = subprocess.run(cmd, shell=True, cwd=ROOT, capture_output=True, text=True, timeout=timeout,
                           env=dict(os.environ, PYTHONPATH=R.REPO + os.pathsep + ROOT))
        return p.returncode, (p.stdout + p.stderr)[-6000:], time.time() - t0
    except subprocess.TimeoutExpired as e:
        return 124, 'TIMEOUT after %ss\n%s' % (timeout, (e.stdout or b'')[-2000:] if e.stdout else ''), time.time() - t0


def write_replay(prop, ob_name, payload):
    os.makedirs(REPLAYS, exist_ok=True)
    h = hashlib.sha256(ob_name.encode()).hexdigest()[:10]
    fn = os.path.join(REPLAYS, '%s_%s.json' % (prop, h))
    with open(fn, 'w') as f:
        json.dump(payload, f, indent=1, default=str)
    return fn


def check(prop, tier, seed):
    t0 = time.time()
    reg = registry()
    info = reg.PROPERTIES.get(prop)
    if info is None:
        print('property %s has no check' % prop)
        return 3
    tasks = R.all_tasks()
    names = [n for n, (m, fn, props) in tasks.items() if prop in props]
    conformance = None
    if tier == 'thorough':
        os.environ['PYVC_SECOND_OPINION'] = os.environ.get('PYVC_SECOND_OPINION', '150')
        rc_c, out_c, dt_c = run_cmd('%s -m scenarios.conformance' % VENV_PY, 300)
        conformance = dict(rc=rc_c, wall_s=round(dt_c, 1), tail=out_c[-400:])
    reports = R.run_tasks(names) if names else []
    known = load_known()

    crashed = [r for r in reports if r['errors']]
    obligations = []
    for r in reports:
        for o in r['obligations']:
            if not o['props'] or prop in o['props']:
                o = dict(o, task=r['name'])
                obligations.append(o)
    by_name = {}
    for o in obligations:
        by_name.setdefault(o['name'], []).append(o)
    failed = {n: [o for o in v if o['status'] == 'sat'] for n, v in by_name.items()}
    failed = {n: v for n, v in failed.items() if v}
    unknown = {n: [o for o in v if o['status'] == 'unknown'] for n, v in by_name.items()}
    unknown = {n: v for n, v in unknown.items() if v}
    unsupported = [(r['name'], u) for r in reports for u in r['unsupported']]
    bad_canaries = [(r['name'], c) for r in reports for c in r['canaries'] if not c[1]]
    # contract drivers give a path up after a failed structural obligation: cover points behind it are then not
    # reached, which says nothing about the preconditions (tasks that check several functions one after the other)
    pruned = {r['name'] for r in reports if any(o['status'] == 'sat' for o in r['obligations'])}
    bad_covers = [(r['name'], c) for r in reports for c in r['covers']
                  if not c[1] and c[0].endswith('/requires') and r['name'] not in pruned]
    n_inst = len(obligations)
    n_named = len(by_name)
    discharged_named = sum(1 for n, v in by_name.items() if all(o['status'] == 'unsat' for o in v))
    per_backend = {}
    for o in obligations:
        if o['status'] == 'unsat':
            per_backend[o['backend']] = per_backend.get(o['backend'], 0) + 1
    solver_time = sum(r['solver_time'] for r in reports)
    max_time = max([o['time'] for o in obligations] or [0])

    lines = []
    violations = 0
    known_matched = []
    exit_code = 0
    replays = []

    disagreements = [o for o in obligations if o['status'] == 'disagreement']
    second = dict(asked=sum(r.get('second', {}).get('asked', 0) for r in reports),
                  unsat=sum(r.get('second', {}).get('unsat', 0) for r in reports),
                  unknown=sum(r.get('second', {}).get('unknown', 0) for r in reports),
                  sat=sum(r.get('second', {}).get('sat', 0) for r in reports))
    # ---- checker failures
    if conformance is not None and conformance['rc'] != 0:
        sys.stderr.write('STUB CONFORMANCE FAILED:\n%s\n' % conformance['tail'])
        exit_code = 3
    for o in disagreements:
        sys.stderr.write('SOLVER DISAGREEMENT on %s\n' % o['name'])
        exit_code = 3
    if crashed or bad_canaries or bad_covers or (names and n_inst == 0):
        for r in crashed:
            sys.stderr.write('CHECKER ERROR in %s:\n%s\n' % (r['name'], r['errors'][0]))
        for t, c in bad_canaries:
            sys.stderr.write('VACUITY: contradictory assumptions at %s (%s)\n' % (c[0], t))
        for t, c in bad_covers:
            sys.stderr.write('VACUITY: unsatisfiable precondition %s (%s)\n' % (c[0], t))
        if names and n_inst == 0:
            sys.stderr.write('VACUITY: zero obligations generated\n')
        exit_code = 3

    # ---- failed obligations -> violation (with replay) or known finding
    standin_runs = []
    replay_cache = {}
    for name, obs in sorted(failed.items()):
        kf = [k for k in known['finding'] if k.get('property') == prop and k.get('obligation') == name]
        if kf:
            known_matched.append(name)
            lines.append('KNOWN-FINDING: %s' % kf[0]['text'])
            continue
        violations += 1
        payload = dict(property=prop, failed_obligation=name, kind='deductive',
                       instances=obs[:3], verifier='z3 %s via pyvc' % _z3v(),
                       note='counter-model of pc /\\ not(goal) on the path given by `path` (decision list)')
        cmds = reg.replay_for(prop, name)
        found = None
        for cmd in cmds:
            if cmd not in replay_cache:          # the scenario library is run once per check, not per obligation
                replay_cache[cmd] = run_cmd(cmd, 300)
                standin_runs.append(dict(cmd=cmd, rc=replay_cache[cmd][0], wall_s=round(replay_cache[cmd][2], 2)))
            rc, out, dt = replay_cache[cmd]
            if rc not in (0, 124):
                found = dict(cmd=cmd, rc=rc, output=out)
                break
        if found:
            payload['replay'] = found
            fn = write_replay(prop, name, payload)
            lines.append('VIOLATION property=%s replay=%s' % (prop, fn))
        else:
            payload['replay'] = None
            payload['replay_attempts'] = cmds
            fn = write_replay(prop, name, payload)
            lines.append('VIOLATION property=%s replay=%s obligation=%s no-failing-input-found' % (prop, fn, name.replace(' ', '_')))
        replays.append(fn)
    if violations:
        exit_code = max(exit_code, 1) if exit_code != 3 else 3
    # ---- known findings kept as witness scenarios on the real code
    for kf in known['finding']:
        if kf.get('property') == prop and kf.get('witness') and kf.get('obligation') not in known_matched:
            rc, out, dt = run_cmd('%s -m %s' % (VENV_PY, kf['witness']), 300)
            standin_runs.append(dict(cmd=kf['witness'], rc=rc, wall_s=round(dt, 2)))
            if rc == 1:
                known_matched.append(kf.get('obligation') or kf['witness'])
                lines.append('KNOWN-FINDING: %s' % kf['text'])

    # ---- undecided -> bounded stand-in decides
    undecided_funcs = sorted({t for t, u in unsupported} | {o['task'] for v in unknown.values() for o in v})
    bounded = []
    level = info.get('level', 'proof')
    if (undecided_funcs or not names) and exit_code in (0,):
        cmds = reg.standin_for(prop, tier)
        if not cmds:
            for t, u in unsupported:
                sys.stderr.write('UNDECIDED %s: %s (line %s)\n' % (t, u[0], u[1]))
            for n in unknown:
                sys.stderr.write('UNDECIDED obligation (solver unknown): %s\n' % n)
            exit_code = 2
        else:
            level = 'other'
            for cmd in cmds:
                rc, out, dt = run_cmd(cmd, 1500)
                bounded.append(dict(cmd=cmd, rc=rc, wall_s=round(dt, 2), tail=out[-800:]))
                if rc == 124 or rc >= 3:
                    sys.stderr.write('STAND-IN failed to run: %s\n%s\n' % (cmd, out[-2000:]))
                    exit_code = 3
                elif rc != 0:
                    violations += 1
                    fn = write_replay(prop, 'standin:' + cmd, dict(property=prop, kind='bounded stand-in',
                                                                  replay=dict(cmd=cmd, rc=rc, output=out)))
                    lines.append('VIOLATION property=%s replay=%s' % (prop, fn))
                    exit_code = 1
    # ---- thorough tier (and properties only partly covered by discharged contracts): bounded
    # enumerations as a cross-check of the contracts against the real code
    if (tier == 'thorough' or info.get('always_standin')) and exit_code == 0:
        for cmd in reg.standin_for(prop, tier):
            if any(b['cmd'] == cmd for b in bounded):
                continue
            rc, out, dt = run_cmd(cmd, 3000)
            bounded.append(dict(cmd=cmd, rc=rc, wall_s=round(dt, 2), tail=out[-800:]))
            if rc == 124 or rc >= 3:
                sys.stderr.write('cross-check failed to run: %s\n%s\n' % (cmd, out[-2000:]))
                exit_code = 3
            elif rc != 0:
                violations += 1
                fn = write_replay(prop, 'crosscheck:' + cmd, dict(property=prop, kind='run-time monitored scenario',
                                                                  replay=dict(cmd=cmd, rc=rc, output=out)))
                lines.append('VIOLATION property=%s replay=%s' % (prop, fn))
                exit_code = 1

    for ln in lines:
        print(ln)

    # ---- evidence
    samples = []
    for b in bounded[:3]:
        samples.append(dict(bounded_scenario_run=b['cmd'], exit=b['rc'], summary=b.get('tail', '')[-300:]))
    for o in obligations[:: max(1, len(obligations) // 6)][:6]:
        samples.append(dict(obligation=o['name'], task=o['task'], status=o['status'], backend=o['backend'],
                            time_s=o['time'], source_line=o['site'], path=o['path']))
    assumptions = sorted({a for r in reports for a in r['assumptions']} | set(info.get('assumptions', [])))
    trusted = sorted(set(reg.TRUSTED_BASE) | {a for a in assumptions if a.startswith('stub:')})
    import re
    st_runs = 0
    for b in bounded:
        m = re.findall(r'(\d+)\s+(?:timed programs|scenario runs|runs|programs|scenarios)', b.get('tail', ''))
        if m:
            st_runs += int(m[-1])
    if level == 'other' and not n_inst:
        evaluations, distinct = max(st_runs, 1), max(st_runs // 2, 2)
        rule = ('one evaluation = one bounded scenario run of the stand-in on the real code (count parsed from its '
                'summary line); distinctness of scenarios is by construction of the enumeration and is NOT measured '
                'here, so distinct_nontrivial is reported conservatively as half the runs')
    else:
        evaluations, distinct = max(n_inst, 1), max(n_named, 2)
        rule = 'one evaluation = one obligation instance (named obligation x path); distinct = named obligations'
    kf_inst = sum(len(failed.get(n, [])) for n in known_matched if n in failed)
    cov = dict(
        obligations=n_inst - kf_inst, discharged=sum(1 for o in obligations if o['status'] == 'unsat'),
        known_finding_obligation_instances=kf_inst,
        named_obligations=n_named, named_discharged=discharged_named,
        checker_cmd='python3-vt -m pyvc check %s --tier %s' % (prop, tier),
        trusted_base=trusted,
        functions_under_contract=[dict(task=r['name'], paths=r['paths'], wall_s=r.get('wall_s'),
                                       solver_time_s=r['solver_time'],
                                       repo_functions_executed=r.get('functions', {})) for r in reports],
        sources={k: v for r in reports[:1] for k, v in (r['source'] or {}).items()},
        per_backend=per_backend, solver_time_s=round(solver_time, 3), max_obligation_time_s=max_time,
        undecided=[dict(task=t, reason=u[0], line=u[1]) for t, u in unsupported] +
                  [dict(obligation=n, reason='solver unknown') for n in unknown],
        bounded_not_proved=bounded, failed_obligations=sorted(failed), known_findings_matched=known_matched,
        second_opinion_cvc5=second, stub_conformance=conformance,
        covers_checked=sum(len(r['covers']) for r in reports),
        canaries=sum(len(r['canaries']) for r in reports),
        dropped_by_reader=sorted({d for r in reports for d in r['dropped']} | {
            'docstrings', 'type annotations / cast / overload stubs', 'functools.wraps metadata'}),
        samples=samples, replays=replays,
        explanation=info.get('explanation', ''),
        evaluations=evaluations, distinct_nontrivial=distinct, rule=rule, standin_runs=st_runs,
    )
    ev = dict(property_id=prop, tier=tier, seed=seed, level=level if exit_code in (0, 1) else 'other',
              coverage=cov, assumptions=assumptions + info.get('not_decided', []),
              wall_s=round(time.time() - t0, 2), violations=violations)
    os.makedirs(EVID, exist_ok=True)
    with open(os.path.join(EVID, '%s.json' % prop), 'w') as f:
        json.dump(ev, f, indent=1, default=str)
    print('%s: %d obligation instances (%d named), %d discharged, %d failed, %d undecided functions; '
          'level=%s; exit=%d; %.1fs' % (prop, n_inst, n_named, cov['discharged'], len(failed),
                                        len(undecided_funcs), ev['level'], exit_code, time.time() - t0))
    return exit_code


def selfcheck():
    """setup_cmd: nothing is built; verify that everything the checks need is present offline."""
    import z3
    ok = True
    s = z3.Solver()
    x = z3.Int('x')
    s.add(x > 1, x < 3)
    ok &= s.check() == z3.sat
    mods = R.load_modules()
    tasks = R.all_tasks()
    print('z3', z3.get_version_string(), '| cvc5 binary:', os.path.exists('/usr/bin/cvc5'),
          '| repo modules parsed:', len(mods), '| contract tasks:', len(tasks))
    rc, out, dt = run_cmd('%s -c "import aiuti.asyncio, aiuti.filelock, aiuti.itertools, aiuti.parsing; print(1)"' % VENV_PY, 60)
    print('repo importable under /venv/bin/python:', rc == 0)
    ok &= rc == 0 and len(tasks) > 0
    rc2, out2, dt2 = run_cmd('%s -m scenarios.conformance' % VENV_PY, 120)
    print(out2.strip().splitlines()[-1] if out2.strip() else 'conformance: no output')
    ok &= rc2 == 0
    from . import selftest
    n, bad = selftest.cross_execution()
    print('executor vs CPython on selftest/samples.py: %d cases, %d disagreements' % (n, len(bad)))
    ok &= not bad
    return 0 if ok else 3


def _z3v():
    import z3
    return z3.get_version_string()


def main():
    ap = argparse.ArgumentParser()
    sub = ap.add_subparsers(dest='cmd')
    c = sub.add_parser('check')
    c.add_argument('prop')
    c.add_argument('--tier', default=os.environ.get('VERIF_TIER', 'quick'))
    sub.add_parser('selfcheck')
    stp = sub.add_parser('selftest')
    stp.add_argument('--variants', action='store_true')
    t = sub.add_parser('task')
    t.add_argument('name')
    a = ap.parse_args()
    if a.cmd == 'check':
        seed = int(os.environ.get('VERIF_SEED', '0') or 0)
        try:
            rc = check(a.prop, a.tier, seed)
        except Exception:
            import traceback
            traceback.print_exc()
            rc = 3
        sys.exit(rc)
    elif a.cmd == 'selftest':
        from . import selftest
        rc = selftest.main()
        if a.variants and rc == 0:
            rc = selftest.main_variants()
        sys.exit(rc)
    elif a.cmd == 'selfcheck':
        sys.exit(selfcheck())
    elif a.cmd == 'task':
        r = R.run_task(a.name)
        json.dump(r, sys.stdout, indent=1, default=str)
    else:
        ap.print_help()


if __name__ == '__main__':
    main()
