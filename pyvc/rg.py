"""
Rely/guarantee layer with ghost state (DESIGN section 2.3).

A contract declares
  * the shared + ghost state (names -> z3 sorts), kept in E.w as current terms;
  * the global invariant            inv(s)            -> formula
  * the agent's GUARANTEE           actions           name -> fn(s, t, me) -> formula   (two-state)
  * what it RELIES on, as stable two-state predicates
        stable_thread  [(name, fn(s, t, me))]   assumed at every interference point
        stable_task    [(name, fn(s, t, me))]   additionally assumed at suspending awaits
    (each must be reflexive and transitive: `P(s) => P(t)` or a frame equality guarded by something
    only the agent itself changes; checked by `side_conditions`)
  * the actions of OTHER agents and of the environment  (name, fn(s, t, o), level)
    against which every stable predicate and the invariant are proved (side_conditions).

At an interference point (before every access to shared state; at suspending awaits) the executor
  (1) obliges that what the agent did since the last point is one of its declared actions (or nothing),
  (2) obliges inv on the current state,
  (3) replaces the whole state by fresh symbols, assuming inv and the stable predicates.
"""
import z3

from .values import *  # noqa: F401,F403
from .engine import PathEnd, Unsupported


class St:
    """A state: attribute access to the z3 terms of the declared variables."""

    def __init__(self, d):
        self.__dict__['d'] = dict(d)

    def __getattr__(self, n):
        try:
            return self.d[n]
        except KeyError:
            raise AttributeError(n)

    def with_(self, **kw):
        d = dict(self.d)
        d.update(kw)
        return St(d)


def q_inv(inv_parts, sorts):
    """Quantified form of an invariant given as parts [(name, kind, fn)], kind in plain / one of `sorts`."""
    def f(s):
        out = []
        for name, kind, fn in inv_parts:
            if kind == 'plain':
                out.append(fn(s))
            else:
                x = z3.Const('x!%s!%s' % (kind, name), sorts[kind])
                out.append(z3.ForAll([x], fn(s, x)))
        return z3.And(*out)
    return f


def g_inv(inv_parts, s, terms):
    """Ground instances of the invariant at the given relevant terms (sound weakening when ASSUMED)."""
    out = []
    for name, kind, fn in inv_parts:
        if kind == 'plain':
            out.append(fn(s))
        else:
            for x in terms.get(kind, ()):
                out.append(fn(s, x))
    return z3.And(*out) if out else z3.BoolVal(True)


def q_stable(parts, sorts):
    out = []
    for name, kind, fn in parts:
        if kind == 'plain':
            out.append((name, fn))
        else:
            def mk(fn=fn, kind=kind, name=name):
                def P(s, t, me):
                    x = z3.Const('x!%s!%s' % (kind, name), sorts[kind])
                    return z3.ForAll([x], fn(s, t, me, x))
                return P
            out.append((name, mk()))
    return out


class RG:
    def __init__(self, E, decl, inv, actions, stable_thread=(), stable_task=(), me=None, qual='',
                 props=None, inv_parts=None, sorts=None, terms=None):
        self.E = E
        self.decl = dict(decl)
        self.inv = inv
        self.actions = actions            # dict name -> fn(s, t, me)
        self.stable_thread = list(stable_thread)
        self.stable_task = list(stable_task)
        self.me = me
        self.qual = qual
        self.props = props
        self.snap = None
        self.n_points = 0
        self.label = ''
        self.inv_parts = inv_parts     # optional: [(name, kind, fn)] -> ground instantiation when assumed
        self.sorts = sorts or {}
        self.terms = terms             # fn(s_old, s_new) -> {kind: [z3 terms]} relevant at this point
        self.point_facts = None        # fn(t, me): facts that hold whenever the agent executes
        self.hints = None              # fn() -> {sort-kind: [terms]} witnesses for existential actions

    # ------------------------------------------------------------ state handling
    def init_state(self, assume_inv=True):
        E = self.E
        for n, srt in self.decl.items():
            E.w[n] = E.fresh(n, srt)
        if assume_inv:
            E.assume(self._inv_assumed(None, self.cur()))
        self.snap = self.cur()

    def _inv_assumed(self, s1, s2):
        if self.inv_parts is None:
            return self.inv(s2)
        return g_inv(self.inv_parts, s2, self.terms(s1, s2))

    def instantiate_inv(self, terms):
        """More ground instances of inv for the state of the last interference point (inv holds there
        in full; instances are assumed lazily)."""
        if self.inv_parts is not None:
            self.E.assume(g_inv(self.inv_parts, self.snap, terms))

    def cur(self):
        return St({n: self.E.w[n] for n in self.decl})

    def set(self, **kw):
        for n, t in kw.items():
            assert n in self.decl, n
            self.E.w[n] = t

    def _acts(self, s0, s1):
        """Instances of my actions; an action with an existential witness is tried at each hinted term."""
        out = []
        hints = self.hints() if self.hints is not None else {}
        for name, fn in self.actions.items():
            w = getattr(fn, 'witness', None)
            if w is None:
                out.append(fn(s0, s1, self.me))
            else:
                for x in hints.get(w, ()):
                    out.append(fn(s0, s1, self.me, x))
        return out

    def changed(self, s, t):
        return [n for n in self.decl if not z3.eq(s.d[n], t.d[n])]

    # ------------------------------------------------------------ interference
    def point(self, level='thread', site=''):
        """Interference point: guarantee + invariant obligations, then the rely."""
        E = self.E
        self.n_points += 1
        s0, s1 = self.snap, self.cur()
        ch = self.changed(s0, s1)
        if ch:
            acts = self._acts(s0, s1)
            E.oblige('%s/guarantee@%s.change_of_{%s}_is_a_declared_action' % (self.qual, site, ','.join(ch)),
                     z3.Or(*acts) if acts else z3.BoolVal(False), props=self.props,
                     detail='allowed actions: %s' % ', '.join(self.actions))
        # inv(s1) is NOT re-proved here: it follows from inv(s0) (held after the last interference), the
        # guarantee obligation just emitted (the change is a declared action) and the side condition
        # "every declared action preserves inv" discharged once per contract file.
        for n, srt in self.decl.items():
            E.w[n] = E.fresh(n, srt)
        s2 = self.cur()
        E.assume(self._inv_assumed(s1, s2))
        preds = self.stable_thread + (self.stable_task if level == 'task' else [])
        terms = self.terms(s1, s2) if self.terms is not None else {}
        for item in preds:
            if len(item) == 2:
                name, fn = item
                E.assume(fn(s1, s2, self.me))
            else:
                name, kind, fn = item
                if kind == 'plain':
                    E.assume(fn(s1, s2, self.me))
                else:
                    for x in terms.get(kind, ()):
                        E.assume(fn(s1, s2, self.me, x))
            E.used('rely[%s]: %s' % (level, name))
        if self.point_facts is not None:
            E.assume(self.point_facts(s2, self.me))
            E.used('axiom: a task executes only while its loop is running')
        self.snap = s2

    def commit(self, site=''):
        """End of the agent's code: the last segment must be a declared action too."""
        E = self.E
        s0, s1 = self.snap, self.cur()
        ch = self.changed(s0, s1)
        if ch:
            acts = self._acts(s0, s1)
            E.oblige('%s/guarantee@%s.change_of_{%s}_is_a_declared_action' % (self.qual, site, ','.join(ch)),
                     z3.Or(*acts) if acts else z3.BoolVal(False), props=self.props)
        self.snap = s1


def frame(s, t, decl, but=()):
    """Everything declared stays equal except the names in `but`."""
    return z3.And(*[t.d[n] == s.d[n] for n in decl if n not in but]) if any(n not in but for n in decl) else z3.BoolVal(True)


def side_conditions(E, decl, inv, my_actions, other_actions, stable_thread, stable_task, init=None,
                    qual='', props=None, mk_me=None, mk_other=None, distinct=None):
    """Once per contract file (pure SMT, no code):
       (i)   init => inv
       (ii)  every action (mine instantiated for `me`, others' for an arbitrary `o` /= me, the
             environment's) preserves inv
       (iii) every stable predicate is reflexive and is preserved by every action of others / of the
             environment at its level.
    """
    def fresh_state(tag):
        return St({n: E.fresh('%s_%s' % (n, tag), srt) for n, srt in decl.items()})
    me = mk_me(E)
    o = mk_other(E)
    if distinct is not None:
        E.assume(distinct(me, o))
    if init is not None:
        s = fresh_state('i')
        E.oblige('%s/side.init_establishes_inv' % qual, z3.Implies(init(s, me), inv(s)), props=props)
    def closed_form(fn):
        w = getattr(fn, 'witness', None)
        if w is None:
            return fn
        srt = getattr(fn, 'witness_sort')

        def g(s_, t_, a):
            x = z3.Const('x!wit', srt)
            return z3.Exists([x], fn(s_, t_, a, x))
        return g
    my_actions = {n: closed_form(f) for n, f in my_actions.items()}
    other_actions = [(n, closed_form(f), lv) for n, f, lv in other_actions]
    s, t = fresh_state('s'), fresh_state('t')
    for name, fn in my_actions.items():
        E.oblige('%s/side.inv_preserved_by_my[%s]' % (qual, name),
                 z3.Implies(z3.And(inv(s), fn(s, t, me)), inv(t)), props=props)
    for name, fn, level in other_actions:
        E.oblige('%s/side.inv_preserved_by_other[%s]' % (qual, name),
                 z3.Implies(z3.And(inv(s), fn(s, t, o)), inv(t)), props=props)
    for pname, P in list(stable_thread) + list(stable_task):
        E.oblige('%s/side.stable[%s].reflexive' % (qual, pname), z3.Implies(inv(s), P(s, s, me)), props=props)
        u = fresh_state('u')
        E.oblige('%s/side.stable[%s].transitive' % (qual, pname),
                 z3.Implies(z3.And(P(s, t, me), P(t, u, me)), P(s, u, me)), props=props)
    for pname, P in stable_thread:
        for name, fn, level in other_actions:
            if level != 'thread':
                continue
            E.oblige('%s/side.stable[%s]_under[%s]' % (qual, pname, name),
                     z3.Implies(z3.And(inv(s), fn(s, t, o)), P(s, t, me)), props=props)
    for pname, P in stable_task:
        for name, fn, level in other_actions:
            if level in ('task', 'thread'):
                E.oblige('%s/side.stable[%s]_under[%s]' % (qual, pname, name),
                         z3.Implies(z3.And(inv(s), fn(s, t, o)), P(s, t, me)), props=props)
