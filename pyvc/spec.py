"""
Contracts (Spec) and their two uses:

* prove():  assume `pre`, run the REAL body from /repo's AST, and for the way the body
            ends (return / exception class) oblige every clause of `post[kind]`;
* apply():  at a call site in another function: oblige `pre`, havoc `frame`, choose an
            outcome kind, assume its clauses (the callee's body is NOT looked at).

Both are derived from the same Spec object, so what callers assume is exactly what the
callee is proved to guarantee.
"""
import z3

from .values import *  # noqa: F401,F403
from .engine import PyExc, PathEnd, Unsupported, Frame, _known_cls


class Snap:
    """Pre-state snapshot: world dict + fields of the tracked heap objects."""

    def __init__(self, E, objs=()):
        self.w = dict(E.w)
        self.fields = {o.oid: dict(o.fields) for o in objs if isinstance(o, Obj)}

    def f(self, o, name):
        return self.fields[o.oid][name]


class Args:
    """Bound parameters of a call, by name."""

    def __init__(self, d):
        self.__dict__.update(d)

    def objs(self):
        return [v for v in self.__dict__.values() if isinstance(v, Obj)]


class Spec:
    def __init__(self, qualname, params, pre=(), post=None, frame=None, ret=None, props=(), doc='',
                 kinds_order=None):
        self.qualname = qualname
        self.params = params          # list of (name, default V or None) in positional order
        self.pre = list(pre)          # [(name, fn(E, a) -> formula)]
        self.post = post or {}        # kind -> [(name, props|None, fn(E, a, old, res) -> formula)]
        self.frame = frame            # fn(E, a, kind) havoc for call sites
        self.ret = ret                # fn(E, a, kind) -> V result / VExc for call sites
        self.props = frozenset(props)
        self.doc = doc

    def bind(self, E, args, kwargs):
        d = {}
        args = list(args)
        kwargs = dict(kwargs)
        for i, (n, default) in enumerate(self.params):
            if i < len(args):
                d[n] = args[i]
            elif n in kwargs:
                d[n] = kwargs.pop(n)
            elif default is not None:
                d[n] = default(E) if callable(default) else default
            else:
                raise Unsupported('contract %s: missing argument %s' % (self.qualname, n))
        if len(args) > len(self.params) or kwargs:
            raise Unsupported('contract %s: unexpected arguments' % self.qualname)
        return Args(d)

    # ------------------------------------------------------------ call-site use
    def apply(self, E, args, kwargs, node=None):
        a = self.bind(E, args, kwargs)
        site = getattr(node, 'lineno', None)
        for name, f in self.pre:
            E.oblige('%s/pre(%s).%s' % (E.cur_func, self.qualname.split('.')[-1], name), f(E, a), site=site)
        old = Snap(E, a.objs())
        kinds = list(self.post)
        kind = E.choose([(k, None) for k in kinds], 'outcome of ' + self.qualname)
        if self.frame is not None:
            self.frame(E, a, kind)
        res = self.ret(E, a, kind) if self.ret is not None else NONE
        for name, props, f in self.post[kind]:
            E.assume(f(E, a, old, res))
        if not E.feasible(z3.BoolVal(True)):
            raise PathEnd()
        if kind == 'return':
            return res
        raise PyExc(res)


def classify_exception(E, spec, exc):
    """Which `post` kind an exception belongs to (most specific listed class first)."""
    kinds = [k for k in spec.post if k != 'return']
    for k in kinds:
        if k == '*':
            continue
        m = E.exc_isinstance(exc, EXC[k])
        if E.branch(m):
            return k
    if '*' in spec.post:
        return '*'
    return None


def prove(E, spec, func, setup, objs=None):
    """One path of the proof of `func` against `spec` (called under E.run_paths)."""
    a = setup(E)
    for name, f in spec.pre:
        E.assume(f(E, a))
    E.cover('%s/requires' % spec.qualname)
    E.canary('%s/canary@entry' % spec.qualname)
    old = Snap(E, a.objs() if objs is None else objs(a))
    args = [getattr(a, n) for n, _ in spec.params]
    try:
        res = E.run_function(func, args, {})
        kind = 'return'
    except PyExc as pe:
        res = pe.exc
        kind = classify_exception(E, spec, res)
        if kind is None:
            c = _known_cls(res.cls) or str(res.cls)
            E.oblige('%s/signals.unexpected(%s)' % (spec.qualname, c), False,
                     detail='exception class not allowed by the contract')
            return
    E.cover('%s/exit[%s]' % (spec.qualname, kind))
    E.canary('%s/canary@exit[%s]' % (spec.qualname, kind))
    for name, props, f in spec.post[kind]:
        E.oblige('%s/%s.%s' % (spec.qualname, 'ensures' if kind == 'return' else 'signals[%s]' % kind, name),
                 f(E, a, old, res), props=props if props else None)
