"""
Stub contracts (ASSUMED) for the asyncio / concurrent.futures / functools / weakref operations used
by aiuti/asyncio.py.  CPython 3.12.1 facts; see scenarios/conformance.py for the runs that keep them
honest.  Identities are terms of uninterpreted sorts (Loop, Ev, Fut, ...), state lives in E.w.
"""
import z3

from .values import *  # noqa: F401,F403
from .engine import PyExc, PathEnd, Unsupported, Frame, _Return
from . import stubs
from .stubs import wget, now, advance, stub, _real

LoopS = usort('Loop')
EvS = usort('Ev')
FutS = usort('Fut')
B = z3.BoolSort()
I = z3.IntSort()
VS = z3.SeqSort(ValS)

# outcome of awaiting an opaque awaitable (Val): a value or a raised exception
aw_outcome = z3.Function('aw_outcome', ValS, ValS)     # result value, or the exception object
is_exc = z3.Function('is_exc_instance', ValS, B)       # the Val is a BaseException instance
cls_of = z3.Function('cls_of', ValS, ClsS)
OUTCOMES = z3.Function('outcomes_in_input_order', VS, VS)   # gather(..., return_exceptions=True)


class VStar(V):
    """`*expr` call argument whose expr is an abstract (unbounded) sequence."""
    __slots__ = ('seq',)

    def __init__(self, seq):
        self.seq = seq


def exc_from_val(E, v):
    """A Val known to be an exception instance, as a raisable VExc (identity kept)."""
    return VExc(cls_of(v), (), ident=v)


def val_of_exc(E, exc):
    if exc.ident is None:
        exc.ident = E.fresh('exc_obj', ValS)
        E.assume(z3.And(is_exc(exc.ident), cls_of(exc.ident) == exc.cls))
    return exc.ident


def suspend(E, what, node=None):
    """A suspending await: other tasks of the loop run, the loop may stop, my task may be cancelled."""
    h = E.await_hook
    if h is not None:
        h(E, what, node)


# ------------------------------------------------------------------ awaitables
def mk_awaitable(kind, **fields):
    return Obj('Awaitable', dict(kind=kind, **fields))


def do_await(E, v, node, fr):
    h = E.builtins.get('__await_ext__')
    if h is not None:
        r = h(E, v, node, fr)
        if r is not None:
            return r[0]
    if isinstance(v, Obj) and v.cls == 'Awaitable':
        k = v.fields['kind']
        fn = AWAIT.get(k)
        if fn is None:
            raise Unsupported('await of %s' % k, node)
        return fn(E, v, node)
    if isinstance(v, Obj) and v.cls in ('AFuture', 'ATask'):
        return await_future(E, v, node)
    if isinstance(v, VVal) and v.t.sort() == ValS:
        # opaque user awaitable: suspends, then returns its value or raises its exception
        suspend(E, 'user-awaitable', node)
        out = aw_outcome(v.t)
        if E.branch(is_exc(out)):
            raise PyExc(exc_from_val(E, out))
        return VVal(out)
    h = E.builtins.get('__await_ext__')
    if h is not None:
        r = h(E, v, node, fr)
        if r is not None:
            return r[0]
    raise Unsupported('await of %r' % (v,), node)


AWAIT = {}


def awaiter(kind):
    def deco(fn):
        AWAIT[kind] = fn
        return fn
    return deco


@awaiter('sleep')
def _aw_sleep(E, v, node):
    d = _real(v.fields['delay'])
    suspend(E, 'sleep', node)
    advance(E, exact=z3.If(d > 0, d, z3.RealVal(0)))
    return v.fields.get('result', NONE)


@awaiter('gather')
def _aw_gather(E, v, node):
    """gather(*aws, return_exceptions=True): every awaitable runs to completion (a failure cancels
    nothing); the result list has, at position i, the value or the raised exception of aws[i]: INPUT
    order whatever the finishing order."""
    suspend(E, 'gather', node)
    a = v.fields['args']
    rex = v.fields['return_exceptions']
    if len(a) == 1 and isinstance(a[0], VStar):
        seq = a[0].seq
        if rex is not True:
            h = E.builtins.get('__gather_first_failure_wins__')
            if h is not None:
                return h(E, v, node)
            raise Unsupported('gather(*abstract) without return_exceptions=True', node)
        R = OUTCOMES(seq)
        E.assume(z3.Length(R) == z3.Length(seq))
        return VSeq(R, VVal)
    # concrete list of awaitables: awaited one after the other in the model (zero ghost time between)
    h = E.builtins.get('__gather_concrete__')
    if h is None:
        raise Unsupported('gather of concrete awaitables', node)
    return h(E, v, node)


# ------------------------------------------------------------------ futures
def fut_world(E):
    st = wget(E, 'fut_state', lambda: E.fresh('fut_state', z3.ArraySort(FutS, I)))
    val = wget(E, 'fut_val', lambda: E.fresh('fut_val', z3.ArraySort(FutS, ValS)))
    return st, val


PENDING, RESULT, EXCEPTION, CANCELLED = 0, 1, 2, 3


def new_future(E, loop=None, cls='AFuture', **extra):
    f = E.fresh('fut', FutS)
    st, val = fut_world(E)
    known = wget(E, 'futs_known', lambda: [])
    for g in known:
        E.assume(f != g)
    known.append(f)
    E.w['fut_state'] = z3.Store(st, f, PENDING)
    return Obj(cls, dict(fut=f, loop=loop, **extra))


def await_future(E, fobj, node):
    """await fut: suspends until done; returns its result / raises its exception / CancelledError."""
    suspend(E, 'future', node)
    f = fobj.fields['fut']
    st, val = fut_world(E)
    s = z3.Select(st, f)
    E.assume(s != PENDING)            # the await returns only once the future is done
    tag = E.choose([('result', s == RESULT), ('exception', s == EXCEPTION), ('cancelled', s == CANCELLED)],
                   'future outcome')
    if tag == 'result':
        return VVal(z3.Select(val, f))
    if tag == 'exception':
        ev = z3.Select(val, f)
        raise PyExc(VExc(cls_of(ev), (), ident=ev, info={'origin': 'future'}))
    E.throw('CancelledError', origin='future')


def install(E):
    Bn = E.builtins
    E.builtins['__await__'] = do_await

    # ---- star-args over abstract sequences
    def _unpack(E, v, node):
        if isinstance(v, VSeq):
            return [VStar(v.t)]
        if isinstance(v, VVal) and v.t.sort() == VS:
            return [VStar(v.t)]
        h = Bn.get('__unpack_ext__')
        return h(E, v, node) if h else None
    Bn['__unpack__'] = _unpack

    def _isinstance(E, o, c):
        if isinstance(o, VVal) and o.t.sort() == ValS and isinstance(c, VClass):
            if c.name in EXC_PARENTS or c.info is None and c.name.startswith('sym:'):
                E.need_hierarchy()
                return VBool(z3.And(is_exc(o.t), sub(cls_of(o.t), c.term)))
        h = Bn.get('__isinstance_ext__')
        return h(E, o, c) if h else None
    Bn['__isinstance__'] = _isinstance

    def _as_exc(E, v, node):
        if isinstance(v, VVal) and v.t.sort() == ValS:
            E.oblige('%s/pre(raise).value_is_an_exception' % E.cur_func, is_exc(v.t))
            return exc_from_val(E, v.t)
        return None
    Bn['__as_exception__'] = _as_exc

    # ---- asyncio namespace
    @stub('asyncio.gather')
    def _gather(E, a, k):
        rex = k.get('return_exceptions')
        rexc = rex.concrete() if isinstance(rex, VBool) else (False if rex is None else None)
        E.effect('asyncio.gather', tuple(a), rexc)
        return mk_awaitable('gather', args=list(a), return_exceptions=rexc)

    @stub('asyncio.sleep')
    def _sleep(E, a, k):
        return mk_awaitable('sleep', delay=a[0], result=a[1] if len(a) > 1 else NONE)

    @stub('asyncio.get_running_loop')
    def _grl(E, a, k):
        return VVal(wget(E, 'running_loop', lambda: z3.Const('running_loop', LoopS)))

    @stub('asyncio.get_event_loop')
    def _gel(E, a, k):
        return VVal(wget(E, 'current_event_loop', lambda: z3.Const('current_event_loop', LoopS)))

    aio = dict(gather=_gather, sleep=_sleep, get_running_loop=_grl, get_event_loop=_gel,
               CancelledError=EXC['CancelledError'], TimeoutError=EXC['TimeoutError'],
               QueueEmpty=EXC['QueueEmpty'], InvalidStateError=EXC['InvalidStateError'])
    ns = VNamespace('asyncio', aio)
    Bn[('import', 'asyncio')] = ns
    Bn[('import', 'asyncio:QueueEmpty')] = EXC['QueueEmpty']
    Bn[('import', 'asyncio:TimeoutError')] = EXC['TimeoutError']
    Bn[('import', 'asyncio:AbstractEventLoop')] = VClass('asyncio.AbstractEventLoop')

    # ---- functools
    @stub('functools.partial')
    def _partial(E, a, k):
        """partial(f, *args, **kw)(*more, **kw2) == f(*args, *more, **{**kw, **kw2})"""
        return VPartial(a[0], a[1:], k)

    @stub('functools.wraps')
    def _wraps(E, a, k):
        # wraps(f)(g) is g with f's metadata copied: behaviour is g's (metadata dropped, DESIGN section 3)
        return VStub('functools.wraps(...)', lambda E, a2, k2: a2[0])
    Bn[('import', 'functools:partial')] = _partial
    Bn[('import', 'functools:wraps')] = _wraps
    return ns


# ------------------------------------------------------------------ simple object stubs (constructors record
# their arguments; behaviour is added by the contracts that need it)
def install_objects(E):
    ns = E.builtins[('import', 'asyncio')]

    def _event(E_, a, k):
        e = E.fresh('ev', EvS)
        evs = wget(E, 'ev_set', lambda: E.fresh('ev_set', z3.ArraySort(EvS, B)))
        E.w['ev_set'] = z3.Store(evs, e, False)
        return Obj('AEvent', dict(ident=e))
    ns.attrs['Event'] = VClass('asyncio.Event', ctor=_event)

    def _queue(E_, a, k):
        q = Obj('AQueue', dict(maxsize=k.get('maxsize', a[0] if a else VInt(0))))
        E.w[('q', q.oid)] = z3.Empty(VS)
        E.w[('q_unfinished', q.oid)] = z3.IntVal(0)
        return q
    ns.attrs['Queue'] = VClass('asyncio.Queue', ctor=_queue)
    ns.attrs['LifoQueue'] = VClass('asyncio.LifoQueue', ctor=lambda E_, a, k: Obj('ALifoQueue'))
    ns.attrs['PriorityQueue'] = VClass('asyncio.PriorityQueue', ctor=lambda E_, a, k: Obj('APriorityQueue'))

    def _sem(E_, a, k):
        v = k.get('value', a[0] if a else VInt(1))
        s_ = Obj('ASemaphore', dict(value=v))
        E.w[('sem_permits', s_.oid)] = v.t if isinstance(v, VInt) else None
        return s_
    ns.attrs['Semaphore'] = VClass('asyncio.Semaphore', ctor=_sem)
    ns.attrs['BoundedSemaphore'] = VClass('asyncio.BoundedSemaphore', ctor=_sem)

    def _attr(E_, o, name, node):
        h0 = E.builtins.get('__getattr_ext__')
        if h0 is not None:
            r0 = h0(E_, o, name, node)
            if r0 is not None:
                return r0
        if isinstance(o, Obj) and o.cls == 'AEvent':
            ev = o.fields['ident']
            if name == 'set':
                return VStub('Event.set', lambda E_, a, k: _ev_write(E, ev, True))
            if name == 'clear':
                return VStub('Event.clear', lambda E_, a, k: _ev_write(E, ev, False))
            if name == 'is_set':
                return VStub('Event.is_set', lambda E_, a, k: VBool(z3.Select(
                    wget(E, 'ev_set', lambda: E.fresh('ev_set', z3.ArraySort(EvS, B))), ev)))
            if name == 'wait':
                return VStub('Event.wait', lambda E_, a, k: mk_awaitable('event_wait', ev=ev))
        return None
    E.builtins['__getattr__'] = _attr

    def _daemon(E_, a, k):
        """DaemonTask(coro, loop=, name=): an asyncio.Task of `coro` on `loop` (started at the loop's next
        iteration, not run here); creation on a closed loop raises RuntimeError."""
        coro = a[1] if len(a) > 1 else k.get('coro')
        t = Obj('ATask', dict(coro=coro, loop=k.get('loop'), name=k.get('name'), daemon=True))
        E.effect('task.create', t)
        tasks = wget(E, 'tasks_created', lambda: [])
        tasks.append(t)
        return t

    class _DaemonSpec:
        def apply(self, E_, args, kwargs, node=None):
            return _daemon(E_, args, kwargs)
    E.specs['aiuti.asyncio.DaemonTask'] = _DaemonSpec()

    def _wkd(E_, a, k):
        d = Obj('WeakKeyDict')
        E.w[('wkd_has', d.oid)] = z3.K(LoopS, False)
        return d
    E.builtins[('import', 'weakref:WeakKeyDictionary')] = VClass('weakref.WeakKeyDictionary', ctor=_wkd)
    E.builtins[('import', 'weakref:finalize')] = VStub('weakref.finalize', lambda E_, a, k: (E.effect('weakref.finalize', *a), NONE)[1])
    E.builtins[('import', 'concurrent.futures:ThreadPoolExecutor')] = VClass(
        'ThreadPoolExecutor', ctor=lambda E_, a, k: Obj('Executor', dict(workers=a[0] if a else NONE)))
    E.builtins[('import', 'itertools:islice')] = VStub('itertools.islice', lambda E_, a, k: Obj('islice', dict(it=a[0], n=a[1])))
    def _exc_info(E_, a, k):
        """sys.exc_info(): the exception being handled in THIS THREAD right now -- inside a generator that includes an
        exception the consumer happens to be handling while it drives the generator (an `except` block, a `finally`
        during unwinding): unknown to the callee"""
        none = E_.fresh('no_exception_is_being_handled_anywhere_up_the_stack', z3.BoolSort())
        return VTuple([VOpt(none, E_.fresh_val('exc_type')), VOpt(none, E_.fresh_val('exc_value')),
                       VOpt(none, E_.fresh_val('exc_traceback'))])
    E.builtins[('import', 'sys')] = VNamespace('sys', dict(version_info=VTuple([VInt(3), VInt(12), VInt(1)]),
                                                           exc_info=VStub('sys.exc_info', _exc_info)))
    def _tq(order):
        return lambda E_, a, k: Obj('TQueue', dict(maxsize=k.get('maxsize', a[0] if a else VInt(0)), order=order))
    E.builtins[('import', 'queue')] = VNamespace('queue', dict(
        Queue=VClass('queue.Queue', ctor=_tq('fifo')), LifoQueue=VClass('queue.LifoQueue', ctor=_tq('lifo')),
        PriorityQueue=VClass('queue.PriorityQueue', ctor=_tq('priority')),
        SimpleQueue=VClass('queue.SimpleQueue', ctor=_tq('fifo'))))


def _ev_write(E, ev, val):
    evs = wget(E, 'ev_set', lambda: E.fresh('ev_set', z3.ArraySort(EvS, B)))
    E.w['ev_set'] = z3.Store(evs, ev, val)
    E.effect('event.set' if val else 'event.clear', ev)
    return NONE
