"""Symbolic values of the pyvc executor (python3-vt, z3-solver 5.1)."""
import itertools
import z3

# ----------------------------------------------------------------- sorts
_sorts = {}


def usort(name):
    """Uninterpreted sort by name (Val, Loop, Ev, Fut, Thread, Cls, ...)."""
    if name not in _sorts:
        _sorts[name] = z3.DeclareSort(name)
    return _sorts[name]


ValS = usort('Val')          # opaque Python values; SMT equality IS Python ==
ClsS = usort('Cls')          # (exception) classes


class Unsupported(Exception):
    """Construct / call outside the verified subset: function becomes undecided."""

    def __init__(self, msg, node=None):
        super().__init__(msg)
        self.msg = msg
        self.node = node


class MaybeUnbound(Unsupported):
    """A local read after the (cut) loop that assigns it: bound iff the loop ran -- never swallowed."""


class V:
    """Base of all symbolic values."""
    __slots__ = ()


class VInt(V):
    __slots__ = ('t',)

    def __init__(self, t):
        self.t = z3.IntVal(t) if isinstance(t, int) else t

    def concrete(self):
        s = z3.simplify(self.t)
        return s.as_long() if z3.is_int_value(s) else None

    def __repr__(self):
        return 'VInt(%s)' % self.t


class VReal(V):
    __slots__ = ('t',)

    def __init__(self, t):
        self.t = z3.RealVal(t) if isinstance(t, (int, float)) else t

    def __repr__(self):
        return 'VReal(%s)' % self.t


class VBool(V):
    __slots__ = ('t',)

    def __init__(self, t):
        self.t = z3.BoolVal(t) if isinstance(t, bool) else t

    def concrete(self):
        s = z3.simplify(self.t)
        if z3.is_true(s):
            return True
        if z3.is_false(s):
            return False
        return None

    def __repr__(self):
        return 'VBool(%s)' % self.t


class VStr(V):
    __slots__ = ('t',)

    def __init__(self, t):
        self.t = z3.StringVal(t) if isinstance(t, str) else t

    def concrete(self):
        s = z3.simplify(self.t)
        return s.as_string() if z3.is_string_value(s) else None

    def __repr__(self):
        return 'VStr(%s)' % self.t


class VNone(V):
    __slots__ = ()

    def __repr__(self):
        return 'VNone'


NONE = VNone()


class VOpt(V):
    """Either None (isnone) or the payload value."""
    __slots__ = ('isnone', 'val')

    def __init__(self, isnone, val):
        self.isnone = isnone
        self.val = val

    def __repr__(self):
        return 'VOpt(%s, %r)' % (self.isnone, self.val)


class VVal(V):
    """Opaque value of an uninterpreted sort (default Val)."""
    __slots__ = ('t',)

    def __init__(self, t):
        self.t = t

    @property
    def sort(self):
        return self.t.sort()

    def __repr__(self):
        return 'VVal(%s:%s)' % (self.t, self.t.sort())


class VTuple(V):
    __slots__ = ('items',)

    def __init__(self, items):
        self.items = tuple(items)

    def __repr__(self):
        return 'VTuple%r' % (self.items,)


class VSeq(V):
    """Immutable abstract sequence (z3 Seq) of wrapped elements."""
    __slots__ = ('t', 'wrap')

    def __init__(self, t, wrap):
        self.t = t          # z3 Seq term
        self.wrap = wrap    # elem term -> V

    def __repr__(self):
        return 'VSeq(%s)' % self.t


_oid = itertools.count(1)


class Obj(V):
    """Heap object with concrete identity (instances, cells, lists, dicts, ...)."""
    __slots__ = ('oid', 'cls', 'fields', 'tag')

    def __init__(self, cls, fields=None, tag=None):
        self.oid = next(_oid)
        self.cls = cls            # ClassInfo | str (abstract kind)
        self.fields = dict(fields or {})
        self.tag = tag

    def __repr__(self):
        return 'Obj#%d<%s>' % (self.oid, getattr(self.cls, 'name', self.cls))


class VList(V):
    """Mutable Python list with concrete spine (elements symbolic)."""
    __slots__ = ('items', 'oid')

    def __init__(self, items=()):
        self.items = list(items)
        self.oid = next(_oid)

    def __repr__(self):
        return 'VList%r' % (self.items,)


class VFunc(V):
    """Function defined in /repo source (closure over the defining frame)."""
    __slots__ = ('node', 'frame', 'module', 'qualname', 'cls')

    def __init__(self, node, frame, module, qualname, cls=None):
        self.node = node
        self.frame = frame
        self.module = module
        self.qualname = qualname
        self.cls = cls

    def __repr__(self):
        return 'VFunc(%s)' % self.qualname


class VBound(V):
    __slots__ = ('self', 'func')

    def __init__(self, self_, func):
        self.self = self_
        self.func = func

    def __repr__(self):
        return 'VBound(%r, %r)' % (self.self, self.func)


class VStub(V):
    """Library operation with an (assumed) stub contract.

    fn(E, args, kwargs) -> V   (may raise PyExc, may call E.choose/oblige/assume)
    """
    __slots__ = ('name', 'fn', 'attrs')

    def __init__(self, name, fn, attrs=None):
        self.name = name
        self.fn = fn
        self.attrs = attrs or {}

    def __repr__(self):
        return 'VStub(%s)' % self.name


class VNamespace(V):
    """Module-like namespace of stubs / constants (os, fcntl, aio, ...)."""
    __slots__ = ('name', 'attrs')

    def __init__(self, name, attrs):
        self.name = name
        self.attrs = attrs

    def __repr__(self):
        return 'VNamespace(%s)' % self.name


class VClass(V):
    """A class value. term: z3 Cls constant (for exception matching)."""
    __slots__ = ('name', 'term', 'info', 'ctor')

    def __init__(self, name, term=None, info=None, ctor=None):
        self.name = name
        self.term = term if term is not None else z3.Const('cls_' + name, ClsS)
        self.info = info      # ClassInfo for repo classes
        self.ctor = ctor      # stub constructor fn(E, args, kwargs)

    def __repr__(self):
        return 'VClass(%s)' % self.name


class VExc(V):
    """Exception instance. cls is a z3 Cls term (may be symbolic)."""
    __slots__ = ('cls', 'args', 'ident', 'cause', 'info')

    def __init__(self, cls, args=(), ident=None, info=None):
        self.cls = cls            # z3 term of sort Cls
        self.args = tuple(args)
        self.ident = ident        # optional z3 Val term: identity of the exception object
        self.cause = None
        self.info = info or {}

    def __repr__(self):
        return 'VExc(%s%s)' % (self.cls, self.args and ', ...' or '')


class VPartial(V):
    __slots__ = ('func', 'args', 'kwargs')

    def __init__(self, func, args, kwargs):
        self.func = func
        self.args = tuple(args)
        self.kwargs = dict(kwargs)

    def __repr__(self):
        return 'VPartial(%r, %r, %r)' % (self.func, self.args, self.kwargs)


class VCoro(V):
    """An un-awaited coroutine object of a /repo async function (lazy call)."""
    __slots__ = ('func', 'args', 'kwargs', 'oid')

    def __init__(self, func, args, kwargs):
        self.func = func
        self.args = args
        self.kwargs = kwargs
        self.oid = next(_oid)

    def __repr__(self):
        return 'VCoro(%r)' % (self.func,)


# ----------------------------------------------------------------- exception classes
# name -> parent ; the part of CPython 3.12's hierarchy the verified code can meet
EXC_PARENTS = {
    'BaseException': None,
    'Exception': 'BaseException',
    'CancelledError': 'BaseException',        # asyncio.CancelledError (>= 3.8)
    'KeyboardInterrupt': 'BaseException',
    'SystemExit': 'BaseException',
    'GeneratorExit': 'BaseException',
    'OSError': 'Exception',                   # IOError is OSError
    'TimeoutError': 'OSError',                # asyncio.TimeoutError is TimeoutError (>= 3.11)
    'BlockingIOError': 'OSError',
    'PermissionError': 'OSError',
    'FileNotFoundError': 'OSError',
    'FileExistsError': 'OSError',
    'InterruptedError': 'OSError',
    'RuntimeError': 'Exception',
    'LookupError': 'Exception',
    'KeyError': 'LookupError',
    'IndexError': 'LookupError',
    'ValueError': 'Exception',
    'TypeError': 'Exception',
    'AttributeError': 'Exception',
    'AssertionError': 'Exception',
    'StopIteration': 'Exception',
    'StopAsyncIteration': 'Exception',
    'QueueEmpty': 'Exception',                # asyncio.QueueEmpty
    'InvalidStateError': 'Exception',         # asyncio.InvalidStateError
    'ImportError': 'Exception',
    'ArithmeticError': 'Exception',
    'ZeroDivisionError': 'ArithmeticError',
    'SyntaxError': 'Exception',
    'NameError': 'Exception',
    'UnboundLocalError': 'NameError',         # a local read on a path that never bound it
    'UserExc': 'Exception',                   # stands for "some Exception subclass of the user"
    'UserBaseExc': 'BaseException',           # "some BaseException-only class of the user"
}
EXC = {n: VClass(n) for n in EXC_PARENTS}
sub = z3.Function('subclass', ClsS, ClsS, z3.BoolSort())


def _anc(n):
    out = []
    while n is not None:
        out.append(n)
        n = EXC_PARENTS[n]
    return out


# OSError subclasses only the file-lock code can meet: left out of the class universe of the other tasks (every
# extra class makes the quantified closure axioms dearer; a class outside the universe is merely unconstrained)
RARE_OSERRORS = ('PermissionError', 'FileNotFoundError', 'FileExistsError', 'InterruptedError')


# known classes that are decided concretely against other known classes and stay outside the quantified universe
NEVER_IN_UNIVERSE = ('NameError', 'UnboundLocalError')


def hierarchy_axioms(with_rare=False):
    """Ground facts for the known classes + closure axioms for symbolic ones."""
    ax = []
    names = [n for n in EXC_PARENTS if (with_rare or n not in RARE_OSERRORS) and n not in NEVER_IN_UNIVERSE]
    ax.append(z3.Distinct(*[EXC[n].term for n in names]))
    for a in names:
        anc = set(_anc(a))
        for b in names:
            ax.append(sub(EXC[a].term, EXC[b].term) == z3.BoolVal(b in anc))
    c = z3.Const('c!h', ClsS)
    d = z3.Const('d!h', ClsS)
    e = z3.Const('e!h', ClsS)
    ax.append(z3.ForAll([c], sub(c, c)))
    ax.append(z3.ForAll([c, d, e], z3.Implies(z3.And(sub(c, d), sub(d, e)), sub(c, e))))
    return ax


def is_known_sub(a, b):
    return b in _anc(a)
